//! Line-protocol front end of the REAL implementation: one request per line on stdin, one canonical
//! response per line on stdout. The Lean driver answers the same requests from the model.
use std::io::{BufRead, Write};
use verif_harness::chan;
use verif_harness::util::{catch, silence_panics};

fn main() {
    silence_panics();
    let stdin = std::io::stdin();
    let out = std::io::stdout();
    let mut w = std::io::BufWriter::new(out.lock());
    for line in stdin.lock().lines() {
        let line = line.unwrap();
        if line.is_empty() {
            continue;
        }
        let l2 = line.clone();
        let r = catch(move || chan::respond(&l2));
        match r {
            Ok(s) => writeln!(w, "{}", s).unwrap(),
            Err(msg) => writeln!(w, "panic {}", msg.replace('\n', " ")).unwrap(),
        }
        // one answer per request is on the pipe before the next request is touched: if a request kills the process (stack overflow,
        // abort, illegal instruction - not catchable), the driver of this harness can tell which one it was
        w.flush().unwrap();
    }
}
