//! Extraction by exhaustive execution of finite-domain functions of the real code (DESIGN §4.2).
//! Output: one record per line, space separated; read by tools/extract_read.py.
use rspirv::grammar::{
    reflect, CoreInstructionTable as Core, GlslStd450InstructionTable as Gl,
    OpenCLStd100InstructionTable as Cl,
};
use std::io::{BufRead, Write};
use verif_harness::glue_enums as g;
use verif_harness::util::{catch, silence_panics};

fn list<T: std::fmt::Debug>(xs: &[T]) -> String {
    if xs.is_empty() {
        "-".to_string()
    } else {
        xs.iter().map(|x| format!("{:?}", x)).collect::<Vec<_>>().join(",")
    }
}
fn strs(xs: &[&str]) -> String {
    if xs.is_empty() { "-".to_string() } else { xs.join(",") }
}
fn ops(xs: &[rspirv::grammar::LogicalOperand]) -> String {
    if xs.is_empty() {
        "-".to_string()
    } else {
        xs.iter().map(|o| format!("{:?}:{:?}", o.kind, o.quantifier)).collect::<Vec<_>>().join(",")
    }
}

fn main() {
    silence_panics();
    let out = std::io::stdout();
    let mut w = std::io::BufWriter::new(out.lock());
    // 1. the three static tables through their public iterators
    for e in Core::iter() {
        writeln!(w, "core {} {} {} {} {}", e.opname, e.opcode as u32, list(e.capabilities), strs(e.extensions), ops(e.operands)).unwrap();
    }
    for e in Gl::iter() {
        writeln!(w, "glsl {} {} {} {} {}", e.opname, e.opcode, list(e.capabilities), strs(e.extensions), ops(e.operands)).unwrap();
    }
    for e in Cl::iter() {
        writeln!(w, "opencl {} {} {} {} {}", e.opname, e.opcode, list(e.capabilities), strs(e.extensions), ops(e.operands)).unwrap();
    }
    // 2. lookup_opcode on all 65536 numbers; get() on every table opcode
    for n in 0..=65535u32 {
        if let Some(e) = Core::lookup_opcode(n as u16) {
            writeln!(w, "lookup {} {} {}", n, e.opname, e.opcode as u32).unwrap();
        }
    }
    // 2b. the lookups are functions of their argument alone (no answer may depend on earlier lookups): every number asked twice in a
    // row, then in descending order, then right after a hit and right after a miss, compared with the first ascending sweep
    {
        let key = |n: u32| Core::lookup_opcode(n as u16).map(|e| (e.opname, e.opcode as u32));
        let first: Vec<_> = (0..=65535u32).map(key).collect();
        let mut report = |how: &str, n: u32, got: Option<(&str, u32)>| {
            writeln!(w, "impure lookup_opcode {} {} {} {}", how, n, got.map_or("none".to_string(), |g| format!("{}:{}", g.0, g.1)),
                first[n as usize].map_or("none".to_string(), |g| format!("{}:{}", g.0, g.1))).unwrap();
        };
        for n in 0..=65535u32 {
            let a = key(n);
            let b = key(n);
            if a != first[n as usize] { report("again", n, a); }
            if b != first[n as usize] { report("twice-in-a-row", n, b); }
        }
        for n in (0..=65535u32).rev() {
            let a = key(n);
            if a != first[n as usize] { report("descending", n, a); }
        }
        for n in 0..=65535u32 {
            key(1);          // a hit (OpUndef)
            let a = key(n);
            key(9);          // a miss
            let b = key(n);
            if a != first[n as usize] { report("after-a-hit", n, a); }
            if b != first[n as usize] { report("after-a-miss", n, b); }
        }
        for (nm, f) in [("glsl", &(|n: u32| Gl::lookup_opcode(n).map(|e| (e.opname, e.opcode))) as &dyn Fn(u32) -> Option<(&'static str, u32)>),
                        ("opencl", &(|n: u32| Cl::lookup_opcode(n).map(|e| (e.opname, e.opcode))))] {
            let first: Vec<_> = (0..4096u32).map(f).collect();
            for n in 0..4096u32 {
                let a = f(n);
                let b = f(n);
                f(1);
                let c = f(n);
                f(4000);
                let d = f(n);
                for (how, g) in [("again", a), ("twice-in-a-row", b), ("after-a-hit", c), ("after-a-miss", d)] {
                    if g != first[n as usize] {
                        writeln!(w, "impure lookup_{} {} {} {} {}", nm, how, n, g.map_or("none".to_string(), |g| format!("{}:{}", g.0, g.1)),
                            first[n as usize].map_or("none".to_string(), |g| format!("{}:{}", g.0, g.1))).unwrap();
                    }
                }
            }
        }
    }
    for e in Core::iter() {
        let op = e.opcode;
        match catch(move || Core::get(op)) {
            Ok(r) => writeln!(w, "get {} {} {}", op as u32, r.opname, r.opcode as u32).unwrap(),
            Err(_) => writeln!(w, "get {} PANIC -", op as u32).unwrap(),
        }
    }
    // get() of the extended tables on every value of their opcode enumerations
    for n in 0..4096u32 {
        if let Some(op) = rspirv::spirv::GLOp::from_u32(n) {
            match catch(move || Gl::get(op)) {
                Ok(r) => writeln!(w, "get_glsl {} {} {}", n, r.opname, r.opcode).unwrap(),
                Err(_) => writeln!(w, "get_glsl {} PANIC -", n).unwrap(),
            }
        }
        if let Some(op) = rspirv::spirv::CLOp::from_u32(n) {
            match catch(move || Cl::get(op)) {
                Ok(r) => writeln!(w, "get_opencl {} {} {}", n, r.opname, r.opcode).unwrap(),
                Err(_) => writeln!(w, "get_opencl {} PANIC -", n).unwrap(),
            }
        }
    }
    // extended tables: every number up to 4096 (declared numbers are all below 256)
    for n in 0..4096u32 {
        if let Some(e) = Gl::lookup_opcode(n) {
            writeln!(w, "lookup_glsl {} {} {}", n, e.opname, e.opcode).unwrap();
        }
        if let Some(e) = Cl::lookup_opcode(n) {
            writeln!(w, "lookup_opencl {} {} {}", n, e.opname, e.opcode).unwrap();
        }
    }
    let mut far: Vec<u32> = vec![4096u32, 65535, 65536, 0x7fff_ffff, 0x8000_0000, 0xffff_ffff];
    // every small number (all declared ones are below 256) with every single higher bit and with several high halves:
    // the argument is a full 32-bit word, no part of it may be dropped
    for low in 0..256u32 {
        for bit in 12..32 {
            far.push(low | (1u32 << bit));
        }
        for hi in [1u32, 2, 0x7fff, 0x8000, 0xffff] {
            far.push(low | (hi << 16));
        }
    }
    for n in far {
        writeln!(w, "lookup_far {} {} {}", n, Gl::lookup_opcode(n).is_some(), Cl::lookup_opcode(n).is_some()).unwrap();
    }
    // 3. the 13 reflect predicates on every opcode of the table
    for e in Core::iter() {
        let o = e.opcode;
        let bits = [
            reflect::is_location_debug(o), reflect::is_nonlocation_debug(o), reflect::is_debug(o),
            reflect::is_annotation(o), reflect::is_type(o), reflect::is_constant(o), reflect::is_variable(o),
            reflect::is_return(o), reflect::is_abort(o), reflect::is_return_or_abort(o), reflect::is_branch(o),
            reflect::is_block_terminator(o),
        ];
        let s: String = bits.iter().map(|b| if *b { '1' } else { '0' }).collect();
        writeln!(w, "reflect {} {}", o as u32, s).unwrap();
    }
    // 4. generator tool names for all 65536 tool ids (run-length), version word <-> (major, minor)
    let mut prev: Option<(u32, String)> = None;
    for tool in 0..=65535u32 {
        let mut h = rspirv::dr::ModuleHeader::new(0);
        h.generator = (tool << 16) | 0x1234;
        let (name, ver) = h.generator();
        assert_eq!(ver, 0x1234);
        let name = name.replace(' ', "_");
        match &prev {
            Some((_, p)) if *p == name => {}
            _ => {
                writeln!(w, "generator_from {} {}", tool, name).unwrap();
                prev = Some((tool, name));
            }
        }
    }
    let mut bad = 0u32;
    for major in 0..=255u32 {
        for minor in 0..=255u32 {
            let mut h = rspirv::dr::ModuleHeader::new(0);
            h.set_version(major as u8, minor as u8);
            if h.version != (major << 16 | minor << 8) || h.version() != (major as u8, minor as u8) {
                bad += 1;
                writeln!(w, "version_bad {} {} {}", major, minor, h.version).unwrap();
            }
        }
    }
    // version() of arbitrary words only looks at bytes 1 and 2
    for wd in [0u32, 0xffff_ffff, 0x0001_0600, 0xab01_06cd, 0x12345678] {
        let mut h = rspirv::dr::ModuleHeader::new(0);
        h.version = wd;
        writeln!(w, "version_of {} {} {}", wd, h.version().0, h.version().1).unwrap();
    }
    writeln!(w, "version_checked 65536 {}", bad).unwrap();
    let h = rspirv::dr::ModuleHeader::new(77);
    writeln!(w, "header_new {} {} {} {} {}", h.magic_number, h.version, h.generator, h.bound, h.reserved_word).unwrap();
    // 5. probes requested on stdin: enum <E> <n> | str <E> <s> | alias <E> <A> | mask <M> <bits> | maskall <M> | maskconst <M> <C>
    let stdin = std::io::stdin();
    for line in stdin.lock().lines() {
        let line = line.unwrap();
        let p: Vec<&str> = line.split(' ').collect();
        match p[0] {
            "enum" => {
                let n: u32 = p[2].parse().unwrap();
                match g::probe_enum(p[1], n) {
                    Some(Some((v, d))) => writeln!(w, "enum {} {} some {} {}", p[1], n, v, d).unwrap(),
                    Some(None) => writeln!(w, "enum {} {} none - -", p[1], n).unwrap(),
                    None => writeln!(w, "enum {} {} unknown-enum - -", p[1], n).unwrap(),
                }
            }
            "str" => match g::probe_fromstr(p[1], p[2]) {
                Some(Some(v)) => writeln!(w, "str {} {} some {}", p[1], p[2], v).unwrap(),
                Some(None) => writeln!(w, "str {} {} none -", p[1], p[2]).unwrap(),
                None => writeln!(w, "str {} {} unknown-enum -", p[1], p[2]).unwrap(),
            },
            "alias" => match g::probe_alias(p[1], p[2]) {
                Some(v) => writeln!(w, "alias {} {} {}", p[1], p[2], v).unwrap(),
                None => writeln!(w, "alias {} {} unknown", p[1], p[2]).unwrap(),
            },
            "mask" => {
                let n: u32 = p[2].parse().unwrap();
                match g::probe_mask(p[1], n) {
                    Some(Some(v)) => writeln!(w, "mask {} {} some {}", p[1], n, v).unwrap(),
                    Some(None) => writeln!(w, "mask {} {} none -", p[1], n).unwrap(),
                    None => writeln!(w, "mask {} {} unknown-mask -", p[1], n).unwrap(),
                }
            }
            "maskall" => writeln!(w, "maskall {} {}", p[1], g::mask_all(p[1]).map_or("unknown".to_string(), |v| v.to_string())).unwrap(),
            "maskconst" => writeln!(w, "maskconst {} {} {}", p[1], p[2], g::mask_const(p[1], p[2]).map_or("unknown".to_string(), |v| v.to_string())).unwrap(),
            "" => {}
            other => panic!("unknown probe {}", other),
        }
    }
}
