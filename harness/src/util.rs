//! Small helpers shared by the harness binaries (no external crates).

/// SplitMix64: every random choice of a run derives from one seed.
pub struct Rng(pub u64);
impl Rng {
    pub fn next(&mut self) -> u64 {
        self.0 = self.0.wrapping_add(0x9E3779B97F4A7C15);
        let mut z = self.0;
        z = (z ^ (z >> 30)).wrapping_mul(0xBF58476D1CE4E5B9);
        z = (z ^ (z >> 27)).wrapping_mul(0x94D049BB133111EB);
        z ^ (z >> 31)
    }
    pub fn below(&mut self, n: u64) -> u64 {
        if n == 0 { 0 } else { self.next() % n }
    }
    pub fn chance(&mut self, num: u64, den: u64) -> bool {
        self.below(den) < num
    }
    pub fn pick<'a, T>(&mut self, xs: &'a [T]) -> &'a T {
        &xs[self.below(xs.len() as u64) as usize]
    }
}

pub fn hex(bytes: &[u8]) -> String {
    if bytes.is_empty() {
        return "-".to_string();
    }
    let mut s = String::with_capacity(bytes.len() * 2);
    for b in bytes {
        s.push_str(&format!("{:02x}", b));
    }
    s
}

pub fn unhex(s: &str) -> Vec<u8> {
    try_unhex(s).expect("bad hex in request")
}

pub fn try_unhex(s: &str) -> Option<Vec<u8>> {
    if s == "-" {
        return Some(vec![]);
    }
    if s.len() % 2 != 0 || !s.is_ascii() {
        return None;
    }
    (0..s.len() / 2).map(|i| u8::from_str_radix(&s[2 * i..2 * i + 2], 16).ok()).collect()
}

pub fn words_to_bytes(ws: &[u32]) -> Vec<u8> {
    ws.iter().flat_map(|w| w.to_le_bytes().to_vec()).collect()
}

/// Run `f`, turning a panic into `Err(message)`; the default hook is silenced while it runs.
pub fn catch<T>(f: impl FnOnce() -> T + std::panic::UnwindSafe) -> Result<T, String> {
    let r = std::panic::catch_unwind(f);
    r.map_err(|e| {
        if let Some(s) = e.downcast_ref::<&str>() {
            s.to_string()
        } else if let Some(s) = e.downcast_ref::<String>() {
            s.clone()
        } else {
            "<non-string panic>".to_string()
        }
    })
}

pub fn silence_panics() {
    std::panic::set_hook(Box::new(|_| {}));
}

pub fn seed_from_env() -> u64 {
    std::env::var("VERIF_SEED").ok().and_then(|s| s.parse().ok()).unwrap_or(1)
}
