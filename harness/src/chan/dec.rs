//! `dec <hexbytes> <op>*` : drives `binary::Decoder` through its public API.
//! ops: w | ws:<n> | s | b32 | b64 | id | x | e:<method> | lim:<n> | clr | off | has | reached
use crate::glue_decode::decode_by_name;
use rspirv::binary::{DecodeError, Decoder};

pub fn err(e: &DecodeError) -> String {
    // Debug text is `Variant(offset)` / `Variant(offset, word)` / `DecodeStringFailed(offset, "msg")`
    let s = format!("{:?}", e);
    let (name, rest) = s.split_at(s.find('(').unwrap());
    let inner = &rest[1..rest.len() - 1];
    let mut parts = inner.splitn(2, ", ");
    let off = parts.next().unwrap();
    match parts.next() {
        Some(w) if name != "DecodeStringFailed" => format!("err:{}:{}:{}", name, off, w),
        _ => format!("err:{}:{}", name, off),
    }
}

pub fn dec(rest: &str) -> String {
    let mut it = rest.split(' ').filter(|x| !x.is_empty());
    let bytes = match crate::util::try_unhex(it.next().unwrap_or("-")) {
        Some(b) => b,
        None => return "bad-request".to_string(),
    };
    let mut d = Decoder::new(&bytes);
    let mut out: Vec<String> = vec![];
    for op in it {
        let r = match op {
            "w" => d.word().map(|w| format!("ok:{}", w)).unwrap_or_else(|e| err(&e)),
            "id" => d.id().map(|w| format!("ok:{}", w)).unwrap_or_else(|e| err(&e)),
            "b32" => d.bit32().map(|w| format!("ok:{}", w)).unwrap_or_else(|e| err(&e)),
            "x" => d.ext_inst_integer().map(|w| format!("ok:{}", w)).unwrap_or_else(|e| err(&e)),
            "b64" => d.bit64().map(|w| format!("ok:{}", w)).unwrap_or_else(|e| err(&e)),
            "s" => d
                .string()
                .map(|s| format!("ok:s{}", crate::util::hex(s.as_bytes())))
                .unwrap_or_else(|e| err(&e)),
            "clr" => {
                d.clear_limit();
                "clr".to_string()
            }
            "off" => format!("off:{}", d.offset()),
            "has" => format!("has:{}", d.has_limit()),
            "reached" => format!("reached:{}", d.limit_reached()),
            _ if op.starts_with("ws:") => {
                let n: usize = op[3..].parse().unwrap();
                d.words(n)
                    .map(|ws| format!("ok:[{}]", ws.iter().map(|w| w.to_string()).collect::<Vec<_>>().join(",")))
                    .unwrap_or_else(|e| err(&e))
            }
            _ if op.starts_with("lim:") => {
                let n: usize = op[4..].parse().unwrap();
                d.set_limit(n);
                "lim".to_string()
            }
            _ if op.starts_with("e:") => match decode_by_name(&mut d, &op[2..]) {
                Some(Ok(v)) => format!("ok:{}", v),
                Some(Err(e)) => err(&e),
                None => return "bad-request".to_string(),
            },
            _ => return "bad-request".to_string(),
        };
        out.push(r);
    }
    out.push(format!("off:{}", d.offset()));
    format!("ok {}", out.join(" "))
}
