//! `parse <hexbytes> (<k>:s | <k>:e)*` — Parser::parse with a scripted, recording consumer
//! `asm <inst>` — Assemble for dr::Instruction;  inst = `<opcode>;<rtype|->;<rid|->;<op>,<op>,...`
use crate::chan::dec::err as derr;
use crate::glue_operand::{read_operand, show_operand};
use rspirv::binary::{Assemble, Consumer, ParseAction, ParseState, Parser};
use rspirv::dr;

pub fn show_inst(i: &dr::Instruction) -> String {
    let ops: Vec<String> = i.operands.iter().map(show_operand).collect();
    format!(
        "{};{};{};{}",
        i.class.opcode as u32,
        i.result_type.map_or("-".to_string(), |w| w.to_string()),
        i.result_id.map_or("-".to_string(), |w| w.to_string()),
        if ops.is_empty() { "-".to_string() } else { ops.join(",") }
    )
}

pub fn read_inst(s: &str) -> Option<dr::Instruction> {
    let p: Vec<&str> = s.split(';').collect();
    if p.len() != 4 {
        return None;
    }
    let op = spirv::Op::from_u32(p[0].parse().ok()?)?;
    let rt = if p[1] == "-" { None } else { Some(p[1].parse().ok()?) };
    let rid = if p[2] == "-" { None } else { Some(p[2].parse().ok()?) };
    let ops = if p[3] == "-" {
        vec![]
    } else {
        p[3].split(',').map(read_operand).collect::<Option<Vec<_>>>()?
    };
    Some(dr::Instruction::new(op, rt, rid, ops))
}

#[derive(Debug)]
struct ScriptErr(usize);
impl std::fmt::Display for ScriptErr {
    fn fmt(&self, f: &mut std::fmt::Formatter) -> std::fmt::Result {
        write!(f, "script{}", self.0)
    }
}
impl std::error::Error for ScriptErr {}

pub struct Scripted {
    pub script: Vec<(usize, char)>,
    pub calls: usize,
    pub trace: String,
    pub header: Option<dr::ModuleHeader>,
    pub insts: Vec<dr::Instruction>,
}
impl Scripted {
    fn answer(&mut self, ev: char) -> ParseAction {
        self.trace.push(ev);
        let k = self.calls;
        self.calls += 1;
        match self.script.iter().find(|(i, _)| *i == k) {
            Some((_, 's')) => ParseAction::Stop,
            Some((_, 'e')) => ParseAction::Error(Box::new(ScriptErr(k))),
            // the consumer's own error value happens to be a `ParseState` (e.g. forwarded from a nested parse)
            Some((_, 'p')) => ParseAction::Error(Box::new(ParseState::HeaderIncorrect)),
            Some((_, 'q')) => ParseAction::Error(Box::new(ParseState::ConsumerStopRequested)),
            Some((_, 'c')) => ParseAction::Error(Box::new(ParseState::Complete)),
            _ => ParseAction::Continue,
        }
    }
}
impl Consumer for Scripted {
    fn initialize(&mut self) -> ParseAction {
        self.answer('I')
    }
    fn finalize(&mut self) -> ParseAction {
        self.answer('F')
    }
    fn consume_header(&mut self, h: dr::ModuleHeader) -> ParseAction {
        self.header = Some(h);
        self.answer('H')
    }
    fn consume_instruction(&mut self, i: dr::Instruction) -> ParseAction {
        self.insts.push(i);
        self.answer('i')
    }
}

pub fn show_state(r: &Result<(), ParseState>) -> String {
    match r {
        Ok(()) => "ok".to_string(),
        Err(s) => match s {
            ParseState::Complete => "Complete".to_string(),
            ParseState::ConsumerStopRequested => "ConsumerStopRequested".to_string(),
            ParseState::ConsumerError(e) => match e.downcast_ref::<ParseState>() {
                Some(inner) => format!("ConsumerError:state:{}", format!("{}", inner).replace(' ', "_")),
                None => format!("ConsumerError:{}", e),
            },
            ParseState::HeaderIncomplete(e) => format!("HeaderIncomplete:{}", derr(e)),
            ParseState::HeaderIncorrect => "HeaderIncorrect".to_string(),
            ParseState::EndiannessUnsupported => "EndiannessUnsupported".to_string(),
            ParseState::WordCountZero(o, i) => format!("WordCountZero:{}:{}", o, i),
            ParseState::OpcodeUnknown(o, i, op) => format!("OpcodeUnknown:{}:{}:{}", o, i, op),
            ParseState::OperandExpected(o, i) => format!("OperandExpected:{}:{}", o, i),
            ParseState::OperandExceeded(o, i) => format!("OperandExceeded:{}:{}", o, i),
            ParseState::OperandError(e) => format!("OperandError:{}", derr(e)),
            ParseState::TypeUnsupported(o, i) => format!("TypeUnsupported:{}:{}", o, i),
            ParseState::SpecConstantOpIntegerIncorrect(o, i) => format!("SpecConstantOpIntegerIncorrect:{}:{}", o, i),
        },
    }
}

pub fn parse(rest: &str) -> String {
    parse_via(rest, 0)
}

/// the free function `binary::parse_bytes`
pub fn parseb(rest: &str) -> String {
    parse_via(rest, 1)
}

/// the free function `binary::parse_words` (byte length must be a multiple of four)
pub fn parsew(rest: &str) -> String {
    parse_via(rest, 2)
}

fn parse_via(rest: &str, entry: u8) -> String {
    let mut it = rest.split(' ').filter(|x| !x.is_empty());
    let bytes = match crate::util::try_unhex(it.next().unwrap_or("-")) {
        Some(b) => b,
        None => return "bad-request".to_string(),
    };
    let mut script = vec![];
    for t in it {
        let p: Vec<&str> = t.split(':').collect();
        if p.len() != 2 || p[1].len() != 1 {
            return "bad-request".to_string();
        }
        script.push((p[0].parse().unwrap(), p[1].chars().next().unwrap()));
    }
    let mut c = Scripted { script, calls: 0, trace: String::new(), header: None, insts: vec![] };
    let r = match entry {
        0 => Parser::new(&bytes, &mut c).parse(),
        1 => rspirv::binary::parse_bytes(&bytes, &mut c),
        _ => {
            if bytes.len() % 4 != 0 {
                return "bad-request".to_string();
            }
            let words: Vec<u32> = bytes.chunks(4).map(|b| u32::from_le_bytes([b[0], b[1], b[2], b[3]])).collect();
            rspirv::binary::parse_words(&words, &mut c)
        }
    };
    let hdr = c.header.as_ref().map_or("-".to_string(), |h| {
        format!("{},{},{},{},{}", h.magic_number, h.version, h.generator, h.bound, h.reserved_word)
    });
    let insts: Vec<String> = c.insts.iter().map(show_inst).collect();
    format!("{} | trace:{} | hdr:{} | {}", show_state(&r), c.trace, hdr, insts.join(" "))
}

pub fn asm(rest: &str) -> String {
    match read_inst(rest.trim()) {
        Some(i) => {
            // both entry points of `Assemble`: `assemble()` and `assemble_into(&mut Vec)` (appending after existing content)
            let a = i.assemble();
            for prefix in [1usize, 65535, 65536, 131071] {
                let mut b = vec![0xdead_beef_u32; prefix];
                i.assemble_into(&mut b);
                if b[..prefix].iter().any(|w| *w != 0xdead_beef) || b[prefix..] != a[..] {
                    return format!("entry-points-differ prefix={} assemble={:?} assemble_into={:?}", prefix, a, &b[prefix.min(b.len())..]);
                }
            }
            let ws: Vec<String> = a.iter().map(|w| w.to_string()).collect();
            format!("ok {}", ws.join(","))
        }
        None => "bad-request".to_string(),
    }
}
