//! `store (a:<payload>:<class> | f:<payload>:<class>)*` on `Storage<V>` where `V`'s equality is deliberately
//! irreflexive (class 0) and asymmetric (class >= 100 also equals class + 1 on the right), and relates different enum variants.
use rspirv::sr::storage::{Storage, Token};

/// an enum on purpose: equality relates values of *different* variants (the variant is the payload's parity), so a
/// `fetch_or_append` that pre-filters on the variant tag is observable
#[derive(Debug, Clone, Copy)]
enum V {
    Odd { payload: u32, class: u32 },
    Even { payload: u32, class: u32 },
}
impl V {
    fn new(payload: u32, class: u32) -> V {
        if payload % 2 == 1 {
            V::Odd { payload, class }
        } else {
            V::Even { payload, class }
        }
    }
    fn payload(&self) -> u32 {
        match *self {
            V::Odd { payload, .. } | V::Even { payload, .. } => payload,
        }
    }
    fn class(&self) -> u32 {
        match *self {
            V::Odd { class, .. } | V::Even { class, .. } => class,
        }
    }
}
impl PartialEq for V {
    fn eq(&self, o: &V) -> bool {
        // irreflexive for class 0 and for classes 1000..2000; asymmetric: a class >= 100 also equals class + 1 on the right — so a value that
        // is not equal to itself (1001) can still be equal to a stored one (1000 == 1001)
        let selfeq = !(1000..2000).contains(&self.class());
        self.class() != 0 && ((self.class() == o.class() && selfeq) || (self.class() >= 100 && self.class() + 1 == o.class()))
    }
}

fn run<T: Copy + PartialEq>(rest: &str, parse: impl Fn(&str) -> T, show: impl Fn(&T) -> String) -> String {
    let mut s: Storage<T> = Storage::new();
    let mut toks: Vec<Token<T>> = vec![];
    let mut out = vec![];
    for op in rest.split(' ').filter(|x| !x.is_empty()) {
        let (k, v) = op.split_at(2);
        let v = parse(v);
        let t = match k {
            "a:" => s.append(v),
            "f:" => s.fetch_or_append(v),
            _ => return "bad-request".to_string(),
        };
        out.push(format!("{}={}", t.index(), show(&s[t])));
        toks.push(t);
    }
    let fin: Vec<String> = toks.iter().map(|t| show(&s[*t])).collect();
    format!("ok {} | {}", out.join(" "), fin.join(" "))
}

pub fn store(rest: &str) -> String {
    run(
        rest,
        |v| {
            let p: Vec<&str> = v.split(':').collect();
            V::new(p[0].parse().unwrap(), p[1].parse().unwrap())
        },
        |v: &V| format!("{}", v.payload()),
    )
}

/// `Storage<f32>` with values given as bit patterns (NaN is unequal to itself, +0 == -0).
pub fn storef(rest: &str) -> String {
    run(rest, |v| f32::from_bits(v.parse::<u32>().unwrap()), |v: &f32| format!("{}", v.to_bits()))
}

/// zero-sized value types (a storage of them holds no bytes; `Vec` capacity is `usize::MAX`): one with the ordinary reflexive equality,
/// one unequal to itself
#[derive(Debug, Clone, Copy)]
struct Zr;
impl PartialEq for Zr {
    fn eq(&self, _: &Zr) -> bool {
        true
    }
}
#[derive(Debug, Clone, Copy)]
struct Zi;
impl PartialEq for Zi {
    fn eq(&self, _: &Zi) -> bool {
        false
    }
}

/// `storez <r|i> (a: | f:)*` on `Storage<Zr>` / `Storage<Zi>`
pub fn storez(rest: &str) -> String {
    let rest = rest.trim_start();
    if let Some(r) = rest.strip_prefix("r") {
        run(r, |_| Zr, |_: &Zr| "z".to_string())
    } else if let Some(r) = rest.strip_prefix("i") {
        run(r, |_| Zi, |_: &Zi| "z".to_string())
    } else {
        "bad-request".to_string()
    }
}
