//! `store (a:<payload>:<class> | f:<payload>:<class>)*` on `Storage<V>` where `V`'s equality is deliberately
//! irreflexive (class 0) and asymmetric (class >= 100 also equals class + 1 on the right).
use rspirv::sr::storage::{Storage, Token};

#[derive(Debug, Clone, Copy)]
struct V {
    payload: u32,
    class: u32,
}
impl PartialEq for V {
    fn eq(&self, o: &V) -> bool {
        self.class != 0 && (self.class == o.class || (self.class >= 100 && self.class + 1 == o.class))
    }
}

fn run<T: Copy + PartialEq>(rest: &str, parse: impl Fn(&str) -> T, show: impl Fn(&T) -> String) -> String {
    let mut s: Storage<T> = Storage::new();
    let mut toks: Vec<Token<T>> = vec![];
    let mut out = vec![];
    for op in rest.split(' ').filter(|x| !x.is_empty()) {
        let (k, v) = op.split_at(2);
        let v = parse(v);
        let t = match k {
            "a:" => s.append(v),
            "f:" => s.fetch_or_append(v),
            _ => return "bad-request".to_string(),
        };
        out.push(format!("{}={}", t.index(), show(&s[t])));
        toks.push(t);
    }
    let fin: Vec<String> = toks.iter().map(|t| show(&s[*t])).collect();
    format!("ok {} | {}", out.join(" "), fin.join(" "))
}

pub fn store(rest: &str) -> String {
    run(
        rest,
        |v| {
            let p: Vec<&str> = v.split(':').collect();
            V { payload: p[0].parse().unwrap(), class: p[1].parse().unwrap() }
        },
        |v: &V| format!("{}", v.payload),
    )
}

/// `Storage<f32>` with values given as bit patterns (NaN is unequal to itself, +0 == -0).
pub fn storef(rest: &str) -> String {
    run(rest, |v| f32::from_bits(v.parse::<u32>().unwrap()), |v: &f32| format!("{}", v.to_bits()))
}
