//! Channels of the line protocol (DESIGN Appendix B).
pub mod build;
pub mod dec;
pub mod disas;
pub mod lift;
pub mod load;
pub mod parse;
pub mod reflect;
pub mod store;
pub mod trav;

pub fn respond(line: &str) -> String {
    let (head, rest) = match line.find(' ') {
        Some(i) => (&line[..i], &line[i + 1..]),
        None => (line, ""),
    };
    match head {
        "store" => store::store(rest),
        "storef" => store::storef(rest),
        "storez" => store::storez(rest),
        "trav" => trav::trav(rest),
        "dec" => dec::dec(rest),
        "parse" => parse::parse(rest),
        "parseb" => parse::parseb(rest),
        "parsew" => parse::parsew(rest),
        "asm" => parse::asm(rest),
        "load" => load::load(rest),
        "build" => build::build(rest),
        "buildrt" => build::buildrt(rest),
        "reflect" => reflect::reflect(rest),
        "disasop" => disas::disasop(rest),
        "disasinst" => disas::disasinst(rest),
        "disasbin" => disas::disasbin(rest),
        "disasraw" => disas::disasraw(rest),
        "dismain" => disas::dismain(rest),
        "loadasm" => disas::loadasm(rest),
        "loadasmw" => disas::loadasmw(rest),
        "lift" => lift::lift(rest),
        "liftv" => lift::liftv(rest),
        "idmut" => reflect::idmut(rest),
        "conv" => crate::glue_operand::conv(rest),
        "unwrapx" => crate::glue_operand::unwrapx(rest),
        "loadbin" => load::loadbin(rest),
        "loadtwice" => load::loadtwice(rest),
        _ => "bad-request".to_string(),
    }
}
