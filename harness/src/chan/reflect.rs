//! `reflect <operand>` — additional_operands / required_capabilities / required_extensions / id_ref_any of a dr::Operand
//! `idmut <inst> <k> <new>` — rewrite operand k through id_ref_any_mut and report which assembled words changed
use crate::chan::parse::read_inst;
use crate::glue_operand::read_operand;
use rspirv::binary::Assemble;

pub fn reflect(rest: &str) -> String {
    let o = match read_operand(rest.trim()) {
        Some(o) => o,
        None => return "bad-request".to_string(),
    };
    let add: Vec<String> = o.additional_operands().iter().map(|l| format!("{:?}:{:?}", l.kind, l.quantifier)).collect();
    let caps: Vec<String> = o.required_capabilities().iter().map(|c| format!("{:?}", c)).collect();
    let exts: Vec<String> = o.required_extensions().iter().map(|s| s.to_string()).collect();
    let j = |v: Vec<String>| if v.is_empty() { "-".to_string() } else { v.join(",") };
    format!(
        "ok add:{} caps:{} exts:{} id:{}",
        j(add), j(caps), j(exts),
        o.id_ref_any().map_or("-".to_string(), |w| w.to_string())
    )
}

pub fn idmut(rest: &str) -> String {
    let p: Vec<&str> = rest.split(' ').filter(|x| !x.is_empty()).collect();
    if p.len() != 3 {
        return "bad-request".to_string();
    }
    let mut i = match read_inst(p[0]) {
        Some(i) => i,
        None => return "bad-request".to_string(),
    };
    let k: usize = p[1].parse().unwrap_or(usize::MAX);
    let new: u32 = match p[2].parse() {
        Ok(v) => v,
        Err(_) => return "bad-request".to_string(),
    };
    let before = i.assemble();
    if k >= i.operands.len() {
        return "bad-request".to_string();
    }
    match i.operands[k].id_ref_any_mut() {
        Some(w) => *w = new,
        None => return "ok not-an-id".to_string(),
    }
    let after = i.assemble();
    if before.len() != after.len() {
        return format!("ok length-changed {} {}", before.len(), after.len());
    }
    let changed: Vec<String> = (0..before.len()).filter(|&j| before[j] != after[j]).map(|j| format!("{}:{}", j, after[j])).collect();
    format!("ok changed {}", if changed.is_empty() { "-".to_string() } else { changed.join(",") })
}
