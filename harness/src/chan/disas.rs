//! `disasop <operand>` / `disasinst <inst>` / `disasbin <hexbytes>` / `disasbuild <call>*` — text is returned as hex
//! of its UTF-8 bytes so that spaces, quotes and newlines survive the line protocol.
use crate::chan::parse::read_inst;
use crate::glue_operand::read_operand;
use crate::util::hex;
use rspirv::binary::Disassemble;

pub fn disasop(rest: &str) -> String {
    match read_operand(rest.trim()) {
        Some(o) => format!("ok {}", hex(o.disassemble().as_bytes())),
        None => "bad-request".to_string(),
    }
}

pub fn disasinst(rest: &str) -> String {
    match read_inst(rest.trim()) {
        Some(i) => format!("ok {}", hex(i.disassemble().as_bytes())),
        None => "bad-request".to_string(),
    }
}

pub fn disasbin(rest: &str) -> String {
    let bytes = match crate::util::try_unhex(rest.trim()) {
        Some(b) => b,
        None => return "bad-request".to_string(),
    };
    match rspirv::dr::load_bytes(&bytes) {
        Ok(m) => format!("ok {}", hex(m.disassemble().as_bytes())),
        Err(e) => format!("err {}", hex(format!("{}", e).as_bytes())),
    }
}

/// in-process replica of `dis/main.rs` after the file has been read (the real binary is run by the C20 check)
pub fn dismain(rest: &str) -> String {
    let bytes = match crate::util::try_unhex(rest.trim()) {
        Some(b) => b,
        None => return "bad-request".to_string(),
    };
    let out = match rspirv::dr::load_bytes(&bytes) {
        Ok(module) => format!("{}\n", module.disassemble()),
        Err(err) => format!("{}\n", err),
    };
    format!("exit0 {}", hex(out.as_bytes()))
}

/// `loadasm <hexbytes>`: load, then assemble the loaded module
pub fn loadasm(rest: &str) -> String {
    use rspirv::binary::Assemble;
    let bytes = match crate::util::try_unhex(rest.trim()) {
        Some(b) => b,
        None => return "bad-request".to_string(),
    };
    match rspirv::dr::load_bytes(&bytes) {
        Ok(m) => {
            let a = m.assemble();
            let mut b = vec![7u32];
            m.assemble_into(&mut b);
            if b[0] != 7 || b[1..] != a[..] {
                return "entry-points-differ".to_string();
            }
            let ws: Vec<String> = a.iter().map(|w| w.to_string()).collect();
            format!("ok {}", ws.join(","))
        }
        Err(e) => format!("err {}", hex(format!("{}", e).as_bytes())),
    }
}

/// `disasraw <version> <generator> <bound> <imports> <globals> <block>`: a hand-made module — any header words, and
/// instructions put directly into `ext_inst_imports`, `types_global_values` and one block of one function (lists are `-` or
/// instruction texts joined by `/`). Reaches what no loaded or Builder-made module has: foreign generator ids, OpConstant
/// with a non-literal operand, OpExtInst with fewer than two operands.
pub fn disasraw(rest: &str) -> String {
    use rspirv::dr;
    let p: Vec<&str> = rest.split_whitespace().collect();
    if p.len() != 6 {
        return "bad-request".to_string();
    }
    let nums: Option<Vec<u32>> = p[..3].iter().map(|x| x.parse().ok()).collect();
    let nums = match nums {
        Some(n) => n,
        None => return "bad-request".to_string(),
    };
    let list = |s: &str| -> Option<Vec<dr::Instruction>> {
        if s == "-" {
            Some(vec![])
        } else {
            s.split('/').map(read_inst).collect()
        }
    };
    let (imports, globals, block) = match (list(p[3]), list(p[4]), list(p[5])) {
        (Some(a), Some(b), Some(c)) => (a, b, c),
        _ => return "bad-request".to_string(),
    };
    let mut m = dr::Module::new();
    let mut h = dr::ModuleHeader::new(nums[2]);
    h.version = nums[0];
    h.generator = nums[1];
    m.header = Some(h);
    m.ext_inst_imports = imports;
    m.types_global_values = globals;
    if !block.is_empty() {
        let mut f = dr::Function::new();
        let mut b = dr::Block::new();
        b.instructions = block;
        f.blocks.push(b);
        m.functions.push(f);
    }
    format!("ok {}", hex(m.disassemble().as_bytes()))
}

/// `loadasmw <hexbytes>`: the same through `dr::load_words` (whole words only)
pub fn loadasmw(rest: &str) -> String {
    use rspirv::binary::Assemble;
    let bytes = match crate::util::try_unhex(rest.trim()) {
        Some(b) if b.len() % 4 == 0 => b,
        _ => return "bad-request".to_string(),
    };
    let words: Vec<u32> = bytes.chunks(4).map(|b| u32::from_le_bytes([b[0], b[1], b[2], b[3]])).collect();
    match rspirv::dr::load_words(&words) {
        Ok(m) => {
            let mut out = vec![];
            m.assemble_into(&mut out);
            let ws: Vec<String> = out.iter().map(|w| w.to_string()).collect();
            format!("ok {}", ws.join(","))
        }
        Err(e) => format!("err {}", hex(format!("{}", e).as_bytes())),
    }
}
