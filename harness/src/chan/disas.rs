//! `disasop <operand>` / `disasinst <inst>` / `disasbin <hexbytes>` / `disasbuild <call>*` — text is returned as hex
//! of its UTF-8 bytes so that spaces, quotes and newlines survive the line protocol.
use crate::chan::parse::read_inst;
use crate::glue_operand::read_operand;
use crate::util::hex;
use rspirv::binary::Disassemble;

pub fn disasop(rest: &str) -> String {
    match read_operand(rest.trim()) {
        Some(o) => format!("ok {}", hex(o.disassemble().as_bytes())),
        None => "bad-request".to_string(),
    }
}

pub fn disasinst(rest: &str) -> String {
    match read_inst(rest.trim()) {
        Some(i) => format!("ok {}", hex(i.disassemble().as_bytes())),
        None => "bad-request".to_string(),
    }
}

pub fn disasbin(rest: &str) -> String {
    let bytes = match crate::util::try_unhex(rest.trim()) {
        Some(b) => b,
        None => return "bad-request".to_string(),
    };
    match rspirv::dr::load_bytes(&bytes) {
        Ok(m) => format!("ok {}", hex(m.disassemble().as_bytes())),
        Err(e) => format!("err {}", hex(format!("{}", e).as_bytes())),
    }
}

/// in-process replica of `dis/main.rs` after the file has been read (the real binary is run by the C20 check)
pub fn dismain(rest: &str) -> String {
    let bytes = match crate::util::try_unhex(rest.trim()) {
        Some(b) => b,
        None => return "bad-request".to_string(),
    };
    let out = match rspirv::dr::load_bytes(&bytes) {
        Ok(module) => format!("{}\n", module.disassemble()),
        Err(err) => format!("{}\n", err),
    };
    format!("exit0 {}", hex(out.as_bytes()))
}

/// `loadasm <hexbytes>`: load, then assemble the loaded module
pub fn loadasm(rest: &str) -> String {
    use rspirv::binary::Assemble;
    let bytes = match crate::util::try_unhex(rest.trim()) {
        Some(b) => b,
        None => return "bad-request".to_string(),
    };
    match rspirv::dr::load_bytes(&bytes) {
        Ok(m) => {
            let ws: Vec<String> = m.assemble().iter().map(|w| w.to_string()).collect();
            format!("ok {}", ws.join(","))
        }
        Err(e) => format!("err {}", hex(format!("{}", e).as_bytes())),
    }
}
