//! `trav h:<0|1> s0:<ks> .. s10:<ks> mm:<k|-> (F d:<k|-> e:<k|-> p:<ks> (B l:<k|-> i:<ks>)*)*`
//! builds a `dr::Module` value from distinguishable instructions and dumps the six traversals and the assembly.
use rspirv::binary::Assemble;
use rspirv::dr::{Block, Function, Instruction, Module, ModuleHeader};

fn inst(k: u32) -> Instruction {
    Instruction::new(spirv::Op::Undef, Some(k), Some(k), vec![])
}
fn ks(s: &str) -> Vec<Instruction> {
    if s == "-" || s.is_empty() {
        vec![]
    } else {
        s.split(',').map(|x| inst(x.parse().unwrap())).collect()
    }
}
fn opt(s: &str) -> Option<Instruction> {
    if s == "-" { None } else { Some(inst(s.parse().unwrap())) }
}
fn show<'a>(it: impl Iterator<Item = &'a Instruction>) -> String {
    let v: Vec<String> = it.map(|i| i.result_id.unwrap().to_string()).collect();
    if v.is_empty() { "-".to_string() } else { v.join(",") }
}
fn show_mut<'a>(it: impl Iterator<Item = &'a mut Instruction>) -> String {
    let v: Vec<String> = it.map(|i| i.result_id.unwrap().to_string()).collect();
    if v.is_empty() { "-".to_string() } else { v.join(",") }
}

pub fn parse_module(rest: &str) -> Option<Module> {
    let mut m = Module::new();
    for tok in rest.split(' ').filter(|x| !x.is_empty()) {
        if tok == "F" {
            m.functions.push(Function::new());
            continue;
        }
        if tok == "B" {
            m.functions.last_mut()?.blocks.push(Block::new());
            continue;
        }
        let (k, v) = tok.split_at(tok.find(':')? + 1);
        match k {
            "h:" => {
                if v == "1" {
                    m.header = Some(ModuleHeader::new(77))
                }
            }
            "s0:" => m.capabilities = ks(v),
            "s1:" => m.extensions = ks(v),
            "s2:" => m.ext_inst_imports = ks(v),
            "mm:" => m.memory_model = opt(v),
            "s4:" => m.entry_points = ks(v),
            "s5:" => m.execution_modes = ks(v),
            "s6:" => m.debug_string_source = ks(v),
            "s7:" => m.debug_names = ks(v),
            "s8:" => m.debug_module_processed = ks(v),
            "s9:" => m.annotations = ks(v),
            "s10:" => m.types_global_values = ks(v),
            "d:" => m.functions.last_mut()?.def = opt(v),
            "e:" => m.functions.last_mut()?.end = opt(v),
            "p:" => m.functions.last_mut()?.parameters = ks(v),
            "l:" => m.functions.last_mut()?.blocks.last_mut()?.label = opt(v),
            "i:" => m.functions.last_mut()?.blocks.last_mut()?.instructions = ks(v),
            _ => return None,
        }
    }
    Some(m)
}

pub fn trav(rest: &str) -> String {
    let mut m = match parse_module(rest) {
        Some(m) => m,
        None => return "bad-request".to_string(),
    };
    let g = show(m.global_inst_iter());
    let a = show(m.all_inst_iter());
    let f: Vec<String> = m.functions.iter().map(|f| show(f.all_inst_iter())).collect();
    let gm = show_mut(m.global_inst_iter_mut());
    let am = show_mut(m.all_inst_iter_mut());
    let fm: Vec<String> = m.functions.iter_mut().map(|f| show_mut(f.all_inst_iter_mut())).collect();
    let alone = m.assemble();
    // the other entry point of `Assemble`: appending after existing content, at offsets that put the header / the first
    // instructions across a 65536-word boundary of the output
    for prefix in [1usize, 65530, 65535, 131071] {
        let mut out = vec![0xdead_beef_u32; prefix];
        m.assemble_into(&mut out);
        if out[..prefix].iter().any(|w| *w != 0xdead_beef) || out[prefix..] != alone[..] {
            let at = (0..alone.len()).find(|k| out.get(prefix + k) != alone.get(*k));
            return format!("entry-points-differ prefix={} first-difference-at={:?} assemble-len={} assemble_into-len={}",
                prefix, at, alone.len(), out.len() - prefix.min(out.len()));
        }
    }
    // the same module with a string operand on every instruction (operands of different lengths): C15 stated directly on the
    // implementation — header words ++ the stand-alone assembly of each instruction visited by all_inst_iter — for `assemble()` and for
    // `assemble_into` after prefixes that put the instructions around the 65536-word mark of the output
    {
        let mut m2 = m.clone();
        for i in m2.all_inst_iter_mut() {
            let k = i.result_id.unwrap_or(0);
            i.operands.push(rspirv::dr::Operand::LiteralString("s".repeat((k % 9) as usize)));
        }
        let mut want: Vec<u32> = match &m2.header {
            Some(h) => vec![h.magic_number, h.version, h.generator, h.bound, h.reserved_word],
            None => vec![],
        };
        for i in m2.all_inst_iter() {
            want.extend(i.assemble());
        }
        if m2.assemble() != want {
            return "string-variant: assemble() is not the header followed by the assembly of each visited instruction".to_string();
        }
        for prefix in [65529usize, 65535, 70000] {
            let mut out = vec![0xdead_beef_u32; prefix];
            m2.assemble_into(&mut out);
            if out[..prefix].iter().any(|w| *w != 0xdead_beef) || out[prefix..] != want[..] {
                return format!("string-variant: assemble_into after {} words is not the header followed by the assembly of each visited instruction", prefix);
            }
        }
    }
    let words: Vec<String> = alone.iter().map(|w| w.to_string()).collect();
    format!(
        "ok g:{} gm:{} a:{} am:{} f:{} fm:{} asm:{}",
        g, gm, a, am,
        if f.is_empty() { "-".to_string() } else { f.join(";") },
        if fm.is_empty() { "-".to_string() } else { fm.join(";") },
        if words.is_empty() { "-".to_string() } else { words.join(",") }
    )
}
