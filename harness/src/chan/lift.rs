//! `lift <hexbytes>`: load, then `lift::LiftContext::convert`; every part is printed with its `Debug` text, parts
//! separated by ` §§ ` (the Python side canonicalises the Debug text type-directed into the model's generic form).
use rspirv::lift::LiftContext;

pub fn lift(rest: &str) -> String {
    lift_with(rest, None)
}

/// `liftv <version word> <hexbytes>`: the loaded module's header version word is overwritten before lifting
pub fn liftv(rest: &str) -> String {
    let mut p = rest.split_whitespace();
    let v: u32 = match p.next().and_then(|x| x.parse().ok()) { Some(v) => v, None => return "bad-request".to_string() };
    lift_with(p.next().unwrap_or(""), Some(v))
}

fn lift_with(rest: &str, version: Option<u32>) -> String {
    let bytes = match crate::util::try_unhex(rest.trim()) {
        Some(b) => b,
        None => return "bad-request".to_string(),
    };
    let mut m = match rspirv::dr::load_bytes(&bytes) {
        Ok(m) => m,
        Err(_) => return "load-error".to_string(),
    };
    if let (Some(v), Some(h)) = (version, m.header.as_mut()) {
        h.version = v;
    }
    match LiftContext::convert(&m) {
        Err(e) => format!("err {:?}", e),
        Ok(sr) => {
            let mut parts = vec![
                format!("ok v={}", sr.version),
                format!("caps={:?}", sr.capabilities),
                format!("mm={:?}", sr.memory_model),
                format!("T={:?}", sr.types),
                format!("C={:?}", sr.constants),
                format!("O={:?}", sr.ops),
            ];
            for f in &sr.functions {
                parts.push(format!(
                    "F ctl={:?} res={:?} start={:?} blocks={:?}",
                    f.control, f.result, f.start_block, f.blocks
                ));
            }
            parts.join(" §§ ")
        }
    }
}
