//! `load <inst>*` — drives `dr::Loader` through its public `Consumer` impl (header, instructions, finalize).
//! `loadbin <hexbytes>` — `dr::load_bytes`.
use crate::chan::parse::{read_inst, show_inst};
use rspirv::binary::{Consumer, ParseAction};
use rspirv::dr;

fn insts(v: &[dr::Instruction]) -> String {
    if v.is_empty() { "-".to_string() } else { v.iter().map(show_inst).collect::<Vec<_>>().join("|") }
}
fn opt(v: &Option<dr::Instruction>) -> String {
    v.as_ref().map_or("-".to_string(), show_inst)
}

pub fn show_module(m: &dr::Module) -> String {
    let mut out = vec![];
    out.push(match &m.header {
        Some(h) => format!("h:{},{},{},{},{}", h.magic_number, h.version, h.generator, h.bound, h.reserved_word),
        None => "h:-".to_string(),
    });
    out.push(format!("s0:{}", insts(&m.capabilities)));
    out.push(format!("s1:{}", insts(&m.extensions)));
    out.push(format!("s2:{}", insts(&m.ext_inst_imports)));
    out.push(format!("mm:{}", opt(&m.memory_model)));
    out.push(format!("s4:{}", insts(&m.entry_points)));
    out.push(format!("s5:{}", insts(&m.execution_modes)));
    out.push(format!("s6:{}", insts(&m.debug_string_source)));
    out.push(format!("s7:{}", insts(&m.debug_names)));
    out.push(format!("s8:{}", insts(&m.debug_module_processed)));
    out.push(format!("s9:{}", insts(&m.annotations)));
    out.push(format!("s10:{}", insts(&m.types_global_values)));
    for f in &m.functions {
        out.push(format!("F d:{} e:{} p:{}", opt(&f.def), opt(&f.end), insts(&f.parameters)));
        for b in &f.blocks {
            out.push(format!("B l:{} i:{}", opt(&b.label), insts(&b.instructions)));
        }
    }
    out.join(" ")
}

pub fn show_lerr(e: &dr::Error) -> String {
    match e {
        dr::Error::DetachedInstruction(Some(i)) => format!("DetachedInstruction:{}", i.class.opcode as u32),
        dr::Error::DetachedInstruction(None) => "DetachedInstruction:-".to_string(),
        other => format!("{:?}", other),
    }
}

fn action_err(a: ParseAction) -> Option<String> {
    match a {
        ParseAction::Continue => None,
        ParseAction::Stop => Some("Stop".to_string()),
        ParseAction::Error(e) => Some(match e.downcast_ref::<dr::Error>() {
            Some(le) => show_lerr(le),
            None => format!("other:{}", e),
        }),
    }
}

pub fn load(rest: &str) -> String {
    let mut l = dr::Loader::new();
    if let Some(e) = action_err(l.initialize()) {
        return format!("err {} at init", e);
    }
    if let Some(e) = action_err(l.consume_header(dr::ModuleHeader::new(77))) {
        return format!("err {} at header", e);
    }
    for (k, t) in rest.split(' ').filter(|x| !x.is_empty()).enumerate() {
        let i = match read_inst(t) {
            Some(i) => i,
            None => return "bad-request".to_string(),
        };
        if let Some(e) = action_err(l.consume_instruction(i)) {
            return format!("err {} at {}", e, k);
        }
    }
    if let Some(e) = action_err(l.finalize()) {
        return format!("err {} at fin", e);
    }
    format!("ok {}", show_module(&l.module()))
}

pub fn show_parse_err(s: &rspirv::binary::ParseState) -> String {
    match s {
        rspirv::binary::ParseState::ConsumerError(e) => match e.downcast_ref::<dr::Error>() {
            Some(le) => format!("ConsumerError:{}", show_lerr(le)),
            None => format!("ConsumerError:other:{}", e),
        },
        rspirv::binary::ParseState::ConsumerStopRequested => "ConsumerStopRequested".to_string(),
        rspirv::binary::ParseState::Complete => "Complete".to_string(),
        rspirv::binary::ParseState::HeaderIncomplete(e) => format!("HeaderIncomplete:{}", crate::chan::dec::err(e)),
        rspirv::binary::ParseState::HeaderIncorrect => "HeaderIncorrect".to_string(),
        rspirv::binary::ParseState::EndiannessUnsupported => "EndiannessUnsupported".to_string(),
        rspirv::binary::ParseState::WordCountZero(o, i) => format!("WordCountZero:{}:{}", o, i),
        rspirv::binary::ParseState::OpcodeUnknown(o, i, op) => format!("OpcodeUnknown:{}:{}:{}", o, i, op),
        rspirv::binary::ParseState::OperandExpected(o, i) => format!("OperandExpected:{}:{}", o, i),
        rspirv::binary::ParseState::OperandExceeded(o, i) => format!("OperandExceeded:{}:{}", o, i),
        rspirv::binary::ParseState::OperandError(e) => format!("OperandError:{}", crate::chan::dec::err(e)),
        rspirv::binary::ParseState::TypeUnsupported(o, i) => format!("TypeUnsupported:{}:{}", o, i),
        rspirv::binary::ParseState::SpecConstantOpIntegerIncorrect(o, i) => format!("SpecConstantOpIntegerIncorrect:{}:{}", o, i),
    }
}

pub fn loadbin(rest: &str) -> String {
    let bytes = match crate::util::try_unhex(rest.trim()) {
        Some(b) => b,
        None => return "bad-request".to_string(),
    };
    match dr::load_bytes(&bytes) {
        Ok(m) => format!("ok {}", show_module(&m)),
        Err(s) => format!("err {}", show_parse_err(&s)),
    }
}

/// `loadtwice <hexA> <hexB>`: ONE `dr::Loader` handed to the parser twice (a consumer that is reused after a parse that
/// ended anywhere); both results and the module the loader holds afterwards.
pub fn loadtwice(rest: &str) -> String {
    let mut p = rest.split_whitespace();
    let a = match p.next().and_then(|x| crate::util::try_unhex(if x == "-" { "" } else { x })) { Some(b) => b, None => return "bad-request".to_string() };
    let b = match p.next().and_then(|x| crate::util::try_unhex(if x == "-" { "" } else { x })) { Some(b) => b, None => return "bad-request".to_string() };
    let mut loader = dr::Loader::new();
    let r1 = rspirv::binary::Parser::new(&a, &mut loader).parse();
    let r2 = rspirv::binary::Parser::new(&b, &mut loader).parse();
    let show = |r: &Result<(), rspirv::binary::ParseState>| match r { Ok(()) => "ok".to_string(), Err(s) => show_parse_err(s) };
    format!("done {} {} | {}", show(&r1), show(&r2), show_module(&loader.module()))
}
