//! `build [from:<bound>] <call>*` with call = `name/arg/arg/...` — drives `dr::Builder`.
//! After every call that returns an error the module under construction is compared with its state before the call.
use crate::chan::load::{show_lerr, show_module};
use crate::chan::parse::read_inst;
use crate::glue_builder::call_generated;
use rspirv::dr::{self, Builder, InsertPoint};

pub fn read_ip(s: &str) -> Option<InsertPoint> {
    Some(match s {
        "E" => InsertPoint::End,
        "B" => InsertPoint::Begin,
        _ if s.starts_with("FE:") => InsertPoint::FromEnd(s[3..].parse().ok()?),
        _ if s.starts_with("FB:") => InsertPoint::FromBegin(s[3..].parse().ok()?),
        _ => return None,
    })
}

fn w(s: &str) -> Option<u32> {
    s.parse().ok()
}
fn ow(s: &str) -> Option<Option<u32>> {
    if s == "-" { Some(None) } else { Some(Some(s.parse().ok()?)) }
}
fn ou(s: &str) -> Option<Option<usize>> {
    if s == "-" { Some(None) } else { Some(Some(s.parse().ok()?)) }
}
fn words(s: &str) -> Option<Vec<u32>> {
    if s == "-" { Some(vec![]) } else { s.split(',').map(|x| x.parse().ok()).collect() }
}
fn string(s: &str) -> Option<String> {
    String::from_utf8(crate::util::try_unhex(s)?).ok()
}
fn res_id(r: Result<u32, dr::Error>) -> String {
    match r {
        Ok(v) => format!("ok:{}", v),
        Err(e) => format!("err:{}", show_lerr(&e)),
    }
}
fn res_unit(r: Result<(), dr::Error>) -> String {
    match r {
        Ok(()) => "ok".to_string(),
        Err(e) => format!("err:{}", show_lerr(&e)),
    }
}

/// hand-written Builder methods (dr/build/mod.rs)
fn call_hand(b: &mut Builder, name: &str, a: &[&str]) -> Option<String> {
    Some(match (name, a.len()) {
        ("id", 0) => format!("ok:{}", b.id()),
        // `module_mut()`: the caller installs a header of its own (its bound is documented as inaccurate; `module()` fixes it up)
        ("module_mut_bound", 1) => {
            b.module_mut().header = Some(dr::ModuleHeader::new(w(a[0])?));
            "ok".to_string()
        }
        ("set_version", 2) => {
            b.set_version(a[0].parse().ok()?, a[1].parse().ok()?);
            "ok".to_string()
        }
        ("begin_function", 4) => res_id(b.begin_function(w(a[0])?, ow(a[1])?, spirv::FunctionControl::from_bits_retain(w(a[2])?), w(a[3])?)),
        ("end_function", 0) => res_unit(b.end_function()),
        ("function_parameter", 1) => res_id(b.function_parameter(w(a[0])?)),
        ("begin_block", 1) => res_id(b.begin_block(ow(a[0])?)),
        ("begin_block_no_label", 1) => res_id(b.begin_block_no_label(ow(a[0])?)),
        ("select_function", 1) => res_unit(b.select_function(ou(a[0])?)),
        ("select_block", 1) => res_unit(b.select_block(ou(a[0])?)),
        ("select_function_by_name", 1) => {
            let name = String::from_utf8(crate::util::try_unhex(a[0])?).ok()?;
            res_unit(b.select_function_by_name(&name))
        }
        ("pop_instruction", 0) => match b.pop_instruction() {
            Ok(i) => format!("ok:{}", crate::chan::parse::show_inst(&i)),
            Err(e) => format!("err:{}", show_lerr(&e)),
        },
        ("insert_into_block", 2) => res_unit(b.insert_into_block(read_ip(a[0])?, read_inst(a[1])?)),
        ("insert_types_global_values", 2) => {
            b.insert_types_global_values(read_ip(a[0])?, read_inst(a[1])?);
            "ok".to_string()
        }
        ("capability", 1) => {
            b.capability(spirv::Capability::from_u32(w(a[0])?)?);
            "ok".to_string()
        }
        ("extension", 1) => {
            b.extension(string(a[0])?);
            "ok".to_string()
        }
        ("ext_inst_import", 1) => format!("ok:{}", b.ext_inst_import(string(a[0])?)),
        ("memory_model", 2) => {
            b.memory_model(spirv::AddressingModel::from_u32(w(a[0])?)?, spirv::MemoryModel::from_u32(w(a[1])?)?);
            "ok".to_string()
        }
        ("entry_point", 4) => {
            b.entry_point(spirv::ExecutionModel::from_u32(w(a[0])?)?, w(a[1])?, string(a[2])?, words(a[3])?);
            "ok".to_string()
        }
        ("execution_mode", 3) => {
            b.execution_mode(w(a[0])?, spirv::ExecutionMode::from_u32(w(a[1])?)?, words(a[2])?);
            "ok".to_string()
        }
        ("execution_mode_id", 3) => {
            b.execution_mode_id(w(a[0])?, spirv::ExecutionMode::from_u32(w(a[1])?)?, words(a[2])?);
            "ok".to_string()
        }
        ("ext_inst", 5) => {
            let ops = if a[4] == "-" { vec![] } else { a[4].split(',').map(crate::glue_operand::read_operand).collect::<Option<Vec<_>>>()? };
            res_id(b.ext_inst(w(a[0])?, ow(a[1])?, w(a[2])?, w(a[3])?, ops))
        }
        ("line", 3) => {
            b.line(w(a[0])?, w(a[1])?, w(a[2])?);
            "ok".to_string()
        }
        ("no_line", 0) => {
            b.no_line();
            "ok".to_string()
        }
        ("decoration_group", 0) => format!("ok:{}", b.decoration_group()),
        ("string", 1) => format!("ok:{}", b.string(string(a[0])?)),
        ("type_forward_pointer", 2) => {
            b.type_forward_pointer(w(a[0])?, spirv::StorageClass::from_u32(w(a[1])?)?);
            "ok".to_string()
        }
        ("type_pointer", 3) => format!("ok:{}", b.type_pointer(ow(a[0])?, spirv::StorageClass::from_u32(w(a[1])?)?, w(a[2])?)),
        ("type_opaque", 1) => format!("ok:{}", b.type_opaque(string(a[0])?)),
        ("constant_bit32", 2) => format!("ok:{}", b.constant_bit32(w(a[0])?, w(a[1])?)),
        ("constant_bit64", 2) => format!("ok:{}", b.constant_bit64(w(a[0])?, a[1].parse().ok()?)),
        ("spec_constant_bit32", 2) => format!("ok:{}", b.spec_constant_bit32(w(a[0])?, w(a[1])?)),
        ("spec_constant_bit64", 2) => format!("ok:{}", b.spec_constant_bit64(w(a[0])?, a[1].parse().ok()?)),
        ("variable", 4) => format!("ok:{}", b.variable(w(a[0])?, ow(a[1])?, spirv::StorageClass::from_u32(w(a[2])?)?, ow(a[3])?)),
        ("undef", 2) => format!("ok:{}", b.undef(w(a[0])?, ow(a[1])?)),
        _ => return None,
    })
}

pub fn build(rest: &str) -> String {
    let mut toks = rest.split(' ').filter(|x| !x.is_empty()).peekable();
    let mut b = match toks.peek() {
        Some(t) if t.starts_with("from:") => {
            let bound: u32 = match t[5..].parse() {
                Ok(v) => v,
                Err(_) => return "bad-request".to_string(),
            };
            toks.next();
            let mut m = dr::Module::new();
            m.header = Some(dr::ModuleHeader::new(bound));
            Builder::new_from_module(m)
        }
        _ => Builder::new(),
    };
    let mut out = vec![];
    for t in toks {
        // `continue:<slack>`: finish the module, raise its header bound by <slack> (a bound may be loose: ids reserved but not yet
        // defined, modules of other tools) and continue building from it with `Builder::new_from_module`
        if let Some(sl) = t.strip_prefix("continue:") {
            let slack: u32 = match sl.parse() {
                Ok(v) => v,
                Err(_) => return "bad-request".to_string(),
            };
            let mut m = b.module();
            let h = m.header.as_mut().unwrap();
            h.bound = h.bound.wrapping_add(slack);
            out.push(format!("continued:{}", h.bound));
            b = Builder::new_from_module(m);
            continue;
        }
        let parts: Vec<&str> = t.split('/').collect();
        let before = show_module(b.module_ref());
        let r = match call_hand(&mut b, parts[0], &parts[1..]) {
            Some(r) => r,
            None => match call_generated(&mut b, parts[0], &parts[1..]) {
                Some(r) => r,
                None => return format!("bad-request {}", t),
            },
        };
        if r.starts_with("err:") && show_module(b.module_ref()) != before {
            out.push(format!("{}!mutated", r));
        } else {
            out.push(r);
        }
    }
    let sel = format!(
        "sel:{},{}",
        b.selected_function().map_or("-".to_string(), |v| v.to_string()),
        b.selected_block().map_or("-".to_string(), |v| v.to_string())
    );
    let m = b.module();
    format!("ok {} | {} | {}", out.join(" "), sel, show_module(&m))
}

/// `buildrt <call>*` — build, `module()`, assemble, `load_words`, compare the two modules structurally.
pub fn buildrt(rest: &str) -> String {
    use rspirv::binary::Assemble;
    let mut b = Builder::new();
    let mut out = vec![];
    for t in rest.split(' ').filter(|x| !x.is_empty()) {
        let parts: Vec<&str> = t.split('/').collect();
        let r = match call_hand(&mut b, parts[0], &parts[1..]) {
            Some(r) => r,
            None => match call_generated(&mut b, parts[0], &parts[1..]) {
                Some(r) => r,
                None => return format!("bad-request {}", t),
            },
        };
        out.push(r);
    }
    let m = b.module();
    let built = show_module(&m);
    let words = m.assemble();
    let loaded = match dr::load_words(&words) {
        Ok(l) => show_module(&l),
        Err(e) => format!("load-error:{}", crate::chan::load::show_parse_err(&e)),
    };
    let verdict = if built == loaded { "same".to_string() } else { format!("differ loaded=[{}]", loaded) };
    format!("ok {} | {} | built=[{}]", out.join(" "), verdict, built)
}
