//! Verification harness for gfx-rs/rspirv: calls the real code in-process.
pub mod glue_builder;
pub mod glue_decode;
pub mod glue_enums;
pub mod glue_operand;
pub mod util;
pub mod chan;
