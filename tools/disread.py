"""Reader of rspirv disassembly text back into generic instructions, using only the vocabulary of the translated
tables (opcode names, enumerant names, mask bit names, extended instruction names). This is the oracle of C07's
read-back claim, evaluated on the implementation's text: it shares no code with the disassembler or its Lean model."""
import re
import struct
from fractions import Fraction


def tokens(line):
    out, i, n = [], 0, len(line)
    while i < n:
        if line[i] == " ":
            i += 1
            continue
        if line[i] == '"':
            j = i + 1
            buf = []
            while j < n and line[j] != '"':
                if line[j] == "\\":
                    e = line[j + 1]
                    if e == "u":
                        k = line.index("}", j)
                        buf.append(chr(int(line[j + 3:k], 16))); j = k + 1
                        continue
                    buf.append({"n": "\n", "t": "\t", "r": "\r", "0": "\0", "\\": "\\", '"': '"', "'": "'"}[e]); j += 2
                else:
                    buf.append(line[j]); j += 1
            out.append(("str", "".join(buf)))
            i = j + 1
            continue
        j = line.find(" ", i)
        j = n if j < 0 else j
        out.append(("tok", line[i:j]))
        i = j
    return out


def f32_bits(text):
    if text in ("inf", "-inf"):
        return 0x7f800000 if text == "inf" else 0xff800000
    if text == "NaN":
        return None
    neg = text.startswith("-")
    q = Fraction(text)
    x = float(q)
    c = struct.unpack("<f", struct.pack("<f", x))[0]
    b = struct.unpack("<I", struct.pack("<f", c))[0]
    best = None
    for cand in (b - 1, b, b + 1):
        if cand < 0 or (cand & 0x7f800000) == 0x7f800000:
            continue
        v = Fraction(struct.unpack("<f", struct.pack("<I", cand & 0xffffffff))[0])
        d = abs(v - q)
        if best is None or d < best[0]:
            best = (d, cand & 0xffffffff)
    bits = best[1]
    if q == 0:
        bits = 0x80000000 if neg else 0
    return bits


def f64_bits(text):
    if text in ("inf", "-inf"):
        return 0x7ff0000000000000 if text == "inf" else 0xfff0000000000000
    if text == "NaN":
        return None
    x = float(text)
    return struct.unpack("<Q", struct.pack("<d", x))[0]


class Reader:
    def __init__(self, T):
        hdr = T["header"]
        self.kinds, core = T["core"]
        self.opv = dict(hdr["enum_by_name"]["Op"]["decl"])
        self.entry = {r["name"]: r for r in core}
        self.pk, self.pf = T["parse_operand"]
        self.dec = {m["method"]: m for m in T["decode"]}
        self.vix = {v: i for i, (v, _) in enumerate(T["operand_enum"])}
        self.enum_names = {}
        for e in hdr["enums"]:
            d = {}
            for n, v in e["decl"]:
                d.setdefault(n, v)
            self.enum_names[e["name"]] = d
        self.enum_vals = {e["name"]: dict(e["decl"]) for e in hdr["enums"]}
        for e in hdr["enums"]:
            for a, t in e["aliases"]:
                self.enum_vals[e["name"]][a] = self.enum_vals[e["name"]][t]
        tables, _ = T["disas_operand"]
        self.mask_names = {}
        for t in tables:
            consts = dict(next(m for m in hdr["masks"] if m["name"] == t["type"])["consts"])
            self.mask_names[t["type"]] = {nm: consts[fl] for fl, nm in t["rows"]}
        self.mask_consts = {m["name"]: dict(m["consts"]) for m in hdr["masks"]}
        self.glsl = {r["name"]: r["opcode"] for r in T["glsl"]}
        self.opencl = {r["name"]: r["opcode"] for r in T["opencl"]}

    def elem(self, variant, method, tok):
        vi = self.vix[variant]
        kind, text = tok
        if method == "id":
            if kind != "tok" or not text.startswith("%"):
                raise ValueError(f"expected an id, got {text!r}")
            return f"{vi}:{int(text[1:])}"
        if method in ("bit32", "ext_inst_integer"):
            return f"{vi}:{int(text)}"
        if method == "string":
            if kind != "str":
                raise ValueError(f"expected a string, got {text!r}")
            return f"{vi}:S{text.encode('utf-8').hex() or '-'}"
        d = self.dec[method]
        if d["mask"]:
            return f"{vi}:{self.mask(d['type'], text)}"
        name = "Dim" + text if d["type"] == "Dim" else text
        if name not in self.enum_names[d["type"]]:
            raise ValueError(f"{text!r} is not an enumerant of {d['type']}")
        return f"{vi}:{self.enum_names[d['type']][name]}"

    def mask(self, ty, text):
        if text == "None":
            return 0
        v = 0
        for nm in text.split("|"):
            if nm not in self.mask_names[ty]:
                raise ValueError(f"{nm!r} is not a bit of {ty}")
            v |= self.mask_names[ty][nm]
        return v

    def operand(self, kind, toks, pos):
        """returns (operand texts, new position)"""
        a = self.pk[kind]
        out = []
        if a[0] == "elems":
            for v, m in a[1]:
                out.append(self.elem(v, m, toks[pos])); pos += 1
            return out, pos
        (v, m), fn = a[1], a[2]
        first = self.elem(v, m, toks[pos]); pos += 1
        out.append(first)
        val = int(first.split(":")[1])
        form, ty, rows = self.pf[fn]
        if form == "mask":
            consts = self.mask_consts[ty]
            for flag, es in rows:
                if val & consts[flag] == consts[flag]:
                    for vv, mm in es:
                        out.append(self.elem(vv, mm, toks[pos])); pos += 1
        else:
            vals = self.enum_vals[ty]
            for en, es in rows:
                if vals[en] == val:
                    for vv, mm in es:
                        out.append(self.elem(vv, mm, toks[pos])); pos += 1
                    break
        return out, pos

    def literal(self, tok, render_ty, wide):
        """context dependent literal: `render_ty` = (kind, width, signed) when the disassembler printed it by declared
        type (global OpConstant), None when it was printed as plain bits; `wide` = the operand is a 64-bit literal"""
        text = tok[1]
        L32, L64 = self.vix["LiteralBit32"], self.vix["LiteralBit64"]
        if render_ty is None or render_ty[0] == "int":
            v = int(text)
            if v < 0:
                if render_ty is None or not render_ty[2]:
                    raise ValueError("negative literal for an unsigned or unknown type")
                v += 1 << (64 if wide else 32)
            return f"{L64}:Q{v}" if wide else f"{L32}:{v}"
        bits = f64_bits(text) if wide else f32_bits(text)
        if bits is None:
            return "NaN"
        return f"{L64}:Q{bits}" if wide else f"{L32}:{bits}"

    def prefix(self, line):
        """(rid, opcode name, rtype, tokens, position of the first operand token): context free part of a line"""
        toks = tokens(line)
        pos = 0
        rid = None
        if len(toks) >= 2 and toks[0][1].startswith("%") and toks[1][1] == "=":
            rid = int(toks[0][1][1:]); pos = 2
        op = toks[pos][1]
        if not op.startswith("Op") or op[2:] not in self.entry:
            raise ValueError(f"unknown opcode token {op!r}")
        name = op[2:]
        pos += 1
        e = self.entry[name]
        has_rid = any(k == "IdResult" for k, _ in e["ops"])
        if has_rid != (rid is not None):
            raise ValueError("`%id = ` presence does not match the opcode's grammar")
        rtype = None
        if any(k == "IdResultType" for k, _ in e["ops"]):
            rtype = int(toks[pos][1][1:]); pos += 1
        return rid, name, rtype, toks, pos

    @staticmethod
    def track(types, name, rid, rtype, lits):
        """binary::tracker::TypeTracker::track on (opcode, result id, result type, leading literal operands)"""
        if rid is None:
            return
        if name.startswith("Type"):
            if name == "TypeInt":
                types[rid] = ("int", lits[0], lits[1] == 1)
            elif name == "TypeFloat":
                types[rid] = ("float", lits[0], False)
        elif rtype is not None and rtype in types:
            types[rid] = types[rtype]

    def module(self, lines):
        """instruction lines of one module's disassembly -> generic instruction texts"""
        # pass 1: what Module::disassemble derives from the whole module before printing any line
        gtypes, extsets = {}, {}
        first_fn = len(lines)
        pre = []
        for n, ln in enumerate(lines):
            try:
                p = self.prefix(ln)
            except (ValueError, IndexError, KeyError) as ex:
                raise ValueError(f"line {n + 1}: {ex}: {ln[:120]}")
            pre.append(p)
            if p[1] == "Function" and first_fn == len(lines):
                first_fn = n
        # the loader files types, constants, global variables, undefs and lines between them into
        # types_global_values: every global line whose opcode is not of the other ten sections
        for n in range(first_fn):
            rid, name, rtype, toks, pos = pre[n]
            if name == "ExtInstImport":
                s = toks[pos][1]
                if s == "GLSL.std.450":
                    extsets[rid] = 0
                elif s == "OpenCL.std":
                    extsets[rid] = 1
            if name in ("TypeInt", "TypeFloat"):
                self.track(gtypes, name, rid, rtype, [int(t[1]) for t in toks[pos:pos + (2 if name == "TypeInt" else 1)]])
            elif name not in self.not_tgv:
                self.track(gtypes, name, rid, rtype, [])
        # pass 2
        out, ptypes = [], {}
        for n, ln in enumerate(lines):
            try:
                t = self.line(pre[n], gtypes if n < first_fn else None, ptypes, extsets)
            except (ValueError, IndexError, KeyError) as ex:
                raise ValueError(f"line {n + 1}: {ex}: {ln[:120]}")
            out.append(t)
            rid, name, rtype, toks, pos = pre[n]
            self.track(ptypes, name, rid, rtype, [int(x[1]) for x in toks[pos:pos + (2 if name == "TypeInt" else 1)]] if name in ("TypeInt", "TypeFloat") else [])
        return out

    not_tgv = {"Capability", "Extension", "ExtInstImport", "MemoryModel", "EntryPoint", "ExecutionMode", "ExecutionModeId",
               "String", "SourceExtension", "Source", "SourceContinued", "Name", "MemberName", "ModuleProcessed"}

    def line(self, pre, gtypes, ptypes, extsets):
        """one instruction line -> generic instruction text. gtypes: the disassembler's global type table when the line
        is a global one; ptypes: types the parser had tracked when it reached the instruction"""
        rid, name, rtype, toks, pos = pre
        e = self.entry[name]
        ops = []
        for k, q in e["ops"]:
            if k in ("IdResult", "IdResultType"):
                continue
            if q == "ZeroOrOne":
                if pos >= len(toks):
                    break
                reps = 1
            elif q == "ZeroOrMore":
                reps = None
            else:
                reps = 1
            while (reps is None and pos < len(toks)) or (reps is not None and reps > 0):
                if k == "LiteralContextDependentNumber":
                    pt = ptypes.get(rtype)
                    rt = gtypes.get(rtype) if (gtypes is not None and name == "Constant") else None
                    ops.append(self.literal(toks[pos], rt, bool(pt) and pt[1] == 64)); pos += 1
                elif k == "PairLiteralIntegerIdRef":
                    pt = ptypes.get(int(ops[0].split(":")[1]))
                    ops.append(self.literal(toks[pos], None, bool(pt) and pt[1] == 64)); pos += 1
                    ops.append(f"{self.vix['IdRef']}:{int(toks[pos][1][1:])}"); pos += 1
                elif k == "LiteralSpecConstantOpInteger":
                    nm = toks[pos][1]; pos += 1
                    ops.append(f"{self.vix['LiteralSpecConstantOpInteger']}:{self.opv[nm]}")
                    ne = self.entry[nm]
                    for k2, q2 in ne["ops"]:
                        if k2 in ("IdResultType", "IdResult"):
                            continue
                        if q2 == "One":
                            o, pos = self.operand(k2, toks, pos); ops += o
                        elif q2 == "ZeroOrOne":
                            if pos < len(toks):
                                o, pos = self.operand(k2, toks, pos); ops += o
                        else:
                            while pos < len(toks):
                                o, pos = self.operand(k2, toks, pos); ops += o
                elif k == "LiteralExtInstInteger" and name == "ExtInst":
                    set_id = int(ops[0].split(":")[1])
                    t = toks[pos][1]; pos += 1
                    vi = self.vix["LiteralExtInstInteger"]
                    if not t.isdigit():
                        if set_id not in extsets:
                            raise ValueError(f"instruction name {t!r} for a set that is not imported")
                        tab = self.glsl if extsets[set_id] == 0 else self.opencl
                        ops.append(f"{vi}:{tab[t]}")
                    else:
                        ops.append(f"{vi}:{int(t)}")
                else:
                    o, pos = self.operand(k, toks, pos); ops += o
                if reps is not None:
                    reps -= 1
        if pos != len(toks):
            raise ValueError(f"{len(toks) - pos} tokens left over")
        return "%d;%s;%s;%s" % (self.opv[name], "-" if rtype is None else rtype, "-" if rid is None else rid, ",".join(ops) or "-")
