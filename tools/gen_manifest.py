"""Writes MANIFEST.json from the table below (kept in one place so it is always valid)."""
import json
import os

VERIF = os.path.dirname(os.path.dirname(os.path.abspath(__file__)))
ALL = [f"C{i:02d}" for i in range(1, 21)]

CLAIMS = {
    "C08": dict(
        technique="Lean 4 theorems (generic G-ranges / G-mask lemmas by induction) instantiated by kernel evaluation on tables regenerated from spirv/autogen_spirv.rs; probes of the real from_u32/FromStr/from_bits against the Lean model",
        text="Machine-checked: for every one of the 45 regenerated enum specs and every natural number n, from_u32 n is Some iff n is a declared discriminant and converts back to n; every name and alias parses back; every mask accepts exactly numbers whose set bits are declared; tables equal the pinned-release snapshot. The theorem is about the translated tables; the translator accounts for every token of the file and its reading is validated by executing the real functions on ~7000 probes per run.",
        note="Trusted: Lean kernel, axioms propext/Classical.choice/Quot.sound, strict translator tools/translate/spirv_header.py, extractor probes, rustc semantics of `as u32`/transmute on declared discriminants, bitflags from_bits semantics (probed), pinned snapshot standing in for the Khronos JSON (not available offline).",
        ref="DESIGN.md §8 C08, §5 G-ranges/G-mask"),
    "C09": dict(
        technique="Lean 4 theorems (generic lookup lemmas) instantiated by kernel evaluation on the three regenerated grammar tables; exhaustive comparison of the real lookup_opcode/get with the Lean model on all 65536 numbers",
        text="Machine-checked: lookup by number returns an entry iff the number is a declared opcode, with that opcode and name; get never fails; every entry is well-formed (declarative QuantShape proved from the Boolean check); tables equal the pinned snapshot. lookup_opcode itself (hand-written) is tied by exhaustive execution over its whole 16-bit domain.",
        note="Trusted: Lean kernel + 3 standard axioms, translator grammar_tables.py cross-checked against the tables' public iter() on every run, extractor, pinned snapshot.",
        ref="DESIGN.md §8 C09"),
    "C16": dict(
        technique="Lean 4 theorems over the complete extracted truth table of the 12 reflect predicates (787 opcodes), decided by kernel evaluation against an authored specification classification",
        text="Machine-checked over the whole finite domain: each base predicate equals its specification class (minus explicitly recorded findings), derived predicates are the documented unions, base classes are pairwise disjoint. The truth table is obtained by executing the real predicates on every opcode, so the tie is exhaustive.",
        note="Trusted: Lean kernel + standard axioms, extractor (exhaustive execution), Reference/SpecClass.lean authored from the SPIR-V specification's definitions. The Builder-ends-block clause is decided with the builder method table under C06.",
        ref="DESIGN.md §8 C16, §7.3"),
    "C19": dict(
        technique="Lean 4 theorems by induction over operation histories on a hand-written model of Storage (arbitrary lawless equality), tied to the real Storage<T> by a differential line-protocol harness",
        text="Machine-checked for every element type, every Boolean equality (no laws assumed) and every finite history: appends return the old length and a fresh token, storage only grows by suffixes so earlier tokens keep their values, fetch_or_append returns the first equal element's index or appends, length = initial + number of appending operations. The 25-line model is tied to sr/storage.rs by exhaustive histories up to length 4 over an irreflexive, asymmetric equality plus seeded long histories (also on f32 with NaNs), and the property is also evaluated directly on the implementation's answers.",
        note="Trusted: Lean kernel + standard axioms; hand model Rspirv/Model/Storage.lean and its differential tie (as good as its generators); Vec semantics; storage below 2^32 elements (u32 index).",
        ref="DESIGN.md §8 C19"),
    "C15": dict(
        technique="Lean 4 theorems (list algebra, valid for every module value over every instruction type) over traversal/assembly orders regenerated from constructs.rs and assemble.rs; differential `trav` channel on random module values",
        text="Machine-checked for all dr::Module values (any combination of missing header/def/end/label and empty sections) and any instruction type: all-instructions traversal = global traversal ++ per-function traversals; mutable twins equal their read-only counterparts; assembly = header words ++ flatMap of per-instruction assembly over the traversal; explicit layout order. The chain orders are data read from the source by a strict translator on every run; a reordered, missing or duplicated field breaks the `orders_ok` obligation and the oracle then finds the one- or two-instruction witness module.",
        note="Trusted: Lean kernel + standard axioms; translator traversals.py (every token of the iterator and assemble_into bodies); std iterator semantics; hand model Module.lean and its differential tie.",
        ref="DESIGN.md §8 C15"),
    "C11": dict(
        technique="Lean 4 theorems by case analysis and induction over request histories on a statement-by-statement model of binary::Decoder with explicit panic sites; differential `dec` channel against the real Decoder",
        text="Machine-checked for every buffer and every finite sequence of requests and limit changes: word/words/bit64/typed requests return the little-endian words at the offset and advance by 4 per word, failures leave the offset and report it, string returns the bytes up to the first NUL (valid UTF-8), consumes nul/4+1 words, never beyond the buffer or the limit; after set_limit n the offset never passes offset+4n; no request panics (all slice/arith panic sites of the Rust text are explicit model outcomes proved unreachable under offset<=len). The pre-fix code violated this (3 panics, fixed by commit 2fc78a6, corpus runs first).",
        note="Trusted: Lean kernel + standard axioms; hand model Decoder.lean tied by the differential `dec` channel (seeded buffers/scripts, every one of the 56 generated typed methods exercised); slices <= isize::MAX; from_le_bytes; str::from_utf8 modelled by validUtf8 (fuzzed).",
        ref="DESIGN.md §8 C11"),
    "C14": dict(
        technique="Lean 4 theorem by induction on the parse loop of a statement-by-statement model of Parser::parse, for every table set, byte string and consumer behaviour; scripted-consumer differential against the real parser",
        text="Machine-checked for all binaries and all consumer behaviours (a function from callback index to continue/stop/error): the callback trace has the shape initialize, header, instructions, finalize; every callback but the last was answered continue; a stop/error answer ends the parse at once with stop-requested / consumer-error carrying the consumer's value; finalize is called iff everything before succeeded; a parse error never calls finalize. Instruction-level parse errors live in their own type, so 'parse_inst never yields a consumer state' holds by construction.",
        note="Trusted: Lean kernel + standard axioms; hand model Parser.lean tied by the differential (every callback position k x {stop,error} on valid, corrupted, truncated and empty binaries); theorem is modulo model panics, which C04/C11 exclude.",
        ref="DESIGN.md §8 C14"),
    "C10": dict(
        technique="Lean 4 theorems characterising parse_literal and TypeTracker::track of the parser model (all widths, propagation, fresh tracker per parse); differential on seeded declaration/consumer histories with reused ids",
        text="Machine-checked: the literal occupies one word for int 8/16/32, float 16/32 and unknown types, two words low-word-first for 64 bits, and is rejected with TypeUnsupported (nothing consumed) for every other width; declarations bind ids, value definitions propagate the tracked type of their result type, the newest binding wins; every parse starts from the empty tracker; the assembler emits 1 resp. 2 words. Tied to parser.rs/tracker.rs by histories over 5 deliberately reused ids so that state leaking between parses would surface.",
        note="Trusted: Lean kernel + standard axioms; hand model (Parser.lean parseLiteral/Tracker) + differential harness; oracle restates the rule independently.",
        ref="DESIGN.md §8 C10"),
    "C05": dict(
        technique="Lean 4 refinement proof: the loader model simulates a three-state bracket automaton (same verdict, same error, same instruction) for all instruction sequences; invariant proofs for shape and sections; exhaustive short words + opcode sweep differential against the real Loader",
        text="Machine-checked for every instruction sequence and table set: the loader accepts iff the bracket automaton A (the specification, ~25 lines) accepts and otherwise returns A's error at the first offending instruction or the unclosed error at the end; on success every function has its defining and ending instruction and every block its label and a final terminator occurring nowhere else; each opcode-determined section is exactly the order-preserving filter of the input by class. The model is tied to dr/loader.rs by all words of length <= 5 over a 9-letter alphabet, seeded longer words and every one of the 787 opcodes at module level and inside a block, judged also by an independent Python automaton.",
        note="Trusted: Lean kernel + standard axioms; hand model Loader.lean tied by the `load` channel; classification predicates come from the extracted reflect table (C16 judges them against the specification); vendor constants ConstantPipeStorage/ConstantStringAMDX/SpecConstantStringAMDX/ConstantFunctionPointerINTEL are outside the claim as the property states.",
        ref="DESIGN.md §8 C05"),
    "C12": dict(
        technique="Lean 4 invariant proof over all Builder call sequences on a model of dr::Builder whose generated methods are interpreted from specs translated from the source; differential `build` channel (exhaustive short histories + seeded) with error-atomicity observed on the real module",
        text="Machine-checked for every call sequence with in-range insertion offsets: no call panics (every index into functions/blocks is an explicit panic outcome of the model, proved unreachable under the invariant), the selection always designates an existing function and block or nothing, begin_function fails iff a function is open, begin_block iff no function or a block is open, block instructions and terminators iff no block is selected, parameter/end_function iff no function is open, a terminator closes the block, end_function closes the function, and a failing call leaves the module's instructions unchanged. The pre-fix code violated the invariant (stale block selection, fixed by ebbae66).",
        note="Trusted: Lean kernel + standard axioms; hand model Builder.lean/BuilderHand.lean, strict translator builder.py for all 1128 generated methods, differential harness; insertion offsets in range and next_id < 2^32 are hypotheses.",
        ref="DESIGN.md §8 C12"),
    "C13": dict(
        technique="Lean 4 theorems by induction over call histories of the Builder model (counter monotone by one, fresh ids = consecutive range, bound = next id, three-way type request, no-duplicate invariant); differential on seeded histories over every generated type method",
        text="Machine-checked for every call history: each call leaves next_id unchanged or advances it by one; the ids allocated along a history are exactly the consecutive range from the start (1, or the header bound of a continued module) to the final counter, so they are distinct and increasing and the finished header bound exceeds all of them; an implicit type request returns the first identical declaration's id and changes nothing, or appends exactly one declaration with a fresh id; an explicit id always appends; implicit-only request sequences keep types_global_values free of identical declarations.",
        note="Trusted: Lean kernel + standard axioms; Builder model + translated method specs + differential harness (all 32 generated dedup type methods and type_pointer exercised); id space not exhausted.",
        ref="DESIGN.md §8 C13"),
    "C06": dict(
        technique="Lean 4 table theorem (merge-walk, proved sound) over the specs of all ~1100 generated Builder methods translated from the source, judged against the grammar table, the loader's classification and the opcode enumeration; end-to-end build->assemble->load equality by differential on complete histories",
        text="Machine-checked for every generated instruction-emitting method (minus recorded findings): opcode has a grammar entry; result type/id exactly when the entry has one; operand slots equal the entry's operands kind by kind, quantifier by quantifier, in grammar order and fed by the parameters in signature order (a swap of two equal-kinded arguments fails); parameters of parameterised kinds only via a single trailing additional_params; the sink (section / block / block end) is where the loader files that opcode; the Builder ends a block for exactly the terminator opcodes. End-to-end equality of a built module with its assemble-then-load image is C06_partial: decided by the differential (every method once in a minimal complete history + seeded complete histories) on top of C05/C12/C13/C15.",
        note="Trusted: Lean kernel + standard axioms; translator builder.py (every token of 1128 methods, validated by calling each method in the harness and comparing with the model's prediction); hand models; ArgsConform/complete-history hypotheses as stated in the evidence; known findings: type_struct_continued_intel(_id), begin_block_no_label.",
        ref="DESIGN.md §8 C06"),
    "C01": dict(
        technique="Lean 4 theorems by induction over loader histories: every accepted instruction is appended to exactly the part (section or function part) the loader destines it to, hence the loaded module is the stable partition of the input; permutation / sub-sequence / identity-on-sorted-input corollaries by generic list lemmas; assembly = header words ++ per-instruction encodings (C15); load_bytes = that loader fed by the parser's delivered instructions (C14 trace theorem); differential loadasm channel judged by an independent encoder and stable-partition oracle",
        text="Machine-checked for every table set and instruction sequence the loader accepts (with at most one OpMemoryModel and no OpFunctionParameter after its function's first label): each of the 11 sections and the function part of the loaded module is exactly the sub-sequence of the input destined to it, so the assembled instruction sequence is a permutation of the input (nothing dropped, duplicated, invented), every part keeps the input's relative order, an input in layout order comes back identical, and the assembled words are [magic, input version, generator, input bound, 0] followed by the per-instruction encodings. Instruction level (Props/C01Words.lean): whatever parse_inst delivers as i was parsed from a prefix `used` of the stream words with InstWords i used (word count word, result type, result id, one encoding per operand), the assembler's output for i satisfies InstWords i as well, and two word lists with InstWords i have the same length, first word, result words and operand words, inside a string only up to and including the NUL terminator. The reload equality for arbitrary section orders is decided by the differential.",
        note="Trusted: Lean kernel + standard axioms; hand models Loader/LoadBytes/Assemble tied by the loadasm channel (layout-ordered, section-permuted, duplicated-instruction and garbage-padded modules over all core opcodes; outputs loaded again); known finding: a late OpFunctionParameter is moved in front of the blocks.",
        ref="DESIGN.md §8 C01"),
    "C02": dict(
        technique="Lean 4: the grammar as a recogniser over word lists (Model/Spec.lean, no buffer/limits/errors), a refinement proof that the parser model accepts exactly what it accepts with the same instruction (Props/ParserSpec.lean), and a family of re-encoding lemmas by induction over the recogniser: an instruction it produces is recognised again from the assembler's words for it (C02_spec), lifted to the parser model on the assembled bytes (C02); differential on every opcode x quantifier shape x enumerant/bit against an independent encoder",
        text="Machine-checked for the tables regenerated from the working tree: for every instruction i of the grammar (recognised by Spec.inst from some words under any tracked types) whose encoding fits the 16-bit word count: the assembler's first word is word count << 16 | opcode with the word count equal to the number of words emitted, followed by result type, result id and the operands' encodings (enumerants/masks as their value, 64-bit literals low word first, strings NUL-terminated, zero-padded); writing those words as little-endian bytes anywhere in a buffer and parsing there delivers exactly i and stops in front of whatever follows. 'Instruction of the grammar' is defined by the recogniser, which C03 shows to be what the parser accepts; a declarative grammar independent of any recogniser is not formalised.",
        note="Trusted: Lean kernel + standard axioms; translators (tables); hand models Parser/Assemble tied by the asm+parse channels; table facts reused from C04 (tablesSafe), C08 (from_u32 returns its argument), C09 (result kinds lead).",
        ref="DESIGN.md §11.3"),
    "C03": dict(
        technique="Lean 4 refinement proof: every routine of the statement-by-statement parser model (decoder state, limits, offsets, panic sites) started inside an instruction whose remaining words are ws behaves as the specification recogniser on ws — success with the same value and remaining words, or no success; exact limit accounting on successful paths (an instruction whose declared extent overruns the stream is never accepted); Complete only at the end of the stream; stream-level theorem by induction over the parse loop",
        text="Machine-checked for the regenerated tables, every byte string below 2^63 bytes and a continuing consumer: the parse succeeds iff the binary has five header words with the magic number first and the recogniser consumes every instruction word (word count non-zero, opcode known, extent inside the stream, operands matching the grammar with no word left over); the consumer receives initialize, the header, exactly the recognised instructions in stream order each once, and finalize iff the parse succeeds; on rejection it never receives finalize and the result is an instruction-level error other than Complete which carries (where its kind has the field) the 1-based number of the first unrecognised instruction and a byte offset inside that instruction's declared extent [start, start + 4*word count] (C03_reject), or the header errors for short / wrong-magic / byte-swapped headers. Which error kind is reported for which fault is decided by the differential and its oracle. Consumers that stop are C14's subject.",
        note="Trusted: as C02. Known finding: BankBitsINTEL's variadic parameter (Khronos grammar) is read as one literal.",
        ref="DESIGN.md §11.3"),
    "C04": dict(
        technique="Lean 4 theorem: no panic site of the parser/decoder/tracker model is reachable, for every byte string and consumer, by induction over the parse with an abstract interpretation of parse_operands over each grammar entry (proved sound, evaluated by the kernel on the regenerated tables); loader composition via the C14 trace-shape theorem; differential on a systematic malformed stream",
        text="Machine-checked: every assert!/expect/index/panic!()/overflow of binary/parser.rs, decoder.rs, tracker.rs and the generated parse_operand is an explicit panic outcome of the model, and for the tables regenerated from the working tree, every byte string below 2^63 bytes and every consumer behaviour, Parser::parse returns Ok or an error value (theorem C04); load_bytes never panics (C04_loader); every decoder request on any buffer with any limit is panic-free (C11). That accepted modules assemble and disassemble without panic is decided by the differential (assembler/disassembler models are total functions), on every accepted module of the stream.",
        note="Trusted: Lean kernel + standard axioms; translators for the grammar/operand tables; hand models tied by the differential (pre-fix panic corpus, truncation at every word, hostile word substitution, word-count/opcode corruption, instruction drop/dup/swap, all structural words <= 4, every opcode nested in OpSpecConstantOp, random bytes); the unsafe &[u32]->&[u8] view of parse_words is outside the model.",
        ref="DESIGN.md §8 C04"),
    "C18": dict(
        technique="Lean 4 theorems over per-opcode field tables translated (every token) from the 14.5k-line generated lift/autogen_context.rs and the field declarations of sr/autogen_{ops,types,instructions}.rs: positional-reading theorem for the interpreted struct literals, kernel-checked merge walk (proved sound) of all 772 arms against the grammar table and the declarations; hand model of lift/mod.rs tied by a differential whose implementation side is the Debug text of the structured representation, canonicalised type-directed",
        text="Machine-checked: a struct literal of plain required fields gives field j exactly operand j and leaves the rest (liftFields_req); the lifted node carries the literal's field names in order; for every arm of lift_op / lift_type / lift_branch / lift_terminator / the single-instruction lifts, the arm sits on the grammar entry of its opcode, has one field per grammar operand (result type/id apart) with that operand's variant(s) and multiplicity, and its fields are named and ordered as the declaration of the structured-representation variant it fills (C18_table); a successful conversion keeps the header's version word (C18_header) and has one type per type declaration, one constant per constant declaration (types_global_values, appended in order), one function per function with one block per block, one block argument per phi, and as many operations as there are result-producing block instructions other than OpPhi/OpLine (C18_structure and the *_counts lemmas). That the k-th operation is the lift of the k-th such instruction, function control / result type and the terminators are decided by the differential with an independent oracle.",
        note="Trusted: Lean kernel + standard axioms; translator lift_context.py; hand model Lift.lean (every HashMap index / unwrap / assert of lift/mod.rs an explicit panic outcome) tied by the lift channel on seeded modules of the supported subset built from the lift tables with pairwise distinct operand values (593 lift_op opcodes in the pool) and on unrestricted modules (errors and panics must agree); tools/srdebug.py.",
        ref="DESIGN.md §8 C18"),
    "C20": dict(
        technique="Lean 4 theorem about a model of dis/main.rs composed of the parser, loader and disassembler models with the Display texts of every error; the real rspirv-dis binary is built from the working tree and run on every generated file, judged against the library in-process and against the model",
        text="Machine-checked: for every file content below 2^63 bytes the model of main terminates normally and its output is the disassembly of the loaded module plus newline, or the error's message plus newline (C20, via C04_loader). The real binary's exit status, stdout and stderr are compared with that on the C04 malformed stream; error messages are compared verbatim (all ParseState/loader/decoder Display strings, including std's Utf8Error text).",
        note="Trusted: as C04, plus subprocess execution of the binary; unreadable/missing files are outside the property.",
        ref="DESIGN.md §8 C20"),
    "C07": dict(
        technique="Lean 4 theorems over a two-layer model of binary/disassemble.rs (instructions -> lines of tokens -> characters) instantiated at name tables translated from the source on every run; differential on every enumerant/bit/opcode/instruction shape and on seeded modules; read-back oracle reading the implementation's text with the vocabulary only",
        text="Machine-checked for every module value: the text is the header comment followed by exactly one line per instruction of all_inst_iter in that order (the order assemble uses, C15); each line has `%id = ` iff a result id, the grammar name of the opcode, the result type iff present, one token per operand. Over the regenerated tables (kernel-checked table facts + generic lemmas): distinct known opcodes, distinct declared enumerants, distinct valid mask values (every mask bit has a printed name), distinct extended-instruction numbers print differently; signed/unsigned/float literal tokens determine the bits. The lexical layer (escaping, float Display) and grammar-directed reading of the tokens are decided by the read-back oracle, not by a theorem (C07_partial at that layer).",
        note="Trusted: Lean kernel + standard axioms; translator disas_operand.py; hand model Disasm.lean tied by the differential (floats compared by parsing the implementation's token back to bits); tools/disread.py. Quantifier: modules in layout order whose literal widths agree with their declared types; NaN payloads excepted.",
        ref="DESIGN.md §8 C07"),
    "C17": dict(
        technique="Lean 4 theorems over two independently generated copies of the per-value parameter tables (parser: per enumerant/bit; reflection: grouped), translated on every run: sequence equality for every enumerant, permutation for EVERY bit pattern (generic lemma + kernel-checked table facts), pinned-snapshot equality, id kinds, single-word rewrite; differential reflect/idmut channels",
        text="Machine-checked: for every enumerant of ExecutionMode and Decoration the reflected extra operands expand to exactly the parser's element sequence; for every natural number as bit pattern of the four parameterised masks the reflected operands are a permutation of what the parser consumes; parameters, required capabilities (by value) and extensions equal the pinned snapshot; id_ref_any(_mut) answers exactly for the three spirv::Word variants; replacing a one-word operand changes exactly the corresponding assembled word; every From<T> builds the variant with payload T that the matching unwrap returns.",
        note="Trusted: Lean kernel + standard axioms; translators operand_reflect.py / parse_operand.py (every token); differential harness probing every enumerant of every enum variant and every mask constant + combinations; pinned snapshot as the Khronos reference. Known finding: BankBitsINTEL's parameter is variadic in the grammar/reflection but the parser reads one literal.",
        ref="DESIGN.md §8 C17"),
}


def main():
    checks = []
    for p in ALL:
        c = CLAIMS.get(p)
        if not c:
            continue
        checks.append({
            "property_id": p,
            "quick_cmd": f"./check {p} --tier quick",
            "thorough_cmd": f"./check {p} --tier thorough",
            "evidence_file": f"/verif/evidence/{p}.json",
            "replay_cmd_template": f"./check {p} --replay {{path}}",
            "engine": "lean4-proof+correspondence",
            "level_claimed": {"category": "proof", "text": c["text"], "design_ref": c["ref"]},
            "level_note": c["note"],
            "technique": c["technique"],
        })
    na = [{"property_id": p, "reason": "not yet claimed: model/theorems under construction in this round (see DESIGN.md §10 order of work); will be decided by Lean proof + correspondence, no other technique"}
          for p in ALL if p not in CLAIMS]
    m = {
        "version": 1,
        "setup_cmd": "./check setup",
        "hooks": {"guard": "rspirv_verif", "enable": "none needed: every observation goes through public API (no source hooks)",
                  "baseline_off_cmd": "cd /repo && cargo test --workspace --no-fail-fast --offline",
                  "source_commits": [], "add_only": True},
        "engines": [{"name": "lean4-proof+correspondence", "path": "/verif/check",
                     "serves_properties": [c["property_id"] for c in checks],
                     "kind_free_text": "Lean 4 kernel-checked theorems over a model regenerated from /repo (strict translators + exhaustive extraction) and hand models tied by a differential line-protocol harness"}],
        "checks": checks,
        "not_applicable": na,
        "notes": "pinned reference snapshots: reference/pinned-spirv.json, reference/pinned-grammar.json, reference/specclass.json (sha256 in DESIGN.md). fix: commits in /repo are listed in known_findings.json.",
    }
    json.dump(m, open(os.path.join(VERIF, "MANIFEST.json"), "w"), indent=1)


if __name__ == "__main__":
    main()
