#!/usr/bin/env python3
"""Audit of the committed evidence files (run before every commit of /verif/evidence):
each file validates against the schema, is a quick-tier default-seed record, has every
obligation discharged and no violation, and belongs to a property claimed in MANIFEST.json.
A record written by a check on a patched tree (seed rounds) fails this audit."""
import glob
import json
import os
import sys

VERIF = os.path.dirname(os.path.dirname(os.path.abspath(__file__)))


def main():
    bad = []
    try:
        import jsonschema
        schema = json.load(open("/root/.vp/EVIDENCE.schema.json"))
    except Exception:
        jsonschema = schema = None
    claimed = {c["property_id"] for c in json.load(open(f"{VERIF}/MANIFEST.json"))["checks"]}
    seen = set()
    for f in sorted(glob.glob(f"{VERIF}/evidence/*.json")):
        e = json.load(open(f))
        c = e.get("coverage", {})
        seen.add(e.get("property_id"))
        if schema is not None:
            try:
                jsonschema.validate(e, schema)
            except Exception as x:
                bad.append(f"{f}: schema: {str(x).splitlines()[0]}")
        if c.get("obligations") != c.get("discharged"):
            bad.append(f"{f}: discharged {c.get('discharged')} != obligations {c.get('obligations')}")
        if e.get("violations", 0) != 0:
            bad.append(f"{f}: violations={e.get('violations')}")
        if e.get("tier") != "quick" or e.get("seed") != 1:
            bad.append(f"{f}: tier={e.get('tier')} seed={e.get('seed')} (committed records are quick, seed 1)")
        if any(not o.get("discharged") for o in c.get("obligation_list", [])):
            bad.append(f"{f}: an obligation in obligation_list is not discharged")
    for p in sorted(claimed - seen):
        bad.append(f"evidence/{p}.json missing")
    for p in sorted(seen - claimed):
        bad.append(f"evidence/{p}.json is not claimed in MANIFEST.json")
    for b in bad:
        print("BAD", b)
    print(f"evidence audit: {len(seen)} files, {len(bad)} problems")
    sys.exit(1 if bad else 0)


if __name__ == "__main__":
    main()
