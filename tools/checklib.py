"""Shared machinery of ./check: translate, build, audit, drive, evidence, findings."""
import fcntl
import json
import os
import re
import subprocess
import sys
import time

VERIF = os.path.dirname(os.path.dirname(os.path.abspath(__file__)))
REPO = os.environ.get("RSPIRV_REPO", "/repo")
LEAN = os.path.join(VERIF, "lean")
GEN = os.path.join(LEAN, "Rspirv", "Generated")
HARNESS = os.path.join(VERIF, "harness")
BUILD = os.path.join(VERIF, "build")
HBIN = os.path.join(BUILD, "harness-target", "debug")
DRIVER = os.path.join(LEAN, ".lake", "build", "bin", "driver")

sys.path.insert(0, os.path.join(VERIF, "tools"))
from rusttok import TranslateError  # noqa: E402
import lean_emit  # noqa: E402
import glue_gen  # noqa: E402
import extract_read  # noqa: E402

ALLOWED_AXIOMS = {"propext", "Classical.choice", "Quot.sound"}
ENV = dict(os.environ, CARGO_NET_OFFLINE="true", CARGO_TERM_COLOR="never")


class Issue:
    """Something that stops the property from being shown to hold on this run."""

    def __init__(self, prop, key, what, witness=None, found_input=False, kind="obligation"):
        self.prop, self.key, self.what, self.witness, self.found_input, self.kind = prop, key, what, witness, found_input, kind

    def to_json(self):
        return {"property": self.prop, "key": self.key, "kind": self.kind, "what": self.what,
                "failing_input_found": self.found_input, "witness": self.witness}


class Ctx:
    def __init__(self, prop, tier, seed):
        self.prop, self.tier, self.seed = prop, tier, seed
        self.t0 = time.time()
        self.issues = []
        self.obligations = []      # (name, discharged: bool)
        self.coverage = {}
        self.samples = []
        self.assumptions = []
        self.evaluations = 0
        self.distinct = set()
        self.notes = []
        self.data = {}
        self.log_lines = []

    def log(self, msg):
        self.log_lines.append(msg)
        print(f"[{self.prop} {time.time() - self.t0:6.1f}s] {msg}", flush=True)

    def issue(self, key, what, witness=None, found_input=False, kind="obligation"):
        self.issues.append(Issue(self.prop, key, what, witness, found_input, kind))

    def oblige(self, name, ok):
        self.obligations.append((name, bool(ok)))


def read(path):
    with open(path) as f:
        return f.read()


def run(cmd, cwd=None, inp=None, timeout=3600, env=None):
    p = subprocess.run(cmd, cwd=cwd, input=inp, capture_output=True, text=True, timeout=timeout, env=env or ENV)
    return p.returncode, p.stdout, p.stderr


class Lock:
    def __init__(self, name="build"):
        os.makedirs(BUILD, exist_ok=True)
        self.path = os.path.join(BUILD, f".{name}.lock")

    def __enter__(self):
        self.f = open(self.path, "w")
        fcntl.flock(self.f, fcntl.LOCK_EX)
        return self

    def __exit__(self, *a):
        fcntl.flock(self.f, fcntl.LOCK_UN)
        self.f.close()


# --------------------------------------------------------------------------------------------
# stage 1: translate generated Rust -> Lean data (+ harness glue)

def translate_all(ctx, probes=()):
    """Everything under lean/Rspirv/Generated is regenerated from the working tree on every run of every check: the
    translated sources (`translate_sources`) and the table extracted by executing the finite-domain functions
    (`Generated/Extracted.lean`: the reflect predicates on every opcode) — a check that reused an extraction made by an
    earlier run would judge the current tree against an older one. Caller holds the build lock."""
    T, fails = translate_sources(ctx)
    from props import common as _common
    import extract_read
    ok, err = build_harness(ctx, bins=("extract",))
    ext = None
    if ok:
        try:
            ext = extract_read.parse(run_extract(ctx, list(probes)))
            lean_emit.emit_extracted(ext, "Rspirv.Generated.Extracted", GEN + "/Extracted.lean",
                                     "extracted by executing grammar::reflect on every opcode")
        except RuntimeError as e:
            ctx.data["harness_error"] = str(e)
    else:
        ctx.data["harness_error"] = err
    ctx.data["ext"] = ext
    _common.emit_findings(ctx, ext)
    reference_parse_operand(ctx, T)
    return T, fails


REFERENCE_KEYS = {
    # translated table -> properties whose generators / oracles would otherwise be blind to a change of the generated file
    "decode": ("C11", "C03", "C02"),
    "operand_enum": ("C02", "C01", "C17"),
    "asm_arms": ("C02", "C01"),
    "parse_operand": ("C02", "C03", "C06", "C17"),
    "disas_operand": ("C07", "C20"),
}


def reference_parse_operand(ctx, T):
    """The Lean tables were emitted from the translation of the generated Rust files above, so model and code agree on them by
    construction — and a generator/oracle fed with the same translation would be blind to a change *of such a file* (an arm that reads
    the right words into the wrong `Operand` variants, parameter rows of a mask in another order, a decoder method reporting another
    error kind). The generators and oracles therefore take these tables from the pinned snapshot of the generator's output for this
    grammar (reference/pinned-T.json, the stand-in for the Khronos grammar, DESIGN §7); whether the translation still equals it is an
    obligation of the properties listed in REFERENCE_KEYS."""
    ref = json.load(open(os.path.join(VERIF, "reference", "pinned-T.json")))
    pinned = None
    out = {}
    for key in REFERENCE_KEYS:
        if key not in T:
            continue
        cur = json.loads(json.dumps(T[key]))
        if cur == ref[key]:
            out[key] = []
            continue
        diffs = []

        def walk(a, b, path):
            if len(diffs) >= 20:
                return
            if isinstance(a, dict) and isinstance(b, dict):
                for k in sorted(set(a) | set(b), key=str):
                    if a.get(k) != b.get(k):
                        walk(a.get(k), b.get(k), path + [str(k)])
            elif isinstance(a, list) and isinstance(b, list) and len(a) == len(b) and len(path) < 4:
                for j, (x, y) in enumerate(zip(a, b)):
                    if x != y:
                        walk(x, y, path + [str(j)])
            else:
                diffs.append(f"{'/'.join(path)}: {json.dumps(a)[:160]} (pinned: {json.dumps(b)[:160]})")
        walk(cur, ref[key], [key])
        out[key] = diffs or [key + " differs"]
        pinned = pinned or load_pinned_T()
        T[key] = pinned[key]
    # the grammar tables and the header: C08 / C09 (and C16 through the extraction) own the comparison with the pinned snapshot and
    # need the translation itself; every other property's generators and oracles are made independent of the working tree's tables
    if ctx.prop not in ("C08", "C09", "C16"):
        for key in ("core", "glsl", "opencl", "header"):
            if key not in T:
                continue
            cur = json.loads(json.dumps(T[key]))
            if key == "header":
                cur = {k: v for k, v in cur.items() if k != "enum_by_name"}
            if cur != ref[key]:
                pinned = pinned or load_pinned_T()
                T[key] = pinned[key]
                out.setdefault("substituted", []).append(key)
    ctx.data["reference_diffs"] = out


def oblige_reference(ctx):
    """obligations for `reference_parse_operand`; returns the diffs relevant to this property"""
    out = ctx.data.get("reference_diffs") or {}
    mine = []
    for key, props in REFERENCE_KEYS.items():
        if ctx.prop in props and key in out and key != "substituted":
            ctx.oblige(f"reference: the table translated from the generated file behind `{key}` equals the pinned snapshot for this grammar", not out[key])
            mine += out[key]
    return mine


def translate_sources(ctx):
    """Returns dict of translated python data; failures are recorded as broken `translate:` obligations
    (a broken tie, not a crash)."""
    from translate import spirv_header, grammar_tables
    T = {}
    fails = {}

    def attempt(key, fn):
        try:
            T[key] = fn()
        except TranslateError as e:
            fails[key] = e
        except FileNotFoundError as e:
            fails[key] = TranslateError(str(e.filename), key, "file missing")

    attempt("header", lambda: spirv_header.parse(read(f"{REPO}/spirv/autogen_spirv.rs")))
    attempt("core", lambda: grammar_tables.parse_core(read(f"{REPO}/rspirv/grammar/autogen_table.rs")))
    attempt("glsl", lambda: grammar_tables.parse_ext(read(f"{REPO}/rspirv/grammar/autogen_glsl_std_450.rs"),
                                                     "rspirv/grammar/autogen_glsl_std_450.rs", "GLSL_STD_450_INSTRUCTION_TABLE"))
    attempt("opencl", lambda: grammar_tables.parse_ext(read(f"{REPO}/rspirv/grammar/autogen_opencl_std_100.rs"),
                                                       "rspirv/grammar/autogen_opencl_std_100.rs", "OPENCL_STD_100_INSTRUCTION_TABLE"))
    from translate import traversals

    def trav():
        R = traversals.parse(read(f"{REPO}/rspirv/dr/constructs.rs"), read(f"{REPO}/rspirv/binary/assemble.rs"))
        lean_emit.emit_traversals(R, "Rspirv.Generated.Traversals", f"{GEN}/Traversals.lean",
                                  "from rspirv/dr/constructs.rs and rspirv/binary/assemble.rs")
        return R
    attempt("traversals", trav)
    from translate import decode_operand
    attempt("decode", lambda: decode_operand.parse(read(f"{REPO}/rspirv/binary/autogen_decode_operand.rs")))
    if "decode" in T:
        glue_gen.gen_decode(T["decode"], f"{HARNESS}/src/glue_decode.rs")
        if "header" in T:
            lean_emit.emit_decode(T["decode"], T["header"], "Rspirv.Generated.Decode", f"{GEN}/Decode.lean",
                                  "from rspirv/binary/autogen_decode_operand.rs")
    from translate import operand as operand_tr, parse_operand
    attempt("operand_enum", lambda: operand_tr.parse_enum(read(f"{REPO}/rspirv/dr/autogen_operand.rs"))[0])
    attempt("asm_arms", lambda: operand_tr.parse_assemble_arms(read(f"{REPO}/rspirv/binary/assemble.rs")))
    attempt("parse_operand", lambda: parse_operand.parse(read(f"{REPO}/rspirv/binary/autogen_parse_operand.rs")))
    from translate import operand_reflect
    attempt("operand_reflect", lambda: operand_reflect.parse(read(f"{REPO}/rspirv/dr/autogen_operand.rs")))
    if "operand_enum" in T and "header" in T:
        glue_gen.gen_operand_full(T["operand_enum"], T["header"], f"{HARNESS}/src/glue_operand.rs", T.get("operand_reflect"))
    if all(k in T for k in ("operand_enum", "asm_arms", "parse_operand", "decode", "header", "core")):
        try:
            lean_emit.emit_operands(T, "Rspirv.Generated.Operands", f"{GEN}/Operands.lean",
                                    "from dr/autogen_operand.rs, binary/assemble.rs, binary/autogen_parse_operand.rs")
        except TranslateError as e:
            fails["operands"] = e
        except (KeyError, StopIteration) as e:
            fails["operands"] = TranslateError("rspirv/binary/autogen_parse_operand.rs", "name resolution", f"unknown name {e}")
    from translate import builder as builder_tr
    attempt("builder", lambda: builder_tr.parse_all(lambda rel: read(f"{REPO}/{rel}")))
    if "builder" in T and "header" in T:
        glue_gen.gen_builder(T["builder"], T["header"], f"{HARNESS}/src/glue_builder.rs")
        if "operand_enum" in T:
            try:
                lean_emit.emit_builder(T, "Rspirv.Generated.Builder", f"{GEN}/Builder.lean", "from rspirv/dr/build/autogen_*.rs")
            except TranslateError as e:
                fails["builder"] = e
    if all(k in T for k in ("operand_reflect", "operand_enum", "header", "core")):
        try:
            lean_emit.emit_reflect(T, "Rspirv.Generated.Reflect", f"{GEN}/Reflect.lean", "from rspirv/dr/autogen_operand.rs")
        except TranslateError as e:
            fails["operand_reflect"] = e
        except (KeyError, StopIteration) as e:
            fails["operand_reflect"] = TranslateError("rspirv/dr/autogen_operand.rs", "name resolution", f"unknown name {e}")
    from translate import disas_operand
    attempt("disas_operand", lambda: (disas_operand.parse(read(f"{REPO}/rspirv/binary/autogen_disas_operand.rs")),
                                      disas_operand.parse_dispatch(read(f"{REPO}/rspirv/binary/disassemble.rs"))))
    if all(k in T for k in ("disas_operand", "operand_enum", "header")):
        try:
            lean_emit.emit_disas(T, "Rspirv.Generated.Disas", f"{GEN}/Disas.lean",
                                 "from rspirv/binary/autogen_disas_operand.rs and the dispatcher in disassemble.rs")
        except TranslateError as e:
            fails["disas_operand"] = e
    from translate import lift_context

    def lift():
        R = lift_context.parse(read(f"{REPO}/rspirv/lift/autogen_context.rs"))
        ops_src = read(f"{REPO}/rspirv/sr/autogen_ops.rs")
        decls = {"Op": lift_context.parse_enum_decl(ops_src, "rspirv/sr/autogen_ops.rs", "Op"),
                 "Branch": lift_context.parse_enum_decl(ops_src, "rspirv/sr/autogen_ops.rs", "Branch"),
                 "Terminator": lift_context.parse_enum_decl(ops_src, "rspirv/sr/autogen_ops.rs", "Terminator"),
                 "Type": lift_context.parse_enum_decl(read(f"{REPO}/rspirv/sr/autogen_types.rs"), "rspirv/sr/autogen_types.rs", "Type"),
                 "structs": lift_context.parse_struct_decls(read(f"{REPO}/rspirv/sr/autogen_instructions.rs"), "rspirv/sr/autogen_instructions.rs")}
        return R, decls
    attempt("lift", lift)
    if all(k in T for k in ("lift", "operand_enum")):
        try:
            lean_emit.emit_lift(T, "Rspirv.Generated.Lift", f"{GEN}/Lift.lean",
                                "from rspirv/lift/autogen_context.rs and rspirv/sr/autogen_{ops,types,instructions}.rs")
        except TranslateError as e:
            fails["lift"] = e
        except KeyError as e:
            fails["lift"] = TranslateError("rspirv/lift/autogen_context.rs", "name resolution", f"unknown operand variant {e}")
    ctx.data["T"] = T
    ctx.data["translate_fails"] = fails
    if "header" in T:
        lean_emit.emit_spirv_header(T["header"], "Rspirv.Generated.Spirv", f"{GEN}/Spirv.lean", "from spirv/autogen_spirv.rs")
        glue_gen.gen_enums(T["header"], f"{HARNESS}/src/glue_enums.rs")
    if all(k in T for k in ("header", "core", "glsl", "opencl")):
        opv = op_values(T["header"])
        kinds, core = T["core"]
        missing = [r["name"] for r in core if r["name"] not in opv]
        if missing:
            fails["core"] = TranslateError("rspirv/grammar/autogen_table.rs", missing[0], "inst! names an opcode that spirv::Op does not declare")
        else:
            lean_emit.emit_grammar(kinds, core, T["glsl"], T["opencl"], opv, "Rspirv.Generated.Grammar",
                                   f"{GEN}/Grammar.lean", "from rspirv/grammar/autogen_*.rs")
    return T, fails


def op_values(hdr):
    e = hdr["enum_by_name"]["Op"]
    v = dict(e["decl"])
    for a, t in e["aliases"]:
        v[a] = v[t]
    return v


def need(ctx, *keys):
    """Record a violation for every translator this property depends on that failed; True if all present."""
    ok = True
    for k in keys:
        e = ctx.data["translate_fails"].get(k)
        if e is not None:
            ok = False
            ctx.oblige(f"translate:{e.file}", False)
            ctx.issue(f"translate:{e.file}:{e.item}",
                      f"strict translator no longer accounts for the source: {e.msg}",
                      witness={"file": e.file, "item": e.item, "message": e.msg})
        else:
            ctx.oblige(f"translate:{k}", True)
    return ok


# --------------------------------------------------------------------------------------------
# stage 2: harness build + extraction

def build_harness(ctx, bins=("extract",)):
    args = ["cargo", "build", "--offline", "--quiet"]
    for b in bins:
        args += ["--bin", b]
    rc, out, err = run(args, cwd=HARNESS)
    if rc != 0:
        ctx.log("harness build failed:\n" + err[-3000:])
        return False, err
    return True, ""


def run_extract(ctx, probes):
    rc, out, err = run([os.path.join(HBIN, "extract")], inp="\n".join(probes) + "\n")
    if rc != 0:
        raise RuntimeError("extractor failed: " + err[-2000:])
    return out


def run_driver(ctx, lines, timeout=3600):
    rc, out, err = run([DRIVER], inp="\n".join(lines) + "\n", timeout=timeout)
    if rc != 0:
        raise RuntimeError("driver failed: " + err[-2000:])
    return out.splitlines()


# --------------------------------------------------------------------------------------------
# stage 3: lake build + audit

def lake_build(ctx, targets):
    """Build the given lake targets. Returns (ok, output)."""
    rc, out, err = run(["lake", "build"] + list(targets), cwd=LEAN)
    return rc == 0, out + err


_DECL_ERR = re.compile(r"error: ([^:\n]+\.lean):(\d+):(\d+): (.*)")


def lean_errors(output):
    errs = []
    for m in _DECL_ERR.finditer(output):
        errs.append({"file": m.group(1), "line": int(m.group(2)), "msg": m.group(4)})
    return errs


def theorem_at(path, line):
    """Name of the theorem enclosing a source line (for reporting which obligation broke)."""
    try:
        src = read(os.path.join(LEAN, path)).splitlines()
    except OSError:
        return "?"
    for i in range(min(line, len(src)) - 1, -1, -1):
        m = re.match(r"\s*(?:private\s+)?(?:theorem|lemma|example|def|instance)\s+([A-Za-z0-9_.']+)?", src[i])
        if m:
            return m.group(1) or f"example@{i + 1}"
    return "?"


FORBIDDEN = re.compile(r"\b(sorry|admit|native_decide|bv_decide|implemented_by|unsafe)\b|^\s*axiom\s|maxHeartbeats\s+0")


def audit_sources(ctx, files):
    """grep for forbidden constructs outside comments."""
    bad = []
    for rel in files:
        path = os.path.join(LEAN, rel)
        if not os.path.exists(path):
            continue
        text = read(path)
        text = re.sub(r"/-.*?-/", lambda m: "\n" * m.group(0).count("\n"), text, flags=re.S)
        for i, l in enumerate(text.splitlines(), 1):
            l = l.split("--")[0]
            if FORBIDDEN.search(l):
                bad.append(f"{rel}:{i}: {l.strip()}")
    return bad


def audit_axioms(ctx, module, theorems, also=()):
    """`#print axioms` of every property theorem; returns dict name -> set(axioms) (None if it does not exist)."""
    src = f"import {module}\n" + "".join(f"import {m}\n" for m in also) + "\n".join(f"#print axioms {t}" for t in theorems) + "\n"
    os.makedirs(os.path.join(BUILD, "audit"), exist_ok=True)
    path = os.path.join(BUILD, "audit", f"{ctx.prop}_{module.replace('.', '_')}.lean")
    with open(path, "w") as f:
        f.write(src)
    rc, out, err = run(["lake", "env", "lean", path], cwd=LEAN)
    res = {}
    text = out + err
    for t in theorems:
        m = re.search(r"'" + re.escape(t) + r"' depends on axioms: \[([^\]]*)\]", text, flags=re.S)
        if m:
            res[t] = {a.strip() for a in m.group(1).replace("\n", " ").split(",") if a.strip()}
        elif re.search(r"'" + re.escape(t) + r"' does not depend on any axioms", text):
            res[t] = set()
        else:
            res[t] = None
    return res, text


def prove(ctx, module, theorems, extra_targets=(), files=()):
    """Build a property module, audit it, record obligations. Returns list of failing theorem names."""
    ok, out = lake_build(ctx, [module] + list(extra_targets))
    failing = []
    if not ok:
        errs = lean_errors(out)
        names = []
        for e in errs:
            names.append((theorem_at(e["file"], e["line"]), e))
        if not names:
            names = [("<build>", {"file": "?", "line": 0, "msg": out[-1500:]})]
        seen = set()
        for n, e in names:
            if n in seen:
                continue
            seen.add(n)
            failing.append((n, e))
        ctx.data.setdefault("lean_output", []).append(out[-6000:])
    bad = audit_sources(ctx, files)
    for b in bad:
        failing.append(("audit:" + b, {"file": b, "line": 0, "msg": "forbidden construct"}))
    axioms_seen = set()
    if ok:
        ax, text = audit_axioms(ctx, module, theorems, also=[t for t in extra_targets if t.startswith("Rspirv.")])
        for t in theorems:
            a = ax.get(t)
            if a is None:
                failing.append((t, {"file": module, "line": 0, "msg": "theorem missing from the built module"}))
            elif not a <= ALLOWED_AXIOMS:
                failing.append((t, {"file": module, "line": 0, "msg": f"depends on axioms {sorted(a - ALLOWED_AXIOMS)}"}))
            else:
                axioms_seen |= a
    if ok and ctx.tier == "thorough":
        # independent re-check of the compiled property modules (declarations replayed through the kernel by `leanchecker`)
        mods = sorted({module} | {f[:-5].replace("/", ".") for f in files if f.startswith("Rspirv/Props/") and f.endswith(".lean")})
        from concurrent.futures import ThreadPoolExecutor

        def recheck(m):
            p = subprocess.run(["lake", "env", "leanchecker", m], cwd=LEAN, capture_output=True, text=True)
            return m, p.returncode, (p.stdout + p.stderr)[-600:]
        with ThreadPoolExecutor(max_workers=8) as ex:
            for m, rc, out in ex.map(recheck, mods):
                ctx.oblige(f"leanchecker:{m}", rc == 0)
                if rc != 0:
                    failing.append((f"leanchecker:{m}", {"file": m, "line": 0, "msg": "leanchecker rejects the compiled module: " + out}))
        ctx.coverage["leanchecker_modules"] = len(mods)
    fail_names = {n for n, _ in failing}
    for t in theorems:
        ctx.oblige(f"{module}.{t}", ok and t not in fail_names)
    if not ok:
        for n, e in failing:
            if n not in theorems:
                ctx.oblige(f"{module}:{n}", False)
    ctx.data.setdefault("axioms", set()).update(axioms_seen)
    return failing


# --------------------------------------------------------------------------------------------
# findings + evidence + exit

def load_known():
    p = os.path.join(VERIF, "known_findings.json")
    if not os.path.exists(p):
        return []
    return json.load(open(p))["findings"]


def finish(ctx, level="proof", checker_cmd=None, rule="", trusted=None):
    known = [k for k in load_known() if k["property"] == ctx.prop and k.get("status") == "known"]
    known_keys = {k["key"]: k for k in known}
    refdiffs = oblige_reference(ctx)
    if refdiffs and not any(i.found_input and i.key not in known_keys for i in ctx.issues):
        ctx.issue("reference:tables", "a generated table no longer equals the pinned snapshot of the generator's output for this grammar: "
                  + "; ".join(refdiffs[:3]), witness={"diffs": refdiffs[:20]})
    violations, known_hit = [], []
    for i in ctx.issues:
        if i.key in known_keys:
            known_hit.append(i)
        else:
            violations.append(i)
    os.makedirs(os.path.join(VERIF, "replays"), exist_ok=True)
    os.makedirs(os.path.join(VERIF, "evidence"), exist_ok=True)
    printed = set()
    for i in known_hit:
        if i.key in printed:
            continue
        printed.add(i.key)
        print(f"KNOWN-FINDING: property={ctx.prop} {i.key}: {known_keys[i.key]['what']}")
    vio_lines = []
    for n, i in enumerate(violations):
        safe = re.sub(r"[^A-Za-z0-9_.-]+", "_", i.key)[:80]
        rp = os.path.join(VERIF, "replays", f"{ctx.prop}-{safe}.json")
        with open(rp, "w") as f:
            json.dump(dict(i.to_json(), tier=ctx.tier, seed=ctx.seed,
                           replay_cmd=f"./check {ctx.prop} --replay {rp}"), f, indent=1, default=str)
        tail = "" if i.found_input else " no-failing-input-found"
        vio_lines.append(f"VIOLATION property={ctx.prop} replay={rp}{tail}")
    nob = len(ctx.obligations)
    ndis = sum(1 for _, ok in ctx.obligations if ok)
    cov = {
        "obligations": nob, "discharged": ndis,
        "checker_cmd": checker_cmd or "lake build (Lean 4.33.0 kernel) + #print axioms audit",
        "trusted_base": sorted(ctx.data.get("axioms", set())) + (trusted or []),
        "evaluations": ctx.evaluations, "distinct_nontrivial": len(ctx.distinct), "rule": rule,
        "samples": ctx.samples[:12] if ctx.samples else [o for o, _ in ctx.obligations[:6]],
        "obligation_list": [{"name": n, "discharged": ok} for n, ok in ctx.obligations],
        "known_findings_printed": sorted(printed),
    }
    cov.update(ctx.coverage)
    ev = {"property_id": ctx.prop, "tier": ctx.tier, "seed": ctx.seed, "level": level, "coverage": cov,
          "assumptions": ctx.assumptions, "wall_s": round(time.time() - ctx.t0, 2), "violations": len(violations)}
    with open(os.path.join(VERIF, "evidence", f"{ctx.prop}.json"), "w") as f:
        json.dump(ev, f, indent=1, default=str)
    for l in vio_lines:
        print(l)
    if not violations:
        print(f"OK property={ctx.prop} tier={ctx.tier} obligations={ndis}/{nob} evaluations={ctx.evaluations} wall={ev['wall_s']}s")
    return 1 if violations else 0


# --------------------------------------------------------------------------------------------
# differential correspondence (hand-written code <-> hand-written Lean model)

IMPL = os.path.join(HBIN, "impl")


def run_impl(ctx, lines, timeout=3600):
    if os.environ.get("VERIF_SAVE_REQS"):          # author-side: record the request stream (coverage measurement of the tie)
        with open(os.path.join(os.environ["VERIF_SAVE_REQS"], f"{ctx.prop}.txt"), "a") as f:
            f.write("\n".join(lines) + "\n")
    results, rest, deaths = [], [l for l in lines], 0
    while True:
        rc, out, err = run([IMPL], inp="\n".join(rest) + "\n", timeout=timeout)
        got = out.splitlines()
        if rc == 0:
            return results + got
        # the process died (stack overflow, abort, illegal instruction: nothing `catch_unwind` can contain). Every answer is flushed before
        # the next request is read, so the request after the last answer is the one that killed it: it is answered `panic ...` (a crash is a
        # crash for every property that excludes panics) and the remaining requests go to a fresh process
        nonempty = [k for k, l in enumerate(rest) if l]
        if len(got) >= len(nonempty) or deaths >= 2000:
            raise RuntimeError(f"harness impl died rc={rc}: " + err[-2000:])
        deaths += 1
        killer = nonempty[len(got)]
        results += got + [f"panic the process died with status {rc} on this request: " + " ".join(err[-300:].split())]
        ctx.log(f"the implementation process died (rc={rc}) on request: {rest[killer][:200]}")
        rest = rest[killer + 1:]
        if not rest:
            return results


def canon(resp):
    """panic messages are kept for the replay only"""
    return "panic" if resp.startswith("panic") else resp


def shrink_request(ctx, req, still_differs, max_steps=200, keep=1):
    """Delta-debug the space-separated tokens after the first `keep` ones; returns a minimal request that still differs."""
    allt = req.split(" ")
    head, toks = " ".join(allt[:keep]), allt[keep:]
    steps = 0
    n = 2
    while len(toks) >= 2 and steps < max_steps:
        chunk = max(1, len(toks) // n)
        reduced = False
        for i in range(0, len(toks), chunk):
            cand = toks[:i] + toks[i + chunk:]
            steps += 1
            if cand and still_differs(" ".join([head] + cand)):
                toks = cand
                n = max(n - 1, 2)
                reduced = True
                break
        if not reduced:
            if chunk == 1:
                break
            n = min(n * 2, len(toks))
    return " ".join([head] + toks)


def differential(ctx, reqs, channel, shrink=True, max_report=5, oracle=None, keep=1, equal=None):
    """Run the same requests through the real code and the Lean model; report disagreements (kind
    'correspondence') and, separately, failures of a property oracle evaluated on the implementation's
    answers (kind 'oracle'). Returns (impl_lines, model_lines)."""
    impl = run_impl(ctx, reqs)
    model = run_driver(ctx, reqs)
    if len(impl) != len(reqs) or len(model) != len(reqs):
        ctx.issue(f"correspondence:{channel}:length", "response count differs from request count",
                  witness={"requests": len(reqs), "impl": len(impl), "model": len(model)})
        ctx.oblige(f"correspondence:{channel}", False)
        return impl, model
    ctx.evaluations += len(reqs)
    same = equal or (lambda a, b: canon(a) == canon(b))
    bad = [(r, a, b) for r, a, b in zip(reqs, impl, model) if not same(a, b)]

    def differs(r):
        a = run_impl(ctx, [r])
        b = run_driver(ctx, [r])
        return len(a) == 1 and len(b) == 1 and not same(a[0], b[0]) and "bad-request" not in (a[0], b[0])

    for r, a, b in bad[:max_report]:
        small = shrink_request(ctx, r, differs, keep=keep) if shrink else r
        a2, b2 = run_impl(ctx, [small])[0], run_driver(ctx, [small])[0]
        if same(a2, b2) and not shrink:
            # they agree when the request is issued alone: the implementation's answer depends on earlier requests to the same process
            j = reqs.index(r)
            hist = reqs[max(0, j - 8):j]
            ctx.issue(f"correspondence:{channel}:history:{r[:110]}", "implementation and Lean model disagree after earlier requests to the same "
                      "process (they agree when the request is issued alone): state survives between calls",
                      witness={"request": r, "history": [h[:4000] for h in hist], "implementation": a, "model": b, "alone": a2},
                      found_input=True, kind="correspondence")
            continue
        ctx.issue(f"correspondence:{channel}:{small[:120]}", "implementation and Lean model disagree",
                  witness={"request": small, "implementation": a2, "model": b2, "original_request": r},
                  found_input=True, kind="correspondence")
    ctx.oblige(f"correspondence:{channel} ({len(reqs)} requests)", not bad)
    if oracle is not None:
        obad = []
        for r, a in zip(reqs, impl):
            msg = oracle(r, a)
            if msg:
                obad.append((r, a, msg))

        for r, a, msg in obad[:max_report]:
            small = r
            if shrink:
                small = shrink_request(ctx, r, lambda q: bool(oracle(q, run_impl(ctx, [q])[0])), keep=keep)
            a2 = run_impl(ctx, [small])[0]
            msg2 = oracle(small, a2)
            if msg2:
                ctx.issue(f"oracle:{channel}:{small[:120]}", "the property fails on the implementation: " + msg2,
                          witness={"request": small, "implementation": a2}, found_input=True, kind="oracle")
                continue
            # the failure does not show when the request is issued alone: it depends on the requests answered before it by the same
            # process (state that survives a call). Find a short history that reproduces it.
            j = reqs.index(r)
            hist = None
            for k in (1, 2, 4, 8, 16, 64, j):
                k = min(k, j)
                answers = run_impl(ctx, reqs[j - k:j + 1])
                if answers and oracle(r, answers[-1]):
                    hist = (reqs[j - k:j], answers[-1])
                    break
            if hist is None:
                hist = (reqs[:j], a)
            ctx.issue(f"oracle:{channel}:history:{r[:110]}", "the property fails on the implementation after earlier requests to the same process "
                      "(it holds when the request is issued alone): " + msg,
                      witness={"request": r, "history": [h[:4000] for h in hist[0]][-64:], "implementation": hist[1], "alone": a2},
                      found_input=True, kind="oracle")
        ctx.oblige(f"oracle:{channel} ({len(reqs)} requests)", not obad)
    return impl, model


def load_pinned_T():
    """translator outputs at the pinned commit (+ the fix: commits): fallback *generator* tables when a translator
    no longer accepts the working tree, so that the search for a failing input can still run on the implementation."""
    T = json.load(open(os.path.join(VERIF, "reference", "pinned-T.json")))

    def tup(o):
        if isinstance(o, list):
            return tuple(tup(x) for x in o)
        return o
    hdr = T["header"]
    for e in hdr["enums"]:
        e["decl"] = [tuple(x) for x in e["decl"]]
        e["aliases"] = [tuple(x) for x in e["aliases"]]
    for m in hdr["masks"]:
        m["consts"] = [tuple(x) for x in m["consts"]]
    hdr["enum_by_name"] = {e["name"]: e for e in hdr["enums"]}
    T["core"] = (T["core"][0], [dict(r, ops=[tuple(o) for o in r["ops"]]) for r in T["core"][1]])
    T["operand_enum"] = [tuple(x) for x in T["operand_enum"]]
    pk, pf = T["parse_operand"]
    T["parse_operand"] = ({k: tup(v) for k, v in pk.items()}, {k: tup(v) for k, v in pf.items()})
    if "disas_operand" in T:
        tabs, disp = T["disas_operand"]
        T["disas_operand"] = ([dict(t, rows=[tuple(r) for r in t["rows"]]) for t in tabs], tuple(disp))
    return T


def oracle_search(ctx, reqs, oracle, channel, max_report=3, keep=1):
    """The proof side or the tie is broken: run the implementation alone and look for an input on which the
    property's oracle fails. Returns True if one was found (and reported)."""
    impl = run_impl(ctx, reqs)
    ctx.evaluations += len(reqs)
    found = 0
    for r, a in zip(reqs, impl):
        msg = oracle(r, a)
        if msg:
            ctx.issue(f"oracle:{channel}:{r[:100]}", "the property fails on the implementation: " + msg,
                      witness={"request": r, "implementation": a}, found_input=True, kind="oracle")
            found += 1
            if found >= max_report:
                break
    return found > 0
