"""C14 — the parser drives the consumer in protocol order and obeys its actions."""
import json
import random
import re
import checklib as C
import instgen
from props import common

MODULE = "Rspirv.Props.C14"
THEOREMS = ["Rspirv.Props.C14.good_consumer", "Rspirv.Props.C14.good_parse_err", "Rspirv.Props.C14.good_ok",
            "Rspirv.Props.C14.loop_spec", "Rspirv.Props.C14.parseHeader_not_consumer", "Rspirv.Props.C14.C14",
            "Rspirv.Props.C14.C14_ok_trace"]
NEEDS = ("header", "core", "decode", "operand_enum", "asm_arms", "parse_operand", "operands")


def oracle(req, resp):
    if resp.startswith("panic"):
        return "panicked: " + resp[6:80]
    parts = resp.split(" | ")
    st, trace = parts[0], parts[1][6:]
    script = {}
    for t in req.split(" ")[2:]:
        k, a = t.split(":")
        script.setdefault(int(k), a)
    if not re.fullmatch(r"I(Hi*F?)?", trace):
        return f"callbacks out of protocol order: {trace}"
    n = len(trace)
    for j in range(n - 1):
        if j in script:
            return f"callback {j} answered {script[j]} but {n - 1 - j} more callbacks were made"
    last = script.get(n - 1)
    if last == "s" and st != "ConsumerStopRequested":
        return f"consumer answered stop at callback {n - 1}, result is {st}"
    if last == "e" and st != f"ConsumerError:script{n - 1}":
        return f"consumer answered error at callback {n - 1}, result is {st} (the consumer's own value must be carried)"
    if last in ("p", "q", "c") and not st.startswith("ConsumerError:state:"):
        return f"consumer answered error (its value a ParseState) at callback {n - 1}, result is {st}: not the consumer-error result carrying it"
    if last is None and st.startswith("Consumer"):
        return f"result {st} although every callback was answered continue"
    if st == "ok" and not trace.endswith("F"):
        return "successful parse without finalize"
    if trace.endswith("F") and not (st == "ok" or last is not None):
        return f"finalize was called although the parse failed with {st}"
    return None


def run(ctx):
    with C.Lock():
        T, fails = C.translate_all(ctx)
        hok, herr = C.build_harness(ctx, bins=("impl",))
        have = C.need(ctx, *NEEDS)
        failing = C.prove(ctx, MODULE, THEOREMS, extra_targets=["driver"],
                          files=["Rspirv/Props/C14.lean", "Rspirv/Model/Parser.lean"]) if have else []
    for n, e in failing:
        ctx.issue(f"theorem:{n}", f"Lean obligation no longer checks: {e['msg'][:300]}", witness=e)
    if not hok:
        ctx.issue("harness-build", "the harness no longer builds against the working tree: " + herr[-400:])
        return C.finish(ctx)
    if not have or any(n == "<build>" for n, _ in failing):
        return C.finish(ctx)
    rnd = random.Random(ctx.seed)
    g = instgen.Gen(T, rnd)
    mg = instgen.ModuleGen(g, common.specclass())
    reqs = []
    for mi in range(12 if ctx.tier == "quick" else 80):
        insts = mg.module(size=0.5)
        words = instgen.module_words(insts)
        variants = [instgen.to_bytes(words)]
        if len(words) > 6:
            w2 = list(words); w2[rnd.randrange(5, len(w2))] = rnd.choice([0, 0xffffffff, 0x10000]); variants.append(instgen.to_bytes(w2))
            variants.append(instgen.to_bytes(words)[:rnd.randrange(0, 4 * len(words))])
        variants.append(b"")
        # malformed headers, through every entry point: byte-swapped magic (with and without a body), wrong magic, 19 and 20 bytes
        full = instgen.to_bytes(words)
        swapped = bytes(reversed(full[:4])) + full[4:]
        if mi < 3:
            variants += [swapped, swapped[:20], swapped[:24], b"\x00" * 4 + full[4:], full[:19], full[:20], swapped[:19]]
        for data in variants:
            hx = data.hex() or "-"
            n = len(insts) + 3
            # the three entry points: Parser::new(..).parse(), parse_bytes, parse_words (whole words only)
            entries = ["parse", "parseb"] + (["parsew"] if len(data) % 4 == 0 else [])
            reqs.append(f"parse {hx}")
            for k in range(0, n + 1):          # every callback position, both answers
                reqs.append(f"parse {hx} {k}:s")
                reqs.append(f"parse {hx} {k}:e")
            # error answers whose boxed value is a ParseState: still ConsumerError carrying it, at every position
            for k in range(0, n + 1):
                reqs.append(f"parse {hx} {k}:{'pqc'[k % 3]}")
            for en in entries[1:]:
                reqs.append(f"{en} {hx}")
                for k in sorted({0, 1, 2, n - 1, n}):
                    if k >= 0:
                        reqs.append(f"{en} {hx} {k}:s")
                        reqs.append(f"{en} {hx} {k}:e")
            for _ in range(3):                   # two answers: only the first reached one may matter
                a, b = sorted(rnd.sample(range(n + 1), 2))
                reqs.append(f"parse {hx} {a}:{rnd.choice('se')} {b}:{rnd.choice('se')}")
    # the stream ends INSIDE an instruction, at every byte of it — for every kind of operand the parser reads by a different path: ids,
    # enumerants with parameters, strings, context-dependent literals of a declared 32/64-bit type and of an UNDECLARED type, switch cases
    # over a declared and an undeclared selector. A parse error, so no `finalize` and an error result, through every entry point
    I_, Op_ = instgen.Inst, instgen.Op
    L32_, idr_ = g.vix["LiteralBit32"], g.vix["IdRef"]
    t64 = I_(g.opv["TypeInt"], "TypeInt", None, 1, [Op_("w", L32_, 64), Op_("w", L32_, 0)])
    t32 = I_(g.opv["TypeFloat"], "TypeFloat", None, 2, [Op_("w", L32_, 32)])
    sel = I_(g.opv["Undef"], "Undef", 1, 3, [])
    lasts = [([], I_(g.opv["Constant"], "Constant", 50, 5, g.literal(False))),
             ([], I_(g.opv["SpecConstant"], "SpecConstant", 50, 5, g.literal(False))),
             ([t64], I_(g.opv["Constant"], "Constant", 1, 5, g.literal(True))),
             ([t32], I_(g.opv["Constant"], "Constant", 2, 5, g.literal(False))),
             ([], I_(g.opv["Switch"], "Switch", None, None, [Op_("w", idr_, 60), Op_("w", idr_, 9)] + g.literal(False) + [Op_("w", idr_, 9)] + g.literal(False) + [Op_("w", idr_, 9)])),
             ([t64, sel], I_(g.opv["Switch"], "Switch", None, None, [Op_("w", idr_, 3), Op_("w", idr_, 9)] + g.literal(True) + [Op_("w", idr_, 9)])),
             ([], I_(g.opv["Name"], "Name", None, None, [Op_("w", idr_, 1), Op_("s", g.vix["LiteralString"], list(b"abcdefgh"))])),
             ([], I_(g.opv["ExecutionMode"], "ExecutionMode", None, None, [Op_("w", idr_, 1), Op_("w", g.vix["ExecutionMode"], 17), Op_("w", L32_, 1), Op_("w", L32_, 2), Op_("w", L32_, 3)]))]
    ntails = 0
    for pre, last in lasts:
        words = instgen.header()
        for i_ in pre:
            words += i_.words()
        full = instgen.to_bytes(words + last.words())
        start = 4 * len(words)
        for cut in range(start, len(full)):
            hx = full[:cut].hex()
            for en in ["parse", "parseb"] + (["parsew"] if cut % 4 == 0 else []):
                reqs.append(f"{en} {hx}")
                ntails += 1
            reqs.append(f"parse {hx} {len(pre) + 2}:s")
    # a 64-bit literal that is one word short INSIDE the stream (more instructions follow): a parse error at that instruction — no later
    # callback, no `finalize` — whatever the following words would decode to
    for tdecl in (t64, I_(g.opv["TypeFloat"], "TypeFloat", None, 1, [Op_("w", L32_, 64)])):
        for opname in ("Constant", "SpecConstant"):
            for tail in ([0x00010000 | g.opv["Nop"]], [0x00010000 | g.opv["NoLine"], 0x00010000 | g.opv["Nop"]],
                         [0x00030000 | g.opv["MemoryModel"], 0, 1], [0x00030000 | g.opv["Undef"], 1, 8, 0x00010000 | g.opv["NoLine"]]):
                w2 = instgen.header() + tdecl.words() + [4 << 16 | g.opv[opname], 1, 2, 7] + tail
                hx = instgen.to_bytes(w2).hex()
                for en in ("parse", "parseb", "parsew"):
                    reqs.append(f"{en} {hx}")
                    ntails += 1
    # a string that is not terminated inside its instruction (or is missing altogether), followed by instructions whose first byte is 0:
    # a parse error at that instruction, whatever a reader that runs past the instruction's last word would find
    for bad in ([3 << 16 | g.opv["Name"], 1, 0x64636261], [3 << 16 | g.opv["Decorate"], 1, 5635], [2 << 16 | g.opv["Extension"], 0x64636261],
                [4 << 16 | g.opv["Name"], 1, 0x64636261, 0x68676665]):
        for tail in ([0x00010000 | g.opv["Nop"]], [0x00010000 | g.opv["Nop"], 0x00010000 | g.opv["Nop"]], [0x00030000 | g.opv["MemoryModel"], 0, 1],
                     [0x00010000 | 0x100], [0x00020000 | g.opv["Capability"], 1]):
            hx = instgen.to_bytes(instgen.header() + bad + tail).hex()
            for en in ("parse", "parseb", "parsew"):
                reqs.append(f"{en} {hx}")
                ntails += 1
    # instructions of 4093 .. 5000 words (word counts beyond 12 bits), followed by further instructions: one callback each, in order
    for nmem in (4093, 4094, 4095, 5000):
        big = I_(g.opv["TypeStruct"], "TypeStruct", None, 1, [Op_("w", idr_, 2 + (k % 9)) for k in range(nmem)])
        w2 = instgen.header() + t32.words() + big.words() + [0x00020000 | g.opv["Capability"], 1, 0x00010000 | g.opv["Nop"]]
        hx = instgen.to_bytes(w2).hex()
        for en in ("parse", "parsew"):
            reqs.append(f"{en} {hx}")
        reqs.append(f"parse {hx} 3:s")
        reqs.append(f"parse {hx} 4:e")
    ctx.coverage["truncated_tails"] = ntails
    impl, model = C.differential(ctx, reqs, "parse-script", oracle=oracle, shrink=False)
    for r, a in zip(reqs, impl):
        p = a.split(" | ")
        ctx.distinct.add((p[0].split(":")[0], p[1]))
    ctx.coverage["results"] = {}
    for a in impl:
        k = a.split(" | ")[0].split(":")[0]
        ctx.coverage["results"][k] = ctx.coverage["results"].get(k, 0) + 1
    ctx.samples = [{"request": reqs[i][-60:], "implementation": impl[i][:120]} for i in (1, 5, len(reqs) // 2, len(reqs) - 1)]
    ctx.assumptions += ["the theorem is stated modulo 'the model does not panic' (excluded by C04's obligations and by the differential)",
                        "consumer = a function from the callback index to continue/stop/error (every well-behaved consumer's observable behaviour along one parse)"]
    return C.finish(ctx, level="proof", checker_cmd="lake build Rspirv.Props.C14 + #print axioms",
                    rule="seeded modules (valid, one word corrupted, truncated, empty) x every callback position k x {stop, error} + pairs of positions; the stream cut at every byte of a last instruction of every operand-reading path (ids, parameterised enumerants, strings, literals of declared and undeclared types, switch cases) through all three entry points; distinct non-trivial = distinct (result kind, trace) pairs",
                    trusted=["hand model Parser.lean + differential harness (scripted consumer)"])


def replay(ctx, path):
    r = json.load(open(path))
    req = (r.get("witness") or {}).get("request")
    if not req:
        return run(ctx)
    with C.Lock():
        C.translate_all(ctx)
        C.build_harness(ctx, bins=("impl",))
    hist = (r.get("witness") or {}).get("history") or []     # requests answered before it by the same process
    a, b = C.run_impl(ctx, hist + [req])[-1], C.run_driver(ctx, hist + [req])[-1]
    print("request:", req[:300]); print("implementation:", a[:300]); print("model:", b[:300]); print("oracle:", oracle(req, a))
    return 1 if C.canon(a) != C.canon(b) or oracle(req, a) else 0
