"""C05 — the loader accepts exactly well-bracketed function/block structure."""
import itertools
import json
import os
import random
import checklib as C
import instgen
from props import common

MODULE = "Rspirv.Props.Reload"
THEOREMS = ["Rspirv.Props.C05.step_refines", "Rspirv.Props.C05.run_refines", "Rspirv.Props.C05.finalize_refines",
            "Rspirv.Props.C05.C05_accept", "Rspirv.Props.C05.step_shape", "Rspirv.Props.C05.run_shape",
            "Rspirv.Props.C05.C05_shape", "Rspirv.Props.C05.sect_push", "Rspirv.Props.C05.step_sect",
            "Rspirv.Props.C05.run_sect", "Rspirv.Props.C05.C05_sections",
            "Rspirv.Props.Reload.classify_sect_le", "Rspirv.Props.Reload.step_cinv", "Rspirv.Props.Reload.canon_of_load",
            "Rspirv.Props.Reload.load_canon"]
NEEDS = ("header", "core", "decode", "operand_enum", "asm_arms", "parse_operand", "operands", "traversals")

# section of the logical layout per module-level class (DESIGN §7.3); independent of reflect.rs and of the model
SECTION_OF = {"Capability": "s0", "Extension": "s1", "ExtInstImport": "s2", "MemoryModel": "mm", "EntryPoint": "s4",
              "ExecutionMode": "s5", "ExecutionModeId": "s5", "String": "s6", "SourceExtension": "s6", "Source": "s6",
              "SourceContinued": "s6", "Name": "s7", "MemberName": "s7", "ModuleProcessed": "s8"}


# vendor / reserved constant instructions: module-scope by the opname rule, but the Builder emits them as block
# instructions and the property leaves "vendor-specified module-scope instructions" outside its claim (DESIGN §2 D10)
UNCLAIMED = {"ConstantPipeStorage", "ConstantStringAMDX", "SpecConstantStringAMDX", "ConstantFunctionPointerINTEL"}


def spec_class(name, sc_by_name):
    """class of an opcode by the specification (not by reflect.rs)"""
    if name in UNCLAIMED:
        return ("unclaimed",)
    if name in SECTION_OF:
        return ("mod", SECTION_OF[name])
    c = sc_by_name.get(name)
    if c == "locationDebug":
        return ("line",)
    if c == "annotation":
        return ("mod", "s9")
    if c in ("typeDecl", "constant"):
        return ("mod", "s10")
    if name in ("Variable", "Undef"):
        return ("var",)
    if name == "Function":
        return ("fn",)
    if name == "FunctionEnd":
        return ("fnEnd",)
    if name == "FunctionParameter":
        return ("param",)
    if name == "Label":
        return ("label",)
    if c in ("branch", "ret", "abort"):
        return ("term",)
    return ("other",)


def spec_run(classes):
    """the bracket automaton of the property, written from its statement: returns ('ok', placement) or ('err', name, k)"""
    st = "top"
    for k, c in enumerate(classes):
        t = c[0]
        if t in ("mod", "line"):
            continue
        if t == "var":
            if st == "inFn":
                return ("err", "DetachedInstruction", k)
        elif t == "fn":
            if st != "top":
                return ("err", "NestedFunction", k)
            st = "inFn"
        elif t == "fnEnd":
            if st == "top":
                return ("err", "MismatchedFunctionEnd", k)
            if st == "inBlock":
                return ("err", "UnclosedBlock", k)
            st = "top"
        elif t == "param":
            if st == "top":
                return ("err", "DetachedFunctionParameter", k)
        elif t == "label":
            if st == "top":
                return ("err", "DetachedBlock", k)
            if st == "inBlock":
                return ("err", "NestedBlock", k)
            st = "inBlock"
        elif t == "term":
            if st != "inBlock":
                return ("err", "MismatchedTerminator", k)
            st = "inFn"
        else:
            if st != "inBlock":
                return ("err", "DetachedInstruction", k)
    if st == "inBlock":
        return ("err", "UnclosedBlock", "fin")
    if st == "inFn":
        return ("err", "UnclosedFunction", "fin")
    return ("ok",)


def run(ctx):
    with C.Lock():
        T, fails = C.translate_all(ctx)
        hok, herr = C.build_harness(ctx, bins=("impl",))
        have = C.need(ctx, *NEEDS)
        failing = C.prove(ctx, MODULE, THEOREMS, extra_targets=["driver"],
                          files=["Rspirv/Props/C05.lean", "Rspirv/Props/Reload.lean", "Rspirv/Model/Loader.lean"]) if have else []
    for n, e in failing:
        ctx.issue(f"theorem:{n}", f"Lean obligation no longer checks: {e['msg'][:300]}", witness=e)
    if not hok:
        ctx.issue("harness-build", "the harness no longer builds against the working tree: " + herr[-400:])
        return C.finish(ctx)
    broken = (not have) or any(n == "<build>" for n, _ in failing)
    if broken:
        T = C.load_pinned_T()
    rnd = random.Random(ctx.seed)
    g = instgen.Gen(T, rnd)
    sc = common.specclass()
    sc_by_name = {}
    for c, d in sc.items():
        for n in d["names"]:
            sc_by_name[n] = c
    E = {r["name"]: r for r in g.core}
    known = common.known("C05")
    # representatives: one instruction per letter of the alphabet
    letters = {
        "m": g.inst(E["Capability"]), "L": g.inst(E["Line"]), "v": g.inst(E["Variable"]), "f": g.inst(E["Function"]),
        "e": g.inst(E["FunctionEnd"]), "p": g.inst(E["FunctionParameter"]), "l": g.inst(E["Label"]),
        "t": g.inst(E["Return"]), "o": g.inst(E["IAdd"]),
    }
    extra = {"u": g.inst(E["Undef"]), "T": g.inst(E["TypeVoid"]), "k": g.inst(E["Kill"]), "n": g.inst(E["Name"]),
             "b": g.inst(E["Branch"]), "M": g.inst(E["MemoryModel"]), "N": g.inst(E["NoLine"]), "x": g.inst(E["ExtInst"])}
    allL = dict(letters, **extra)
    meta = {}
    reqs = []

    def add(word):
        insts = [allL[c] for c in word]
        r = "load " + " ".join(i.text() for i in insts)
        if r not in meta:
            meta[r] = insts
            reqs.append(r)

    corpus = []
    cdir = os.path.join(C.VERIF, "corpus", "C05")
    for fn_ in sorted(os.listdir(cdir)):
        corpus += [l.strip() for l in open(os.path.join(cdir, fn_)) if l.strip()]
    maxlen = 5 if ctx.tier == "quick" else 6
    for n in range(0, maxlen + 1):
        for w in itertools.product("mLvfeplto", repeat=n):
            add("".join(w))
    ctx.coverage["exhaustive_upto_len"] = maxlen
    for _ in range(3000 if ctx.tier == "quick" else 40000):
        n = rnd.randrange(4, 30)
        # biased towards well-bracketed shapes
        if rnd.random() < 0.5:
            w = []
            for _ in range(rnd.randrange(0, 3)):
                w.append(rnd.choice("mTnMvuLN"))
            for _ in range(rnd.randrange(0, 3)):
                w.append("f")
                w += ["p"] * rnd.randrange(0, 2)
                for _ in range(rnd.randrange(0, 3)):
                    w.append("l")
                    for _ in range(rnd.randrange(0, 4)):
                        w.append(rnd.choice("ovuLxmNn"))
                    w.append(rnd.choice("tkb"))
                w.append("e")
            if rnd.random() < 0.5 and w:     # one mutation
                p = rnd.randrange(len(w))
                w[p] = rnd.choice(list(allL))
            add("".join(w))
        else:
            add("".join(rnd.choice(list(allL)) for _ in range(n)))
    # sweep: every opcode alone at module level, and inside an open block
    sweep = {}
    for r in g.core:
        i = g.inst(r)
        if len(i.words()) > 60000:
            continue
        r1 = "load " + i.text()
        meta[r1] = [i]; reqs.append(r1); sweep[r1] = r["name"]
        r2 = "load " + " ".join(x.text() for x in (allL["f"], allL["l"], i))
        meta[r2] = [allL["f"], allL["l"], i]; reqs.append(r2)

    def oracle(req, resp):
        if resp.startswith("panic"):
            return "panicked: " + resp[6:80]
        insts = meta.get(req)
        if insts is None:
            return None
        classes = [spec_class(i.name, sc_by_name) for i in insts]
        if any(c[0] == "unclaimed" for c in classes):
            return None
        exp = spec_run(classes)
        if exp[0] == "err":
            want = f"err {exp[1]}"
            if not (resp.startswith(want) and resp.endswith(f" at {exp[2]}")):
                return f"expected {exp[1]} at {exp[2]}, loader answered: {resp[:80]}"
            return None
        if not resp.startswith("ok "):
            return f"well-bracketed sequence rejected: {resp[:80]}"
        # placement of module-level instructions, shape of functions and blocks
        sections = {}
        fns = []
        for tok in resp[3:].split(" "):
            if tok == "F":
                fns.append({"blocks": []}); continue
            if tok == "B":
                fns[-1]["blocks"].append({}); continue
            k, v = tok.split(":", 1)
            if k in ("d", "e", "p"):
                fns[-1][k] = v
            elif k in ("l", "i"):
                fns[-1]["blocks"][-1][k] = v
            else:
                sections[k] = v
        st = "top"
        expect_sec = {}
        for i, c in zip(insts, classes):
            if c[0] == "mod":
                expect_sec.setdefault(c[1], []).append(i.text())
            elif c[0] == "line" and st != "inBlock":
                expect_sec.setdefault("s10", []).append(i.text())
            elif c[0] == "var" and st == "top":
                expect_sec.setdefault("s10", []).append(i.text())
            elif c[0] == "fn":
                st = "inFn"
            elif c[0] == "fnEnd":
                st = "top"
            elif c[0] == "label":
                st = "inBlock"
            elif c[0] == "term":
                st = "inFn"
        for s in ("s0", "s1", "s2", "s4", "s5", "s6", "s7", "s8", "s9", "s10"):
            got = [] if sections.get(s, "-") == "-" else sections[s].split("|")
            if got != expect_sec.get(s, []):
                return f"section {s} holds {got[:3]}, the logical layout demands {expect_sec.get(s, [])[:3]}"
        mm = expect_sec.get("mm", [])
        if mm and sections.get("mm") != mm[-1]:
            return "memory model not stored"
        for f in fns:
            if f.get("d", "-") == "-" or f.get("e", "-") == "-":
                return "function without its defining or ending instruction"
            for b in f["blocks"]:
                if b.get("l", "-") == "-" or b.get("i", "-") == "-":
                    return "block without label or terminator"
        return None

    def finding_key(req, msg):
        name = sweep.get(req)
        return f"C05:module-level:{name}" if name else None

    allreqs = corpus + reqs
    if broken:
        if C.oracle_search(ctx, allreqs, oracle, "load"):
            ctx.issues = [i for i in ctx.issues if i.found_input]
        return C.finish(ctx)
    impl, model = C.differential(ctx, allreqs, "load", oracle=oracle, shrink=False)
    res = {}
    for a in impl:
        k = a.split(" ")[1].split(":")[0] if a.startswith("err") else "ok"
        res[k] = res.get(k, 0) + 1
        ctx.distinct.add(a[:200])
    ctx.coverage["results"] = res
    ctx.coverage["opcode_sweep"] = len(sweep)
    ctx.samples = [{"request": allreqs[i][:160], "implementation": impl[i][:160]} for i in (0, 500, len(allreqs) // 2, len(allreqs) - 1)]
    ctx.assumptions += ["module-level classes = those the logical layout fixes by opcode alone (SpecClass + the explicit per-section lists); context-dependent / vendor module-scope instructions are outside the claim, as the property states",
                        "oracle = the bracket automaton written from the property's statement, independent of the Lean model and of reflect.rs"]
    return C.finish(ctx, level="proof", checker_cmd="lake build Rspirv.Props.C05 + #print axioms",
                    rule="all words of length <= 5 over the 9-letter alphabet {module-level, line, variable, function, end, parameter, label, terminator, other}, seeded longer words biased to well-bracketed shapes with one mutation over 17 representatives, and every core opcode alone at module level and inside an open block; distinct non-trivial = distinct responses",
                    trusted=["hand model Loader.lean + differential harness (chan/load.rs)", "SpecClass reference"])


def replay(ctx, path):
    r = json.load(open(path))
    req = (r.get("witness") or {}).get("request")
    if not req:
        return run(ctx)
    with C.Lock():
        C.translate_all(ctx)
        C.build_harness(ctx, bins=("impl",))
    hist = (r.get("witness") or {}).get("history") or []     # requests answered before it by the same process
    a, b = C.run_impl(ctx, hist + [req])[-1], C.run_driver(ctx, hist + [req])[-1]
    print("request:", req[:300]); print("implementation:", a[:300]); print("model:", b[:300])
    return 1 if C.canon(a) != C.canon(b) else 0
