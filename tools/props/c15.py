"""C15 — module traversals visit exactly the assembled instruction sequence."""
import itertools
import json
import random
import checklib as C

MODULE = "Rspirv.Props.C15"
THEOREMS = ["Rspirv.Props.C15.orders_ok", "Rspirv.Props.C15.C15_all_eq", "Rspirv.Props.C15.C15_mut",
            "Rspirv.Props.C15.C15_assemble", "Rspirv.Props.C15.C15_explicit",
            "Rspirv.Props.C15Inst.C15_inst_into", "Rspirv.Props.C15Inst.C15_inst_alone",
            "Rspirv.Props.C15Inst.foldl_into", "Rspirv.Props.C15Inst.moduleInto_eq", "Rspirv.Props.C15Inst.C15_module_into",
            "Rspirv.Props.C15Inst.chunks4_pack", "Rspirv.Props.C15Inst.C15_str_into", "Rspirv.Props.C15Inst.C15_full"]
SECT = ["s0", "s1", "s2", "mm", "s4", "s5", "s6", "s7", "s8", "s9", "s10"]


def gen_module(rnd, counter, full=False, only=None):
    """random module value; every optional part independently present/absent; instruction numbers are unique"""
    def fresh(n):
        out = []
        for _ in range(n):
            counter[0] += 1
            out.append(str(counter[0]))
        return ",".join(out) if out else "-"
    toks = [f"h:{rnd.randrange(2)}"]
    for s in SECT:
        if only is not None and s not in only:
            continue
        if s == "mm":
            toks.append("mm:" + (fresh(1) if (full or rnd.random() < 0.5) else "-"))
        else:
            toks.append(f"{s}:" + fresh(rnd.choice([0, 0, 1, 2, 3]) if not full else rnd.choice([1, 2])))
    for _ in range(rnd.choice([0, 0, 1, 2, 3])):
        toks.append("F")
        toks.append("d:" + (fresh(1) if rnd.random() < 0.7 else "-"))
        toks.append("e:" + (fresh(1) if rnd.random() < 0.7 else "-"))
        toks.append("p:" + fresh(rnd.choice([0, 0, 1, 2])))
        for _ in range(rnd.choice([0, 1, 1, 2, 3])):
            toks.append("B")
            toks.append("l:" + (fresh(1) if rnd.random() < 0.7 else "-"))
            toks.append("i:" + fresh(rnd.choice([0, 1, 2, 3])))
    return "trav " + " ".join(toks)


def ks(s):
    return [] if s == "-" else [int(x) for x in s.split(",")]


def oracle(req, resp):
    """C15 on the implementation's own answers: no model involved."""
    if not resp.startswith("ok "):
        return "call failed: " + resp
    d = dict(x.split(":", 1) for x in resp[3:].split(" "))
    g, gm, a, am = ks(d["g"]), ks(d["gm"]), ks(d["a"]), ks(d["am"])
    f = [ks(x) for x in d["f"].split(";")] if d["f"] != "-" else []
    fm = [ks(x) for x in d["fm"].split(";")] if d["fm"] != "-" else []
    words = ks(d["asm"])
    if gm != g:
        return "global_inst_iter_mut differs from global_inst_iter"
    if am != a:
        return "all_inst_iter_mut differs from all_inst_iter"
    if fm != f:
        return "Function::all_inst_iter_mut differs from all_inst_iter"
    if a != g + [k for x in f for k in x]:
        return "all_inst_iter is not global_inst_iter followed by the per-function traversals"
    hdr = 5 if " h:1" in req else 0
    exp = [w for k in a for w in (196609, k, k)]
    if words[hdr:] != exp:
        return "assembly is not the header followed by the assembly of each visited instruction, in order"
    if hdr and words[:5] != [119734787, words[1], 983040, 77, 0]:
        return "header words"
    # every instruction placed in the module is visited exactly once
    placed = []
    for tok in req.split(" ")[1:]:
        if ":" in tok and not tok.startswith("h:"):
            placed += ks(tok.split(":")[1])
    if sorted(placed) != sorted(a):
        return "a placed instruction is not visited exactly once"
    return None


def witness_modules(tier="quick"):
    """one-instruction modules, one per section / optional part (the search space for a moved or missing field)"""
    out = []
    for s in SECT:
        out.append(f"trav h:0 {s}:1")
    for i, s in enumerate(SECT):
        for t in SECT[i + 1:]:
            out.append(f"trav h:1 {s}:1 {t}:2")
    for part in ("d:1 e:- p:-", "d:- e:1 p:-", "d:- e:- p:1", "d:1 e:2 p:3"):
        out.append(f"trav h:0 F {part}")
        out.append(f"trav h:0 s10:9 F {part} B l:4 i:5,6 B l:- i:7 F d:8 e:- p:-")
    out.append("trav h:0 F d:- e:- p:- B l:1 i:-")
    out.append("trav h:0 F d:- e:- p:- B l:- i:1")
    out.append("trav h:0 F d:- e:- p:- B l:1 i:2 B l:3 i:4")
    out.append("trav h:1")
    out.append("trav h:0")
    # a module whose assembly is longer than 65536 words (22000 three-word instructions in one block): instructions
    # assembled across and beyond the 16-bit range of output offsets
    out.append("trav h:1 s10:1 F d:2 e:3 p:- B l:4 i:" + ",".join(str(k) for k in range(5, 22005)))
    # many functions / many blocks / many sections entries: nothing depends on how many there are (counts beyond 2^8, 2^12, and - in the
    # thorough tier - 2^16)
    for nf in (257, 4097, 5000) + ((66000,) if tier == "thorough" else ()):
        out.append("trav h:1 s0:1 " + " ".join(f"F d:{10 + 2 * k} e:{11 + 2 * k} p:-" for k in range(nf)))
    out.append("trav h:0 F d:1 e:2 p:- " + " ".join(f"B l:{10 + 2 * k} i:{11 + 2 * k}" for k in range(4100)))
    out.append("trav h:1 " + " ".join(f"s{j}:" + ",".join(str(1000 * j + k) for k in range(1, 300)) for j in (0, 1, 2, 4, 5, 6, 7, 8, 9, 10)))
    return out


def run(ctx):
    with C.Lock():
        T, fails = C.translate_all(ctx)
        hok, herr = C.build_harness(ctx, bins=("impl",))
        have = C.need(ctx, "traversals")
        failing = C.prove(ctx, MODULE, THEOREMS, extra_targets=["Rspirv.Props.C15Inst", "driver"],
                          files=["Rspirv/Props/C15.lean", "Rspirv/Props/C15Inst.lean", "Rspirv/Generic/Traversal.lean", "Rspirv/Model/Module.lean",
                                 "Rspirv/Model/Assemble.lean"]) if have else []
    for n, e in failing:
        ctx.log(f"obligation failed: {n}: {e['msg'][:160]}")
    if not hok:
        ctx.issue("harness-build", "the harness no longer builds against the working tree: " + herr[-400:])
        return C.finish(ctx)
    rnd = random.Random(ctx.seed)
    reqs = witness_modules(ctx.tier)
    counter = [0]
    N = 400 if ctx.tier == "quick" else 6000
    for i in range(N):
        counter[0] = 0
        reqs.append(gen_module(rnd, counter, full=(i % 5 == 0)))
    build_broken = any(n == "<build>" for n, _ in failing) or not have
    if not build_broken and not failing:
        impl, model = C.differential(ctx, reqs, "trav", oracle=oracle)
    else:
        # the proof side is broken (orders changed): the model follows the source, so search with the oracle alone
        impl = C.run_impl(ctx, reqs)
        ctx.evaluations += len(reqs)
        found = False
        for r, a in zip(reqs, impl):
            msg = oracle(r, a)
            if msg:
                ctx.issue(f"oracle:trav:{r[:100]}", "the property fails on the implementation: " + msg,
                          witness={"request": r, "implementation": a, "broken_obligations": [n for n, _ in failing]},
                          found_input=True, kind="oracle")
                found = True
                break
        if not found:
            for n, e in failing:
                ctx.issue(f"theorem:{n}", f"Lean obligation no longer checks: {e['msg'][:300]}", witness=e)
    for r in reqs:
        ctx.distinct.add(r)
    ctx.samples = [{"request": reqs[-1][:300], "implementation": impl[-1][:300]}, {"request": reqs[40][:300], "implementation": impl[40][:300]}]
    ctx.coverage["witness_modules"] = len(witness_modules(ctx.tier))
    ctx.assumptions += ["iterator chain / flat_map / Option::iter semantics of std as documented",
                        "translator tools/translate/traversals.py accounts for every token of the six iterator bodies and the four assemble_into bodies",
                        "hand model Rspirv/Model/Module.lean tied by the `trav` channel on random module values with every optional part present/absent"]
    return C.finish(ctx, level="proof", checker_cmd="lake build Rspirv.Props.C15 + #print axioms",
                    rule="one- and two-instruction witness modules for every section pair and optional part, plus seeded random module values (0-3 functions, 0-3 blocks, each optional part independently absent); modules of 257/4097/5000 (thorough 66 000) functions, 4100 blocks, 300 entries per section, 22 000 instructions; assembly after 1/65530/65535/131071 existing words; distinct non-trivial = distinct module values",
                    trusted=["translator traversals.py", "hand model Module.lean + differential harness (chan/trav.rs)"])


def replay(ctx, path):
    r = json.load(open(path))
    req = (r.get("witness") or {}).get("request")
    if not req:
        return run(ctx)
    with C.Lock():
        C.build_harness(ctx, bins=("impl",))
    a = C.run_impl(ctx, [req])[0]
    print("request:       ", req)
    print("implementation:", a)
    print("oracle:        ", oracle(req, a))
    return 1 if oracle(req, a) else 0
