"""C02 — assemble and parse are exact inverses on grammar-conforming instructions."""
import json
import random
import checklib as C
import instgen

MODULE = "Rspirv.Props.C02TypedInst"
P = "Rspirv.Props.C02."
THEOREMS = [P + n for n in ("packStr_bytes", "str_enc", "elem_enc", "elems_enc", "operand_enc", "literal_enc", "many_enc",
                            "nested_enc", "specOp_enc", "one_enc", "loop_enc", "leadOk_of_resultsLead", "first_word",
                            "C02_spec", "C02_first_word", "sview_of_words", "good_tables", "C02")] + \
           ["Rspirv.Props.C02Typed." + n for n in ("str_T", "elem_T", "elems_T", "operand_T", "literal_T", "many_T", "nested_T",
                                                   "specOp_T", "one_T", "loop_T", "lead_T", "typed_spec", "typed_grammar")] + \
           ["Rspirv.Props.C02TypedInst." + n for n in ("typed_tables", "typedStream_grammar", "C02_typed_spec", "C02_typed",
                                                       "typeInt_typed", "grammar_typedStream", "delivered_typed")] + \
           ["Rspirv.Props.C02TypedConv." + n for n in ("str_conv", "elem_conv", "elems_conv", "operand_conv", "literal_conv",
                                                       "many_conv", "nested_conv", "specOp_conv", "one_conv", "loop_conv",
                                                       "lead_conv", "spec_typed", "typed_iff")] + \
           ["Rspirv.Props.ParserSpec.parseInst_ref", "Rspirv.Props.ParserSpec.loop_ref"]
NEEDS = ("header", "core", "decode", "operand_enum", "asm_arms", "parse_operand", "operands")


def build_cases(ctx, T, rounds):
    rnd = random.Random(ctx.seed)
    g = instgen.Gen(T, rnd)
    cases = []     # (kind, request, expected) ; expected = words (asm) or instruction text (parse)
    hdr = instgen.header()
    for rnd_i in range(rounds):
        for entry in g.core:
            g.next_id = 10
            types = {}
            pre = []
            if entry["name"] in ("Constant", "SpecConstant", "Switch"):
                for kind, w in (("int", 8), ("int", 16), ("int", 32), ("int", 64), ("float", 16), ("float", 32), ("float", 64)):
                    d = g.type_decl(kind, w, signed=rnd.randrange(2))
                    pre.append(d)
                    types[d.rid] = (kind, w)
                if entry["name"] == "Switch":
                    # selector ids get their type through a value definition (OpUndef %type %id)
                    defs = []
                    newtypes = {}
                    for tid, t in types.items():
                        vid = g.fresh()
                        defs.append(instgen.Inst(g.opv["Undef"], "Undef", tid, vid, []))
                        newtypes[vid] = t
                    if rnd_i % 2 == 1:
                        # every other round the selector values are defined where real code defines them: inside a function body
                        pre.append(instgen.Inst(g.opv["Function"], "Function", next(iter(types)), g.fresh(),
                                                [instgen.Op("w", g.vix["FunctionControl"], 0), instgen.Op("w", g.vix["IdRef"], 3)]))
                        pre.append(instgen.Inst(g.opv["Label"], "Label", None, g.fresh(), []))
                    pre += defs
                    types = newtypes
            for inst in g.all_shapes(entry, types=types):
                if entry["name"] == "Switch" and types:
                    inst.ops[0].value = rnd.choice(list(types))
                    # regenerate the case literals for the chosen selector width
                    sel = inst.ops[0].value
                    fixed = inst.ops[:2]
                    n = (len(inst.ops) - 2)
                    cases_ops = []
                    k = 0
                    rest = inst.ops[2:]
                    while k < len(rest):
                        cases_ops += g.literal(types[sel][1] == 64) + [rest[k + 1]]
                        k += 2
                    inst.ops = fixed + cases_ops
                if len(inst.words()) >= 65536:
                    continue
                cases.append(("asm", "asm " + inst.text(), ",".join(str(w) for w in inst.words())))
                words = list(hdr)
                for p in pre:
                    words += p.words()
                words += inst.words()
                cases.append(("parse", "parse " + instgen.to_bytes(words).hex(), inst.text()))
    # OpSpecConstantOp embedding every context-free opcode, with 0 / 1 / 2 / 4 entries of a nested variadic operand
    lit_spec = g.vix["LiteralSpecConstantOpInteger"]
    for r in g.nestable():
        variadic = any(q == "ZeroOrMore" for _, q in r["ops"])
        for many in ((0, 1, 2, 4) if variadic else (None,)):
            g.next_id = 10
            ops = g.spec_op(force=r, many=many)
            inst = instgen.Inst(g.opv["SpecConstantOp"], "SpecConstantOp", 3, 4, ops)
            if len(inst.words()) >= 65536:
                continue
            cases.append(("asm", "asm " + inst.text(), ",".join(str(w) for w in inst.words())))
            cases.append(("parse", "parse " + instgen.to_bytes(list(hdr) + inst.words()).hex(), inst.text()))
    # every value of every parameterised kind (all enumerants of ExecutionMode, Decoration, ...; 0 / each bit / all bits
    # of ImageOperands, MemoryAccess, ...) in the first instruction that takes the kind, all optional operands present
    for kind, values in g.parameterised():
        hosts = [r for r in g.nestable() if any(k == kind for k, _ in r["ops"])]
        if not hosts:
            continue
        for hi, host in enumerate(hosts[:2]):
            nopt = sum(1 for _, q in host["ops"] if q == "ZeroOrOne")
            for v in values:
                g.next_id = 10
                inst = g.inst(host, opt_count=nopt, many=1, force_kind=(kind, v))
                if len(inst.words()) >= 65536:
                    continue
                cases.append(("asm", "asm " + inst.text(), ",".join(str(w) for w in inst.words())))
                cases.append(("parse", "parse " + instgen.to_bytes(list(hdr) + inst.words()).hex(), inst.text()))
    # every variant of dr::Operand, also those no grammar kind decodes to (Operand::Scope, Operand::MemorySemantics, ...: a user
    # can build them by hand): one arm of `impl Assemble for dr::Operand` each, on an operand-carrying OpNop
    from props import c07
    for r in c07.operand_requests(T, g.rnd, ctx.tier):
        tok = r.split(" ", 1)[1]
        vi, val = tok.split(":", 1)
        if val.startswith("Q"):
            o = instgen.Op("q", int(vi), int(val[1:]))
        elif val.startswith("S"):
            o = instgen.Op("s", int(vi), list(bytes.fromhex(val[1:])) if val[1:] != "-" else [])
        else:
            o = instgen.Op("w", int(vi), int(val))
        inst = instgen.Inst(0, "Nop", None, None, [o])
        cases.append(("asm", "asm " + inst.text(), ",".join(str(w) for w in inst.words())))
    return cases


def run(ctx):
    with C.Lock():
        T, fails = C.translate_all(ctx)
        hok, herr = C.build_harness(ctx, bins=("impl",))
        have = C.need(ctx, *NEEDS)
        failing = C.prove(ctx, MODULE, THEOREMS, extra_targets=["driver"], files=["Rspirv/Props/C02.lean", "Rspirv/Props/C02Typed.lean", "Rspirv/Props/C02TypedInst.lean", "Rspirv/Props/C02TypedConv.lean", "Rspirv/Model/Typed.lean", "Rspirv/Props/ParserSpec.lean", "Rspirv/Model/Spec.lean", "Rspirv/Model/Assemble.lean", "Rspirv/Model/Parser.lean"]) if have else []
    for n, e in failing:
        ctx.issue(f"theorem:{n}", f"Lean obligation no longer checks: {e['msg'][:300]}", witness=e)
    if not hok:
        ctx.issue("harness-build", "the harness no longer builds against the working tree: " + herr[-400:])
        return C.finish(ctx)
    broken = (not have) or any(n == "<build>" for n, _ in failing)
    if broken:
        T = C.load_pinned_T()          # generate from the pinned tables, judge the implementation alone
    cases = build_cases(ctx, T, rounds=2 if ctx.tier == "quick" else 12)
    expect = {r: (k, e) for k, r, e in cases}

    def oracle(req, resp):
        k, e = expect.get(req, (None, None))
        if k is None:
            return None   # shrunk request: only the differential applies
        if resp.startswith("panic"):
            return "panicked: " + resp[6:80]
        if k == "asm":
            if resp != "ok " + e:
                return f"assembled words differ from the SPIR-V encoding: expected {e[:120]}"
            ws = [int(x) for x in e.split(",")]
            if ws[0] >> 16 != len(ws):
                return "word count field differs from the number of words emitted"
            return None
        parts = resp.split(" | ")
        if parts[0] != "ok":
            return f"conforming instruction rejected: {parts[0]}"
        insts = parts[3].split(" ") if len(parts) > 3 and parts[3] else []
        if not insts or insts[-1] != e:
            return f"parsed instruction differs from the original: got {insts[-1] if insts else None}, expected {e}"
        return None

    reqs = [r for _, r, _ in cases]
    # instructions at the largest sizes the format can express (implementation only, judged by the same oracle; see common.scale_modules)
    from props import common
    g0 = instgen.Gen(T, random.Random(ctx.seed))
    scale = []
    for label, insts, k in common.scale_modules(g0, ctx.tier):
        inst = insts[k]
        ra = "asm " + inst.text()
        rp = "parse " + instgen.to_bytes(instgen.header() + inst.words()).hex()
        expect[ra] = ("asm", ",".join(str(w) for w in inst.words()))
        expect[rp] = ("parse", inst.text())
        scale += [ra, rp]
    found_scale = C.oracle_search(ctx, scale, oracle, "asm+parse-scale")
    ctx.oblige(f"oracle:asm+parse at the largest instruction sizes ({len(scale)} requests, implementation only)", not found_scale)
    ctx.coverage["scale_requests"] = len(scale)
    if broken:
        if C.oracle_search(ctx, reqs, oracle, "asm+parse"):
            # the concrete failing input replaces the bare "translator no longer accepts" reports
            ctx.issues = [i for i in ctx.issues if i.found_input]
        return C.finish(ctx)
    impl, model = C.differential(ctx, reqs, "asm+parse", oracle=oracle, shrink=False)
    ops_seen = set()
    for k, r, e in cases:
        if k == "parse":
            ctx.distinct.add(e)
            ops_seen.add(e.split(";")[0])
    ctx.coverage["opcodes_covered"] = len(ops_seen)
    ctx.coverage["instructions"] = len(cases) // 2
    ctx.samples = [{"request": cases[i][1][:200], "expected": cases[i][2][:200]} for i in (0, 7, len(cases) // 2, len(cases) - 1)]
    ctx.assumptions += ["word counts below 65536 (16-bit field) - instructions beyond are skipped by the generator and excluded by hypothesis",
                        "generator encodes by the SPIR-V rules independently of rspirv and of the Lean model"]
    return C.finish(ctx, level="proof", checker_cmd="lake build Rspirv.Props.C02TypedInst + #print axioms",
                    rule="every core opcode x every quantifier expansion (0..n optionals, variadic 0/1/3) x cycling through every enumerant of every value enum and every single mask bit + random combinations with their parameters, both literal widths for OpConstant/OpSpecConstant/OpSwitch, strings of every length mod 4; strings around every power of two up to 4097 bytes; OpSwitch selectors defined at module scope and inside a function body; implementation only: asm + parse at the largest expressible instruction sizes; distinct non-trivial = distinct instructions",
                    trusted=["hand models Parser.lean / Assemble.lean + differential harness", "translators"])


def replay(ctx, path):
    r = json.load(open(path))
    req = (r.get("witness") or {}).get("request")
    if not req:
        return run(ctx)
    with C.Lock():
        C.translate_all(ctx)
        C.build_harness(ctx, bins=("impl",))
    hist = (r.get("witness") or {}).get("history") or []     # requests answered before it by the same process
    a, b = C.run_impl(ctx, hist + [req])[-1], C.run_driver(ctx, hist + [req])[-1]
    print("request:       ", req[:300])
    print("implementation:", a[:300])
    print("model:         ", b[:300])
    return 1 if C.canon(a) != C.canon(b) else 0
