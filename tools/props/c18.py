"""C18 — lifting preserves module structure on the supported subset."""
import json
import random
import re
import checklib as C
import instgen
import liftgen
import srdebug
from props import common

MODULE = "Rspirv.Props.C18Globals"
P = "Rspirv.Props.C18."
THEOREMS = [P + n for n in ("liftFields_names", "liftField_plain", "liftFields_req", "walk_sound", "table_ok", "C18_table",
                            "C18_header", "liftWith_wrongOpcode", "liftConstant_wrongOpcode", "liftGlobals_counts",
                            "liftBlockInsts_counts", "liftBlocks_counts", "liftFunctions_counts", "C18_structure")] + \
           ["Rspirv.Props.C18Content." + n for n in ("liftWith_congr", "liftTerminator_congr", "liftBlockInsts_step",
                                                     "liftBlockInsts_content", "BlocksSpec_congr", "liftBlocks_content",
                                                     "FunctionsSpec_congr", "liftFunctions_content", "C18_content")] + \
           ["Rspirv.Props.C18Globals." + n for n in ("liftGlobals_step", "liftGlobals_append", "liftGlobals_split", "gstep_ok",
                                                     "gstep_inv", "gstep_mono", "liftGlobals_inv", "C18_type_at",
                                                     "C18_const_at", "C18_reference")]
NEEDS = ("header", "core", "glsl", "opencl", "traversals", "decode", "operand_enum", "asm_arms", "parse_operand", "operands",
         "operand_reflect", "disas_operand", "lift")
ATOM = re.compile(r"[tmj]\d+|s[0-9a-f]*|\d+|NaN")


def atoms(text):
    """value atoms of a canonical node `Name{f=v,..}` in order (field names dropped)"""
    body = text[text.index("{") + 1:text.rindex("}")]
    out = []
    for part in split_fields(body):
        if "=" not in part:
            continue
        v = part.split("=", 1)[1]
        out += ATOM.findall(v)
    return out


def split_fields(body):
    parts, depth, cur = [], 0, []
    for ch in body:
        if ch in "[(":
            depth += 1
        elif ch in "])":
            depth -= 1
        if ch == "," and depth == 0:
            parts.append("".join(cur)); cur = []
        else:
            cur.append(ch)
    if cur:
        parts.append("".join(cur))
    return parts


class Oracle:
    """C18 on the implementation's (canonicalised) answer, from the generator's own record of the module"""

    def __init__(self, canon):
        self.canon = canon
        self.expect = {}

    def add(self, req, version, exp):
        self.expect[req] = (version, exp)

    def __call__(self, req, resp):
        if req not in self.expect:
            return None          # outside the supported subset: only the correspondence is checked
        if resp.startswith("panic"):
            return "panicked: " + resp[6:120]
        version, exp = self.expect[req]
        if not resp.startswith("ok "):
            return "lifting a module of the supported subset failed: " + resp[:80]
        try:
            c = self.canon.module(resp)
        except (ValueError, KeyError, IndexError) as ex:
            return f"Debug text not understood ({ex})"
        parts = c.split(" | ")
        if parts[0] != f"ok v={version}":
            return f"version word {parts[0]} for input version {version}"
        if parts[1] != "caps=[" + ";".join(str(x) for x in exp["caps"]) + "]":
            return f"capabilities {parts[1]} for input {exp['caps']}"
        if parts[2] != "mm=MemoryModel{addressing_model=%d,memory_model=%d}" % exp["mm"]:
            return f"memory model {parts[2]} for input {exp['mm']}"
        tys = parts[3][2:].split(" ") if len(parts[3]) > 2 else []
        if [t.split("{")[0] for t in tys] != exp["types"]:
            return f"types {[t.split('{')[0] for t in tys]} for declarations {exp['types']}"
        cs = parts[4][2:].split(" ") if len(parts[4]) > 2 else []
        if cs != exp["consts"]:
            return f"constants {cs} for declarations {exp['consts']}"
        ops = parts[5][2:].split(" ") if len(parts[5]) > 2 else []
        if len(ops) != len(exp["ops"]):
            return f"{len(ops)} operations for {len(exp['ops'])} result-producing non-phi block instructions"
        for k, (o, (arm, inst, tok)) in enumerate(zip(ops, exp["ops"])):
            if o.split("{")[0] != inst.name:
                return f"operation {k} is {o.split('{')[0]}, the instruction is Op{inst.name}"
            rev = {v: t for t, v in tok.items()}
            got = []
            for a in atoms(o):
                if a[0] in "tm" and a[1:].isdigit():
                    got.append(str(rev.get(int(a[1:]), -1)))
                else:
                    got.append(a)
            want = []
            for op in inst.ops:
                want.append("s" + bytes(op.value).hex() if op.kind == "s" else str(op.value))
            if got != want:
                return f"operation {k} ({inst.name}) carries {got}, the instruction's operands are {want} (type tokens shown as their declaration's id)"
        fns = parts[6].split("F ctl=")[1:] if len(parts) > 6 and parts[6] else []
        if len(fns) != len(exp["functions"]):
            return f"{len(fns)} functions for {len(exp['functions'])}"
        for k, (f, (ctl, res, blocks)) in enumerate(zip(fns, exp["functions"])):
            head = f.split(" B ")[0].split(" ")
            if head[0] != str(ctl) or head[1] != f"res=t{res}":
                return f"function {k}: control/result {head[:2]} for control {ctl} and result type token t{res}"
            bl = f.split(" B ")[1:]
            if len(bl) != len(blocks):
                return f"function {k}: {len(bl)} blocks for {len(blocks)}"
            for j, (b, (args, tname, tops)) in enumerate(zip(bl, blocks)):
                m = re.match(r"args=\[(.*?)\] term=(.*)$", b.strip())
                if not m:
                    return f"function {k} block {j}: unreadable {b[:60]}"
                if (m.group(1).split(";") if m.group(1) else []) != args:
                    return f"function {k} block {j}: arguments [{m.group(1)}] for phi result types {args}"
                if m.group(2).split("{")[0] != tname or atoms(m.group(2)) != [str(x) for x in tops]:
                    return f"function {k} block {j}: terminator {m.group(2)} for Op{tname} {tops}"
        return None


def run(ctx):
    with C.Lock():
        T, fails = C.translate_all(ctx)
        hok, herr = C.build_harness(ctx, bins=("impl",))
        have = C.need(ctx, *NEEDS)
        failing = C.prove(ctx, MODULE, THEOREMS, extra_targets=["driver"],
                          files=["Rspirv/Props/C18.lean", "Rspirv/Props/C18Content.lean", "Rspirv/Props/C18Globals.lean", "Rspirv/Model/Lift.lean", "Rspirv/Instances.lean"]) if have else []
    for n, e in failing:
        ctx.issue(f"theorem:{n}", f"Lean obligation no longer checks: {e['msg'][:300]}", witness=e)
    if not hok:
        ctx.issue("harness-build", "the harness no longer builds against the working tree: " + herr[-400:])
        return C.finish(ctx)
    if "lift" not in T:
        # the generator needs the lift tables of *some* tree: without them only the obligation is reported
        return C.finish(ctx)
    broken = not have or any(n == "<build>" for n, _ in failing)
    rnd = random.Random(ctx.seed)
    lg = liftgen.LiftGen(T, rnd, common.specclass())
    canon = srdebug.Canon(T)
    oracle = Oracle(canon)
    reqs = []
    used = set()
    nm = 150 if ctx.tier == "quick" else 4000
    for _ in range(nm):
        insts, exp = lg.module(nops=rnd.choice([3, 6, 10]))
        version = instgen.some_version(rnd)
        words = instgen.header(version=version, bound=10000)
        for i in insts:
            words += i.words()
        r = "lift " + instgen.to_bytes(words).hex()
        reqs.append(r)
        oracle.add(r, version, exp)
        if rnd.random() < 0.3:
            # a `dr::Module` can carry any word as its header version (public field); the lifted module preserves *the word*
            vw = rnd.choice([0x00010301, 0x01010300, 0xdeadbeef, 0xffffffff, 0, 0x000103ff, rnd.randrange(1 << 32)])
            r2 = f"liftv {vw} " + instgen.to_bytes(words).hex()
            reqs.append(r2)
            oracle.add(r2, vw, exp)
        for _, i, _ in exp["ops"]:
            used.add(i.name)
    # outside the subset: the model must still agree (errors and panics included)
    g = instgen.Gen(T, rnd)
    mg = instgen.ModuleGen(g, common.specclass())
    for _ in range(30 if ctx.tier == "quick" else 600):
        words = instgen.module_words(mg.module(size=0.5))
        reqs.append("lift " + instgen.to_bytes(words).hex())
    # malformed variants of supported modules: an operand dropped, duplicated or replaced by an operand of another variant in a
    # type, constant, block instruction or terminator; a constant typed by a non-numeric type. Nothing is demanded of them but
    # that model and implementation agree on the error, the panic or the result (the error arms of lift_constant / lift_*).
    nmal = 0
    for _ in range(120 if ctx.tier == "quick" else 3000):
        insts, _ = lg.module(nops=rnd.choice([2, 4]))
        cand = [k for k, i in enumerate(insts) if i.name not in ("Capability", "MemoryModel", "Label", "Function", "FunctionEnd")]
        if not cand:
            continue
        k = rnd.choice(cand)
        i = insts[k]
        ops = list(i.ops)
        how = rnd.randrange(5)
        if how == 0 and ops:
            ops.pop(rnd.randrange(len(ops)))
        elif how == 1 and ops:
            ops.insert(rnd.randrange(len(ops) + 1), rnd.choice(ops))
        elif how == 2 and ops:
            ops[rnd.randrange(len(ops))] = instgen.Op("s", g.vix["LiteralString"], list(b"x"))
        elif how == 3 and ops:
            j = rnd.randrange(len(ops))
            if ops[j].kind == "w":
                ops[j] = instgen.Op("w", rnd.choice([g.vix["IdRef"], g.vix["LiteralBit32"], g.vix["IdScope"]]), ops[j].value)
        else:
            if i.rtype is not None:
                i = instgen.Inst(i.opcode, i.name, rnd.choice([1, 2, 5, 6, 9999]), i.rid, ops)
        insts[k] = instgen.Inst(i.opcode, i.name, i.rtype, i.rid, ops)
        words = instgen.header(version=0x00010300, bound=10000)
        ok = True
        for x in insts:
            if len(x.words()) >= 65536:
                ok = False
            words += x.words()
        if ok:
            reqs.append("lift " + instgen.to_bytes(words).hex())
            nmal += 1
    # many declarations: the type referenced by a vector, a function type, a constant and a function is the (N+2)-th declared type, for N
    # around 2^8 and 2^16 — tokens must designate their own declaration however many were declared before (implementation only: the
    # Lean model looks declarations up in lists, quadratic at this size; judged by reading the tokens off the Debug text)
    I_, Op_ = instgen.Inst, instgen.Op
    idr_, l32_ = g.vix["IdRef"], g.vix["LiteralBit32"]
    many, many_n = [], {}
    for N in ((255, 256, 65535, 65536) if ctx.tier == "quick" else (254, 255, 256, 257, 4095, 4096, 65534, 65535, 65536, 65537, 70000)):
        ins = [I_(g.opv["Capability"], "Capability", None, None, [Op_("w", g.vix["Capability"], 1)]),
               I_(g.opv["MemoryModel"], "MemoryModel", None, None, [Op_("w", g.vix["AddressingModel"], 0), Op_("w", g.vix["MemoryModel"], 1)]),
               I_(g.opv["TypeInt"], "TypeInt", None, 1, [Op_("w", l32_, 32), Op_("w", l32_, 0)])]
        for k in range(N):
            ins.append(I_(g.opv["TypeStruct"], "TypeStruct", None, 100 + k, [Op_("w", idr_, 1)]))
        ins += [I_(g.opv["TypeFloat"], "TypeFloat", None, 2, [Op_("w", l32_, 32)]),
                I_(g.opv["TypeVector"], "TypeVector", None, 3, [Op_("w", idr_, 2), Op_("w", l32_, 4)]),
                I_(g.opv["TypeFunction"], "TypeFunction", None, 4, [Op_("w", idr_, 2)]),
                I_(g.opv["Constant"], "Constant", 2, 5, [Op_("w", l32_, 0x3f800000)]),
                I_(g.opv["Function"], "Function", 2, 6, [Op_("w", g.vix["FunctionControl"], 0), Op_("w", idr_, 4)]),
                I_(g.opv["Label"], "Label", None, 7, []),
                I_(g.opv["FAdd"], "FAdd", 2, 8, [Op_("w", idr_, 5), Op_("w", idr_, 5)]),
                I_(g.opv["ReturnValue"], "ReturnValue", None, None, [Op_("w", idr_, 8)]),
                I_(g.opv["FunctionEnd"], "FunctionEnd", None, None, [])]
        w_ = instgen.header(version=0x00010300, bound=200000)
        for i_ in ins:
            w_ += i_.words()
        r_ = "lift " + instgen.to_bytes(w_).hex()
        many.append(r_)
        many_n[r_] = N

    def many_oracle(req, resp):
        if resp.startswith("panic"):
            return "panicked: " + resp[6:120]
        if not resp.startswith("ok "):
            return "lifting a module of the supported subset failed: " + resp[:80]
        N = many_n[req]
        tail = resp[-900:]
        for want in (f"Vector {{ component_type: Token({N + 1}), component_count: 4 }}", f"Function {{ return_type: Token({N + 1}),",
                     f"res=Token({N + 1}) ", "C=Storage { data: [Float(1.0)]"):
            if want not in tail:
                return f"with {N} struct types declared between the int and the float type, the lifted module lacks `{want}`: ...{tail[tail.find('Float {'):][:300]}"
        if resp.count("Struct {") != N:
            return f"{resp.count('Struct {')} lifted struct types for {N} declarations"
        return None
    found_many = C.oracle_search(ctx, many, many_oracle, "lift-many")
    ctx.oblige(f"oracle:tokens designate their own declaration after 2^8 / 2^16 declarations ({len(many)} modules, implementation only)", not found_many)
    if broken:
        found = C.oracle_search(ctx, reqs, oracle, "lift")
        ctx.log(f"tie broken; oracle search on the implementation found a failing input: {found}")
        return C.finish(ctx)

    def nan_blind(t):
        # `Debug` of an f32 NaN is `NaN` whatever the payload: the model's bits are compared as "some NaN"
        def f(m):
            bits = int(m.group(1))
            return "Float{0=NaN}" if (bits & 0x7f800000) == 0x7f800000 and (bits & 0x007fffff) else m.group(0)
        return re.sub(r"Float\{0=(\d+)\}", f, t)

    def equal(a, b):
        if a.startswith("ok "):
            try:
                return canon.module(a) == nan_blind(b)
            except (ValueError, KeyError, IndexError):
                return False
        return C.canon(a.strip()) == C.canon(b.strip())
    impl, model = C.differential(ctx, reqs, "lift", oracle=oracle, shrink=False, equal=equal)
    kinds = {}
    for a in impl:
        k = a.split(" ")[0] + (":" + a.split(" ")[1] if a.startswith("err") else "")
        kinds[k] = kinds.get(k, 0) + 1
    ctx.distinct |= used
    ctx.coverage["outcomes"] = kinds
    ctx.coverage["malformed_variants"] = nmal
    ctx.coverage["lift_op_opcodes_exercised"] = len(used)
    ctx.coverage["lift_op_opcodes_total"] = len(lg.op_arms)
    ctx.samples = [{"request": reqs[i][:60], "implementation": impl[i][:200]} for i in (0, len(reqs) // 2)]
    ctx.assumptions += [
        "supported subset as generated: declared-before-use types, 32-bit constants/composites, blocks of result-producing instructions without parameterised enumerants, phis, non-switch terminators",
        "`Debug` text of the structured representation is canonicalised type-directed by tools/srdebug.py"]
    return C.finish(ctx, level="proof", checker_cmd="lake build Rspirv.Props.C18Globals + #print axioms",
                    rule="seeded modules of the supported subset whose block instructions are laid out from the lift field tables with pairwise distinct operand values (a field fed from the wrong position shows); plus unrestricted seeded modules (errors/panics must agree); half of the modules numbered from a shuffled id pool; implementation only: the (N+2)-th declared type referenced by vector / function type / constant / function for N around 2^8 and 2^16; distinct non-trivial = distinct lift_op opcodes lifted",
                    trusted=["translator lift_context.py", "hand model Lift.lean + differential harness (lift channel)", "tools/srdebug.py"])


def replay(ctx, path):
    r = json.load(open(path))
    req = (r.get("witness") or {}).get("request")
    if not req:
        return run(ctx)
    with C.Lock():
        T, _ = C.translate_all(ctx)
        C.build_harness(ctx, bins=("impl",))
    hist = (r.get("witness") or {}).get("history") or []     # requests answered before it by the same process
    a, b = C.run_impl(ctx, hist + [req])[-1], C.run_driver(ctx, hist + [req])[-1]
    canon = srdebug.Canon(T)
    print("request:", req[:200]); print("implementation:", a[:600])
    try:
        ca = canon.module(a)
    except Exception as ex:
        ca = f"<unreadable: {ex}>"
    print("canonical:", ca[:600]); print("model:", b[:600])
    return 0 if ca == b else 1
