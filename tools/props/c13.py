"""C13 — Builder id discipline: fresh ids, exact bound, deduplicated implicit types."""
import json
import random
import checklib as C

MODULE = "Rspirv.Props.C13"
THEOREMS = ["Rspirv.Props.C13.start_ids", "Rspirv.Props.C13.step_next", "Rspirv.Props.C13.C13_fresh",
            "Rspirv.Props.C13.C13_bound", "Rspirv.Props.C13.C13_bound_exceeds", "Rspirv.Props.C13.C13_typeRequest",
            "Rspirv.Props.C13.C13_dedup_first", "Rspirv.Props.C13.C13_nodup_step", "Rspirv.Props.C13.C13_nodup_run"]
NEEDS = ("header", "core", "decode", "operand_enum", "asm_arms", "parse_operand", "operands", "builder")


def arg_for(t, rnd, ids):
    k = t[0]
    if k == "word":
        return str(rnd.choice(ids))
    if k == "u32":
        return str(rnd.choice([0, 1, 2, 32, 64]))
    if k == "spirv":
        return None      # filled by caller (needs tables)
    if k == "string":
        return rnd.choice(["61", "6d61696e", "-"]) if False else rnd.choice(["61", "6d61696e"])
    if k == "opt":
        if rnd.random() < 0.5:
            return "-"
        return arg_for(t[1], rnd, ids)
    if k == "iter":
        it = t[1]
        n = rnd.randrange(0, 3)
        if n == 0:
            return "-"
        if it[0] in ("word", "u32"):
            return ",".join(str(rnd.choice(ids)) for _ in range(n))
        if it[0] == "operand":
            return ",".join(f"59:{rnd.randrange(4)}" for _ in range(n))
        return None
    return None


def type_calls(T, rnd, ids):
    """one call per generated type method (the `_id` forms: explicit id or `-`) with small argument domains so that
    identical requests recur"""
    hdr = T["header"]
    enums = {e["name"]: [v for _, v in e["decl"]][:2] for e in hdr["enums"]}
    masks = {m["name"]: [0, 1] for m in hdr["masks"]}
    out = []
    for m in T["builder"]:
        if m["kind"] != "emit" or m["sink"] != ("dedup",):
            continue
        args = []
        ok = True
        for pn, t in m["params"]:
            if pn == "result_id":
                args.append(None)
                continue
            base = t[1] if t[0] == "opt" else t
            if base[0] == "spirv":
                vals = enums.get(base[1]) or masks.get(base[1])
                a = str(rnd.choice(vals))
                if t[0] == "opt" and rnd.random() < 0.5:
                    a = "-"
            else:
                a = arg_for(t, rnd, ids)
            if a is None:
                ok = False
                break
            args.append(a)
        if ok:
            out.append((m["name"], args))
    return out


FRESH = {"i_add/1/-/2/3", "load/1/-/2/-/-", "ext_inst/1/-/2/3/-", "id", "begin_block/-", "begin_block_no_label/-", "begin_function/1/-/0/2", "decoration_group", "string/61", "ext_inst_import/61",
         "variable/1/-/7/-", "function_parameter/1", "undef/1/-"}


def mm_oracle(req, resp):
    if resp.startswith("panic"):
        return "panicked: " + resp[6:80]
    if not resp.startswith("ok "):
        return None
    outs = resp.split(" | ")[0].split(" ")[1:]
    bound = int(resp.split(" | ")[2].split(" ")[0].split(",")[3])
    if not (outs and outs[-1].startswith("ok:") and outs[-1][3:].isdigit()):
        return None
    if bound != int(outs[-1][3:]) + 1:
        return f"the last request `id` returned {outs[-1][3:]}, the finished module's bound is {bound}"
    return None


def run(ctx):
    with C.Lock():
        T, fails = C.translate_all(ctx)
        hok, herr = C.build_harness(ctx, bins=("impl",))
        have = C.need(ctx, *NEEDS)
        failing = C.prove(ctx, MODULE, THEOREMS, extra_targets=["driver"],
                          files=["Rspirv/Props/C13.lean", "Rspirv/Model/Builder.lean"]) if have else []
    for n, e in failing:
        ctx.issue(f"theorem:{n}", f"Lean obligation no longer checks: {e['msg'][:300]}", witness=e)
    if not hok:
        ctx.issue("harness-build", "the harness no longer builds against the working tree: " + herr[-400:])
        return C.finish(ctx)
    broken = (not have) or any(n == "<build>" for n, _ in failing)
    if broken:
        T = C.load_pinned_T()
        if "builder" not in T:
            return C.finish(ctx)
    from props import common
    if not broken:
        common.wrapper_forwarding(ctx, T)
    rnd = random.Random(ctx.seed)
    reqs = []
    meta = {}
    N = 400 if ctx.tier == "quick" else 6000
    for hi in range(N):
        ids = [1, 2, 3]
        tcalls = type_calls(T, rnd, ids)
        # few methods per history so that identical and near-identical (prefix-related) requests recur
        tcalls = rnd.sample(tcalls, min(len(tcalls), rnd.choice([1, 2, 4])))
        start = rnd.choice([None, None, 1, 9, 1000, 4000000000])
        implicit_only = rnd.random() < 0.5
        calls = []
        for _ in range(rnd.randrange(3, 25)):
            r = rnd.random()
            if r < 0.6:
                name, args = rnd.choice(tcalls)
                args = list(args)
                # vary one argument: drop/extend a list (operand lists that are prefixes of one another), flip an optional
                if rnd.random() < 0.5:
                    j = rnd.randrange(len(args)) if args else None
                    if j is not None and args[j] is not None:
                        if "," in args[j] and rnd.random() < 0.5:
                            args[j] = args[j].rsplit(",", 1)[0]
                        elif args[j] == "-":
                            args[j] = rnd.choice(["-", "1", "2"])
                        elif args[j].replace(",", "").isdigit() and rnd.random() < 0.5:
                            args[j] = rnd.choice([args[j] + ",3", "-" if "," in args[j] else args[j], str(rnd.choice(ids))])
                a2 = [("-" if (implicit_only or rnd.random() < 0.7) else str(rnd.choice([50, 51, 2, 0]))) if a is None else a for a in args]
                calls.append(name + "".join("/" + a for a in a2))
            elif r < 0.7:
                calls.append("type_pointer/%s/%d/%d" % ("-" if (implicit_only or rnd.random() < 0.7) else rnd.choice(["60", "0"]), rnd.choice([0, 7]), rnd.choice(ids)))
            elif r < 0.8:
                # constants, and instructions *without a result id* that also live in types_global_values (the dedup search
                # has to step over them): forward pointers, line info given with no block selected, raw insertions
                calls.append(rnd.choice(["constant_bit32/1/7", "constant_bit32/1/7", "constant_true/1", "constant_null/2", "id",
                                         "type_forward_pointer/4/7", "no_line", "line/1/2/3",
                                         "insert_types_global_values/" + rnd.choice(["E", "B"]) + "/8;-;-;-"]))
            elif r < 0.9:
                # fails (no block selected) after reserving an id
                calls.append(rnd.choice(["i_add/1/-/2/3", "load/1/-/2/-/-", "ext_inst/1/-/2/3/-"]))
            else:
                calls.append(rnd.choice(["decoration_group", "string/61", "ext_inst_import/61", "begin_function/1/-/0/2", "end_function", "begin_block/-", "ret", "variable/1/-/7/-",
                                         "begin_block_no_label/-", "begin_block_no_label/77", "begin_block/88", "function_parameter/1", "undef/1/-", "id",
                                         "pop_instruction", "pop_instruction", "i_add/1/-/2/3", "nop", "select_block/0", "select_function/0"]))
        if hi % 3 == 0:
            # continuation from a NON-EMPTY module whose bound is tight (slack 0) or loose: the counter restarts at the header bound —
            # ids that were reserved but never defined stay reserved, and every later id is above everything handed out before
            for _ in range(rnd.choice([1, 1, 2])):
                calls.insert(rnd.randrange(1, len(calls) + 1), "continue:%d" % rnd.choice([0, 0, 1, 5, 100]))
        r = "build " + (f"from:{start} " if start else "") + " ".join(calls)
        reqs.append(r)
        meta[r] = (start or 1, implicit_only)

    def oracle(req, resp):
        if resp.startswith("panic"):
            return "panicked: " + resp[6:80]
        if not resp.startswith("ok "):
            return None
        start, implicit_only = meta.get(req, (1, False))
        calls = [c for c in req.split(" ")[1:] if not c.startswith("from:")]
        outs = resp.split(" | ")[0].split(" ")[1:]
        dump = resp.split(" | ")[2]
        bound = int(dump.split(" ")[0].split(",")[3])
        seen_req = {}
        fresh = []
        explicit = {"50", "51", "2", "60", "77", "88", "0"}
        for c, o in zip(calls, outs):
            parts = c.split("/")
            name = parts[0]
            idv = int(o[3:]) if o.startswith("ok:") and o[3:].isdigit() else None
            is_type = name.startswith("type_") and name not in ("type_forward_pointer", "type_opaque")
            if is_type:
                exp_id = parts[1] if len(parts) > 1 and (name.endswith("_id") or name == "type_pointer") else "-"
                if exp_id != "-":
                    if idv != int(exp_id):
                        return f"`{c}` must return the explicit id, returned {o}"
                    continue
                # `type_x/args` and `type_x_id/-/args` are the same implicit request
                key = (name[:-3] if name.endswith("_id") else name, tuple(parts[2:] if (name.endswith("_id") or name == "type_pointer") else parts[1:]))
                if key in seen_req:
                    if seen_req[key] != idv and implicit_only:
                        return f"identical implicit request `{c}` returned {idv}, earlier {seen_req[key]}"
                else:
                    seen_req[key] = idv
        # fresh ids handed out by calls that allocate one implicitly: strictly increasing from the starting id on
        last = start - 1
        for c, o in zip(calls, outs):
            if c in FRESH and o.startswith("ok:") and o[3:].isdigit():
                if int(o[3:]) <= last:
                    return f"`{c}` returned id {o[3:]} which is not above the ids handed out before (last {last})"
                last = int(o[3:])
        # ids: every id reported by an id-allocating call without explicit id is below the bound
        for c, o in zip(calls, outs):
            if o.startswith("ok:") and o[3:].isdigit() and int(o[3:]) >= bound and int(o[3:]) not in (50, 51, 60, 77, 88, 2, 0):
                return f"header bound {bound} does not exceed the allocated id {o[3:]} (`{c}`)"
        if bound < start:
            return f"bound {bound} below the starting id {start}"
        if implicit_only:
            # distinct implicit requests never share an id; no two identical type declarations
            inv = {}
            for k, v in seen_req.items():
                if v in inv and inv[v] != k:
                    return f"different requests {inv[v]} and {k} share id {v}"
                inv[v] = k
            tgv = [t for t in dump.split(" ") if t.startswith("s10:")][0][4:]
            decls = [] if tgv == "-" else tgv.split("|")
            # declarations = entries with a result id (forward pointers, line info and raw insertions have none and may repeat)
            keys = [(d.split(";")[0], d.split(";")[3]) for d in decls if d.split(";")[2] != "-" and not d.startswith("43;") and not d.startswith("41;") and not d.startswith("46;") and not d.startswith("59;") and not d.startswith("1;")]
            if len(keys) != len(set(keys)):
                return "two identical type declarations in a module whose types were all requested implicitly"
        return None

    # every generated type method once (implicitly), then once more, in one history: any two methods that emit the same declaration for
    # different requests share an id here, and the second round must return the first round's ids and add nothing
    for k in range(4 if ctx.tier == "quick" else 40):
        tc = type_calls(T, rnd, [1, 2, 3])
        rnd.shuffle(tc)
        once = [name + "".join("/" + ("-" if a is None else a) for a in args) for name, args in tc]
        r = "build " + " ".join(once + (once if k % 2 == 0 else once[::-1]) + ["id"])
        reqs.append(r)
        meta[r] = (1, True)
    # ids reserved with `id()` but not (yet) defined by any instruction, then a continuation: the reserved ids are not handed out again
    for slack in (0, 1, 7):
        for pre in ("id id", "type_void id id constant_true/1 id", "id begin_function/1/-/0/2 begin_block/- branch/2 end_function id"):
            r = f"build {pre} continue:{slack} id type_bool id undef/1/- id"
            reqs.append(r)
            meta[r] = (1, False)
    # ids handed out are never taken back: an instruction holding the latest id is popped (and possibly re-inserted), then more ids are
    # requested
    for start in (None, 9, 1000):
        for mid in ("pop_instruction id", "pop_instruction i_add/1/-/2/3 id", "pop_instruction pop_instruction id undef/1/-",
                    "nop pop_instruction pop_instruction id", "ret begin_block/- pop_instruction id", "pop_instruction insert_into_block/E/128;1;40;58:2,58:3 id"):
            for first in ("i_add/1/-/2/3", "undef/1/-", "i_add/1/-/2/3 i_add/1/-/2/3"):
                r = "build " + (f"from:{start} " if start else "") + f"begin_function/1/-/0/2 begin_block/- {first} {mid} ret end_function id"
                reqs.append(r)
                meta[r] = (start or 1, False)
    # `Builder::module_mut` (no model: judged on the implementation alone): whatever header the caller installs, the finished module's
    # bound is the id the next request would get — the history ends with `id`, so the bound must be that id + 1
    mm = []
    for r in reqs[:: 4 if ctx.tier == "quick" else 1]:
        calls = r.split(" ")[1:]
        pre = [c for c in calls if c.startswith("from:")]
        body = [c for c in calls if not c.startswith("from:")]
        k = rnd.randrange(len(body) + 1)
        body.insert(k, "module_mut_bound/%d" % rnd.choice([0, 1, 5, 77, 1000, 4000000100]))
        mm.append("build " + " ".join(pre + body + ["id"]))

    found_mm = C.oracle_search(ctx, mm, mm_oracle, "build-module-mut")
    ctx.oblige(f"oracle:build-module-mut ({len(mm)} histories, implementation only)", not found_mm)
    if broken:
        if C.oracle_search(ctx, reqs, oracle, "build-ids"):
            ctx.issues = [i for i in ctx.issues if i.found_input]
        return C.finish(ctx)
    impl, model = C.differential(ctx, reqs, "build-ids", oracle=oracle)
    methods = set()
    for r in reqs:
        for c in r.split(" ")[1:]:
            methods.add(c.split("/")[0])
        ctx.distinct.add(r)
    ctx.coverage["methods_exercised"] = len(methods)
    ctx.coverage["type_methods"] = len([m for m in methods if m.startswith("type_")])
    ctx.samples = [{"request": reqs[i][:220], "implementation": impl[i][:220]} for i in (0, len(reqs) // 2)]
    ctx.assumptions += ["id space not exhausted (next_id below 2^32; histories start at most at 4e9 and allocate < 100 ids)",
                        "type-request oracle: implicit-only histories are judged for 'same request same id', 'different requests different ids' and 'no identical declarations'"]
    return C.finish(ctx, level="proof", checker_cmd="lake build Rspirv.Props.C13 + #print axioms",
                    rule="seeded histories over every generated type method with the three-way dedup branch (explicit id and implicit forms, small argument domains so that identical requests recur) and type_pointer, interleaved with constants, id(), module-level id allocators and block-level calls that fail after reserving an id; new builders and builders continued from bounds 1, 9, 1000, 4e9; every generated type method once implicitly and once more in one history; distinct non-trivial = distinct histories",
                    trusted=["hand model Builder.lean + method specs regenerated from the source + differential harness"])


def replay(ctx, path):
    r = json.load(open(path))
    req = (r.get("witness") or {}).get("request")
    if not req:
        return run(ctx)
    with C.Lock():
        C.translate_all(ctx)
        C.build_harness(ctx, bins=("impl",))
    hist = (r.get("witness") or {}).get("history") or []     # requests answered before it by the same process
    a, b = C.run_impl(ctx, hist + [req])[-1], C.run_driver(ctx, hist + [req])[-1]
    print("request:", req[:300]); print("implementation:", a[:300]); print("model:", b[:300])
    if "module_mut_bound/" in req:       # no model counterpart: the oracle decides
        msg = mm_oracle(req, a)
        print("oracle:", msg)
        return 1 if msg else 0
    return 1 if C.canon(a) != C.canon(b) else 0
