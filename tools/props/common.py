"""Stages shared by the property checks."""
import json
import os
import checklib as C
import lean_emit
import extract_read


def stage_translate_and_extract(ctx, probes=()):
    """translate + harness build + extraction, under the build lock. Returns (T, ext) (ext None if the harness
    could not be built). Every check extracts (`checklib.translate_all`); this variant passes probes."""
    with C.Lock():
        T, fails = C.translate_all(ctx, probes)
    return T, ctx.data.get("ext")


def known(prop):
    return {k["key"]: k for k in C.load_known() if k["property"] == prop and k.get("status") == "known"}


PRED = ["is_location_debug", "is_nonlocation_debug", "is_debug", "is_annotation", "is_type", "is_constant",
        "is_variable", "is_return", "is_abort", "is_return_or_abort", "is_branch", "is_block_terminator"]


def specclass():
    return json.load(open(os.path.join(C.VERIF, "reference", "specclass.json")))


def c16_diff(ext):
    """(pred index, opcode, name, expected, observed) for every base-predicate disagreement with SpecClass."""
    sc = specclass()
    cls = {0: "locationDebug", 1: "nonLocationDebug", 3: "annotation", 4: "typeDecl", 5: "constant",
           6: "variableDef", 7: "ret", 8: "abort", 10: "branch"}
    names = {e["opcode"]: e["name"] for e in ext["core"]}
    out = []
    for o, bits in ext["reflect"]:
        for i, c in cls.items():
            exp = o in sc[c]["opcodes"]
            obs = bits[i] == "1"
            if exp != obs:
                out.append((i, o, names.get(o, str(o)), exp, obs))
    return out


def emit_findings(ctx, ext):
    """Generated/Findings.lean: the recorded (predicate, opcode) gaps that are still present in the tree."""
    gaps = []
    if ext is None:
        # no extraction in this run: keep the gaps recorded by the last run that had one (C16 / setup), so that the
        # modules depending on this file are not invalidated by every check that does not extract
        try:
            import re
            m = re.search(r"def c16KnownGaps : List \(Nat × Nat\) := \[(.*)\]", open(C.GEN + "/Findings.lean").read())
            if m and m.group(1).strip():
                gaps = re.findall(r"\(\d+, \d+\)", m.group(1))
        except OSError:
            pass
    if ext is not None:
        kn = known("C16")
        for i, o, name, exp, obs in c16_diff(ext):
            if exp and not obs and f"C16:{PRED[i]}:{name}" in kn:
                gaps.append(f"({i}, {o})")
    f = lean_emit.LeanFile("Rspirv.Generated.Findings", [], "recorded findings still present (from known_findings.json)")
    f.list_def("c16KnownGaps", "Nat × Nat", gaps)
    from rusttok import name_code
    bad = [str(name_code(k["key"].split(":")[2])) for k in C.load_known()
           if k["property"] == "C06" and k.get("status") == "known" and k["key"].startswith("C06:method:")]
    f.list_def("c06KnownMethods", "Nat", bad)
    # C17: (operand variant index, enumerant value) pairs whose parameter quantifier the parser ignores
    q = [k["lean"] for k in C.load_known() if k["property"] == "C17" and k.get("status") == "known" and "lean" in k]
    f.list_def("c17KnownQuant", "Nat × Nat", q)
    lean_emit.write_if_changed(C.GEN + "/Findings.lean", f.text())


def wrapper_forwarding(ctx, T):
    """Generated wrappers `type_x(args) = self.type_x_id(None, args)`: the Lean method table records only the callee (the
    wrapper's call is modelled as the callee's with `None`), so that the arguments are forwarded *in order* is an obligation of
    its own (C06: the call's arguments in grammar order; C13: a request without an explicit id is the same request as the `_id`
    form with `None`). A wrapper that forwards in another order is shown on the implementation: the two forms of one request with
    pairwise distinct arguments must return the same id."""
    bad = [m for m in T.get("builder", []) if m["kind"] == "wrapper" and m["args"] != [p[0] for p in m["params"]]]
    ctx.oblige("wrappers: every generated `type_x(args)` forwards its parameters to `type_x_id(None, args)` in order", not bad)
    for m in bad:
        args = [str(11 + 2 * k) for k in range(len(m["params"]))]
        req = "build " + m["name"] + "".join("/" + a for a in args) + " " + m["callee"] + "/-" + "".join("/" + a for a in args)
        resp = C.run_impl(ctx, [req])[0]
        outs = resp.split(" | ")[0].split(" ")[1:]
        differ = len(outs) == 2 and outs[0] != outs[1]
        ctx.issue(f"wrapper:{m['name']}", f"Builder::{m['name']} forwards {m['args']} to {m['callee']} (parameters are {[p[0] for p in m['params']]}): "
                  + ("the two forms of one request return different ids" if differ else "argument order differs"),
                  witness={"request": req, "implementation": resp}, found_input=differ, kind="oracle")


def scale_modules(g, tier):
    """Instructions at and next to the largest sizes the format can express (an instruction has at most 65535 words), each inside the
    smallest module the loader accepts it in: returns [(label, [Inst, ...], index of the big instruction)].  The Lean driver is not run on
    these (its decoder model walks a list per word: quadratic in the input size); they are judged on the implementation alone by the
    property's own oracle, in support of the theorems, which are not bounded in size."""
    import instgen
    I, Op = instgen.Inst, instgen.Op
    sv, idr, l32 = g.vix["LiteralString"], g.vix["IdRef"], g.vix["LiteralBit32"]
    out = []
    # strings: the longest OpString has 65535 - 2 words = 262131 bytes + NUL; lengths around 2^16 bytes / 2^16 - 4 and around the maximum
    lens = [65527, 65528, 65531, 65532, 65535, 65536, 65537, 131071, 131072, 262127, 262128, 262130, 262131]
    if tier == "quick":
        lens = [65531, 65532, 65536, 131072, 262131]
    for n in lens:
        out.append((f"OpString/{n}", [I(g.opv["String"], "String", None, 1, [Op("s", sv, list(instgen.long_string(n, n % 26)))])], 0))
    # a string followed by further operands (OpEntryPoint model %fn "name" %interface...): 65535 - 4 - 1 words of name at most
    for n in ([65532, 262119] if tier == "quick" else [65531, 65532, 65536, 131072, 262116, 262119]):
        ep = I(g.opv["EntryPoint"], "EntryPoint", None, None,
               [Op("w", g.vix["ExecutionModel"], 0), Op("w", idr, 2), Op("s", sv, list(instgen.long_string(n, 3))), Op("w", idr, 7)])
        out.append((f"OpEntryPoint/{n}", [ep], 0))
    # id lists: OpTypeStruct with 65532 / 65533 members (65534 / 65535 words)
    for n in (255, 256, 257, 65532, 65533):
        out.append((f"OpTypeStruct/{n}", [I(g.opv["TypeStruct"], "TypeStruct", None, 1, [Op("w", idr, 2 + (k % 50000)) for k in range(n)])], 0))
    # pair lists: OpSwitch with 32765 / 32766 cases (65533 / 65535 words) inside a block
    for n in (32765, 32766):
        ops = [Op("w", idr, 5), Op("w", idr, 4)]
        for k in range(n):
            ops += [Op("w", l32, k), Op("w", idr, 4)]
        body = [I(g.opv["TypeVoid"], "TypeVoid", None, 1, []),
                I(g.opv["TypeFunction"], "TypeFunction", None, 2, [Op("w", idr, 1)]),
                I(g.opv["Function"], "Function", 1, 3, [Op("w", g.vix["FunctionControl"], 0), Op("w", idr, 2)]),
                I(g.opv["Label"], "Label", None, 4, []),
                I(g.opv["Switch"], "Switch", None, None, ops),
                I(g.opv["FunctionEnd"], "FunctionEnd", None, None, [])]
        out.append((f"OpSwitch/{n}", body, 4))
    return out
