"""C16 — opcode classification predicates agree with the SPIR-V specification."""
import json
import checklib as C
from props import common
from props.common import PRED

MODULE = "Rspirv.Props.C16All"
THEOREMS = ["Rspirv.Props.C16.covers_ok", "Rspirv.Props.C16.locationDebug_ok", "Rspirv.Props.C16.nonLocationDebug_ok",
            "Rspirv.Props.C16.annotation_ok", "Rspirv.Props.C16.type_ok", "Rspirv.Props.C16.constant_ok",
            "Rspirv.Props.C16.variable_ok", "Rspirv.Props.C16.return_ok", "Rspirv.Props.C16.abort_ok",
            "Rspirv.Props.C16.branch_ok", "Rspirv.Props.C16.rows_ok", "Rspirv.Props.C16.C16_base",
            "Rspirv.Props.C16.C16_derived", "Rspirv.Props.C16.C16_covers",
            # the Builder clause: every generated method ends the block iff the predicate accepts its opcode
            "Rspirv.Props.C06.methods_ok", "Rspirv.Props.C06.C06_terminators", "Rspirv.Props.C06.terminators_covered"]
NEEDS = ("header", "core", "decode", "operand_enum", "asm_arms", "parse_operand", "operands", "builder", "traversals")


def run(ctx):
    T, ext = common.stage_translate_and_extract(ctx)
    have = C.need(ctx, *NEEDS)
    if ext is None:
        ctx.issue("harness-build", "the harness no longer builds against the working tree: " + ctx.data.get("harness_error", "")[-400:])
        return C.finish(ctx)
    failing = []
    if have:
        with C.Lock():
            failing = C.prove(ctx, MODULE, THEOREMS, files=["Rspirv/Props/C16.lean", "Rspirv/Props/C06.lean", "Rspirv/Reference/SpecClass.lean"])
    diffs = common.c16_diff(ext)
    for i, o, name, exp, obs in diffs:
        ctx.issue(f"C16:{PRED[i]}:{name}",
                  f"reflect::{PRED[i]}(Op::{name}) = {str(obs).lower()}, the specification class says {str(exp).lower()}",
                  witness={"predicate": PRED[i], "opcode": o, "opname": name, "expected": exp, "observed": obs,
                           "replay": f"rspirv::grammar::reflect::{PRED[i]}(spirv::Op::{name})"}, found_input=True, kind="oracle")
    rowbad = []
    for o, b in ext["reflect"]:
        t = [c == "1" for c in b]
        if t[2] != (t[0] or t[1]) or t[9] != (t[7] or t[8]) or t[11] != (t[10] or t[9]) or sum(t[i] for i in (0, 1, 3, 4, 5, 6, 7, 8, 10)) > 1:
            rowbad.append((o, b))
    names = {e["opcode"]: e["name"] for e in ext["core"]}
    for o, b in rowbad[:10]:
        ctx.issue(f"C16:row:{names.get(o, o)}", "derived predicate is not the documented union, or two base classes overlap",
                  witness={"opcode": o, "bits": dict(zip(PRED, b))}, found_input=True, kind="oracle")
    # the Builder clause: which generated method ends (or does not end) the block against the predicate's verdict
    from props import c06diag
    bdiag = []
    if have and "builder" in T:
        kn6 = common.known("C06")
        for name, why in c06diag.diagnose(T, ext):
            if "end_block" in why or "('term'" in why:      # the method ends the block xor the predicate accepts the opcode
                if f"C06:method:{name}" in kn6:
                    continue
                bdiag.append((name, why))
                ctx.issue(f"C16:builder:{name}", f"Builder::{name}: {why}", witness={"method": name, "reason": why,
                          "replay": f"call Builder::{name} in an open block and look at selected_block()"}, found_input=True, kind="oracle")
    explained = bool(diffs or rowbad or bdiag)
    for n, e in failing:
        ctx.log(f"obligation failed: {n}: {e['msg'][:120]}")
        if not explained:
            ctx.issue(f"theorem:{n}", f"Lean obligation no longer checks: {e['msg'][:300]}", witness=e)
    ctx.evaluations += len(ext["reflect"]) * 12
    for o, b in ext["reflect"]:
        if "1" in b:
            ctx.distinct.add(o)
    ctx.coverage["exhaustive"] = True
    ctx.coverage["opcodes"] = len(ext["reflect"])
    ctx.coverage["predicates"] = len(PRED)
    ctx.samples = [{"opcode": o, "name": names.get(o), "bits": b} for o, b in ext["reflect"] if "1" in b][:8]
    ctx.assumptions += ["Reference/SpecClass.lean (authored from the specification's definitions, DESIGN §7.3) is the judge",
                        "extraction executes the real predicates on every opcode of the grammar table (complete graph)",
                        "the clause 'the Builder ends a block for exactly the terminator opcodes' is decided under C06 (builder method table)"]
    return C.finish(ctx, level="proof", checker_cmd="lake build Rspirv.Props.C16 (decide +kernel over the extracted 787x12 truth table) + #print axioms",
                    rule="all 787 opcodes x 12 predicates, exhaustive; distinct non-trivial = opcodes on which some predicate holds",
                    trusted=["extractor (exhaustive)", "SpecClass reference"])


def replay(ctx, path):
    r = json.load(open(path))
    print(json.dumps(r, indent=1)[:1500])
    return run(ctx)
