"""C01 — load-then-assemble reproduces every instruction of the input binary."""
import json
import os
import random
import checklib as C
import instgen
from props import common, c07

MODULE = "Rspirv.Props.C01All"
P = "Rspirv.Props.C01."
THEOREMS = [P + n for n in ("pick_perm", "pick_sorted", "pick_sublist", "sect_push", "step_openOk", "step_part", "run_part",
                            "C01_partition", "C01_traversal", "C01_perm", "C01_sublist", "C01_identity", "C01_words",
                            "feed_insts", "C01_loadBytes")] + \
           ["Rspirv.Props.C01Words." + n for n in ("str_words", "elem_words", "operand_words", "literal_words", "many_words",
                                                   "nested_words", "specOp_words", "one_words", "loop_words", "inst_words",
                                                   "packStr_words", "assemble_words", "opWords_agree", "instWords_agree",
                                                   "parseInst_words")] + \
           ["Rspirv.Props.Reload." + n for n in ("load_canon", "step_cinv", "canon_of_load", "load_header", "C01_reload")] + \
           ["Rspirv.Props.RoundTrip." + n for n in ("insts_asm", "assemble_load", "parse_header_form", "C01_reload_bytes",
                                                    "grammarStreamB_sound")] + ["Rspirv.Props.C01End.C01_reload_scope"] + \
           ["Rspirv.Props.C01Layout." + n for n in ("asm_len", "insts_stream", "C01_reload_layout")] + \
           ["Rspirv.Props.C01Full." + n for n in ("insts_chunks", "reencode", "Chunks.length", "Chunks.reencode", "C01_full", "C01_reload_full")] + \
           ["Rspirv.Props.C01End.C01_full_inst"]
NEEDS = ("header", "core", "glsl", "opencl", "traversals", "decode", "operand_enum", "asm_arms", "parse_operand", "operands",
         "operand_reflect", "disas_operand")
SECTION = {"cap": 0, "ext": 1, "imp": 2, "mm": 3, "ep": 4, "em": 5, "dbg1": 6, "dbg2": 7, "dbg3": 8, "ann": 9, "tgv": 10}
KNOWN_PARAM = "C01:function-parameter-after-label"
KNOWN_WIDTH = "C01:reload-literal-width-late-type"


def sec_index(tag):
    return SECTION.get(tag, 11)


class Oracle:
    """C01 on the implementation's answer: header version/bound kept, instructions = stable partition of the input by
    logical-layout section, each re-encoded to the generator's own (specification) encoding"""

    def __init__(self):
        self.expect = {}
        self.same = {}

    def add(self, req, tagged, version, bound, padded=None):
        self.expect[req] = (tagged, version, bound, padded)

    def add_same(self, req, words):
        """if accepted, the instruction words must come back exactly (input in layout order, no string operands touched)"""
        self.same[req] = words

    def __call__(self, req, resp):
        if resp.startswith("panic"):
            return "panicked: " + resp[6:100]
        if req in self.same:
            if not resp.startswith("ok "):
                return None
            words = [int(x) for x in resp[3:].split(",")]
            want = self.same[req]
            if words[1] != want[1] or words[3] != want[3]:
                return f"header version/bound {words[1]:#x}/{words[3]} differ from the input's {want[1]:#x}/{want[3]}"
            if words[5:] != want[5:]:
                pos = next((j for j, (a, b) in enumerate(zip(words[5:], want[5:])) if a != b), min(len(words), len(want)) - 5)
                return (f"accepted, but the instruction words differ from the input's at word {pos}: got {words[5 + pos:9 + pos]}, "
                        f"the input has {want[5 + pos:9 + pos]}")
            return None
        if req not in self.expect:
            return None
        tagged, version, bound, padded = self.expect[req]
        if not resp.startswith("ok "):
            return "a well-formed module was not loaded: " + (bytes.fromhex(resp.split(' ')[1]).decode('utf-8', 'replace') if resp.startswith('err ') else resp[:60])
        words = [int(x) for x in resp[3:].split(",")]
        if len(words) < 5 or words[0] != instgen.MAGIC or words[1] != version or words[3] != bound or words[4] != 0:
            return f"header words {words[:5]}: version {version:#x} and bound {bound} of the input must come back"
        order = sorted(range(len(tagged)), key=lambda k: sec_index(tagged[k][0]))      # stable
        want = []
        for k in order:
            want += tagged[k][1].words()
        got = words[5:]
        if got != want:
            # locate the first differing instruction for the message
            pos = next((j for j, (a, b) in enumerate(zip(got, want)) if a != b), min(len(got), len(want)))
            return (f"instruction words differ from the input's at word {pos} of {len(want)} (got {len(got)} words): "
                    f"got {got[pos:pos + 4]}, the input has {want[pos:pos + 4]}")
        return None


def shuffled(tagged, rnd):
    """module-level instructions in random order, still before the functions; section-internal order is kept by the
    oracle's stable sort"""
    glob = [t for t in tagged if not t[0].startswith("fn:")]
    fns = [t for t in tagged if t[0].startswith("fn:")]
    # keep type declarations before their use by typed constants (the parser's literal width depends on them):
    # permute whole sections instead of single instructions for tgv
    groups = {}
    for t in glob:
        groups.setdefault(t[0], []).append(t)
    names = list(groups)
    rnd.shuffle(names)
    out = []
    # interleave two sections instruction-wise now and then (relative order inside each kept)
    for n in names:
        out += groups[n]
    if rnd.random() < 0.5 and len(names) >= 2:
        a, b = rnd.sample([n for n in names if n != "tgv"] or names, 2) if len([n for n in names if n != "tgv"]) >= 2 else (names[0], names[0])
        if a != b:
            ia, ib = iter(groups[a]), iter(groups[b])
            merged = []
            la, lb = list(groups[a]), list(groups[b])
            while la or lb:
                if la and (not lb or rnd.random() < 0.5):
                    merged.append(la.pop(0))
                else:
                    merged.append(lb.pop(0))
            out = [t for t in out if t[0] not in (a, b)] + merged
    return out + fns


def garbage_pad(words_of, inst, rnd):
    """the instruction's words with non-zero bytes after each string's NUL terminator (same decoded instruction)"""
    w = list(inst.words())
    pos = 1 + (inst.rtype is not None) + (inst.rid is not None)
    changed = False
    for o in inst.ops:
        n = len(o.words())
        if o.kind == "s":
            L = len(o.value)
            free = 4 * n - L - 1
            if free > 0:
                last = w[pos + n - 1]
                keep = (L % 4) + 1          # bytes of the last word up to and including the NUL
                mask = (1 << (8 * keep)) - 1
                w[pos + n - 1] = (last & mask) | (rnd.randrange(1, 1 << (8 * (4 - keep))) << (8 * keep)) if keep < 4 else last
                changed = changed or w[pos + n - 1] != last
        pos += n
    return w, changed


def run(ctx):
    with C.Lock():
        T, fails = C.translate_all(ctx)
        hok, herr = C.build_harness(ctx, bins=("impl",))
        have = C.need(ctx, *NEEDS)
        failing = C.prove(ctx, MODULE, THEOREMS, extra_targets=["driver"],
                          files=["Rspirv/Props/C01.lean", "Rspirv/Props/C01Words.lean", "Rspirv/Props/Reload.lean", "Rspirv/Props/RoundTrip.lean", "Rspirv/Props/C01Layout.lean", "Rspirv/Props/C01Full.lean", "Rspirv/Props/C01End.lean", "Rspirv/Props/C02.lean", "Rspirv/Model/Loader.lean", "Rspirv/Model/LoadBytes.lean",
                                 "Rspirv/Model/Assemble.lean", "Rspirv/Model/Module.lean"]) if have else []
    for n, e in failing:
        ctx.issue(f"theorem:{n}", f"Lean obligation no longer checks: {e['msg'][:300]}", witness=e)
    if not hok:
        ctx.issue("harness-build", "the harness no longer builds against the working tree: " + herr[-400:])
        return C.finish(ctx)
    broken = not have or any(n == "<build>" for n, _ in failing)
    TG = T if have else C.load_pinned_T()
    rnd = random.Random(ctx.seed)
    g = instgen.Gen(TG, rnd)
    mg = instgen.ModuleGen(g, common.specclass())
    oracle = Oracle()
    reqs = []
    stats = {"layout-order": 0, "shuffled-sections": 0, "string-padding": 0, "duplicates": 0}
    nm = 60 if ctx.tier == "quick" else 1500
    for mi in range(nm):
        tagged = mg.module(size=rnd.choice([0.5, 1.0, 2.0]))
        version = instgen.some_version(rnd)
        bound = rnd.choice([1, 77, 4294967295, 1 + max([i.rid or 0 for _, i in tagged] + [0])])
        variants = [("layout-order", tagged)]
        # identical instructions repeated (nothing may be merged away): duplicates adjacent and at the section's end
        dupable = [k for k, (t, i) in enumerate(tagged) if i.rid is None and t in ("cap", "ext", "em", "dbg1", "dbg2", "dbg3", "ann")]
        if dupable:
            k = rnd.choice(dupable)
            t, i = tagged[k]
            last = max(j for j, (t2, _) in enumerate(tagged) if t2 == t)
            dup = tagged[:k + 1] + [(t, i)] + tagged[k + 1:last + 1] + [(t, i)] + tagged[last + 1:]
            variants.append(("duplicates", dup))
        if mi % 2 == 0:
            variants.append(("shuffled-sections", shuffled(tagged, rnd)))
        for kind, tg in variants:
            words = instgen.header(version=version, bound=bound)
            for _, i in tg:
                words += i.words()
            r = "loadasm " + instgen.to_bytes(words).hex()
            if r not in oracle.expect:
                reqs.append(r)
                oracle.add(r, tg, version, bound)
                stats[kind] += 1
        if mi % 3 == 0:
            words = instgen.header(version=version, bound=bound)
            any_changed = False
            for _, i in tagged:
                w, ch = garbage_pad(None, i, rnd)
                words += w
                any_changed = any_changed or ch
            if any_changed:
                r = "loadasm " + instgen.to_bytes(words).hex()
                reqs.append(r)
                oracle.add(r, tagged, version, bound)      # comes back zero padded = the generator's own encoding
                stats["string-padding"] += 1
    # operand-word mutants of layout-ordered modules: one operand word of an instruction without string operands is set to a
    # boundary value (first words untouched: same instruction boundaries, same opcodes, still layout order). Whatever the
    # loader makes of it: if the binary is accepted, the words must come back unchanged from the first instruction on.
    BOUND = [0, 1, 0xffff, 0x10000, 0x10001, 0x7fffffff, 0x80000000, 0xffffffff]
    nmut = 0
    for mi in range(40 if ctx.tier == "quick" else 800):
        tagged = mg.module(size=rnd.choice([0.5, 1.0]))
        words = instgen.header(version=0x00010300, bound=4000)
        spans = []
        for _, i in tagged:
            w = i.words()
            if len(w) > 1 and not any(o.kind == "s" for o in i.ops):
                spans.append((len(words) + 1, len(words) + len(w)))
            words += w
        if not spans:
            continue
        for _ in range(6):
            a, b = rnd.choice(spans)
            k = rnd.randrange(a, b)
            w2 = list(words)
            w2[k] = rnd.choice(BOUND + [words[k] | 0x10000, words[k] ^ 0x10000, words[k] | 0xffff0000, (words[k] + 1) & 0xffffffff])
            if w2[k] == words[k]:
                continue
            r = "loadasm " + instgen.to_bytes(w2).hex()
            reqs.append(r)
            oracle.add_same(r, w2)
            nmut += 1
    # the opcode word embedded in OpSpecConstantOp is a full 32-bit literal: every nestable opcode with high bits set
    for r_ in g.nestable()[:: (1 if ctx.tier != "quick" else 3)]:
        g.next_id = 10
        ops = g.spec_op(force=r_, many=1)
        inst = instgen.Inst(g.opv["SpecConstantOp"], "SpecConstantOp", 3, 4, ops)
        base = instgen.header(version=0x00010300, bound=4000) + inst.words()
        for hi in (0x00010000, 0xffff0000):
            w2 = list(base)
            w2[5 + 3] |= hi
            r = "loadasm " + instgen.to_bytes(w2).hex()
            reqs.append(r)
            oracle.add_same(r, w2)
            nmut += 1
    # strings that are not UTF-8 (Latin-1 file names, lone continuation bytes, truncated sequences, overlong forms): the
    # loader may reject them, but an accepted binary must come back with the very same string words
    sv = g.vix["LiteralString"]
    for raw in (b"caf\xe9.glsl", b"\xff", b"ab\x80", b"\xc3", b"\xe2\x82", b"\xc0\xaf", b"\xed\xa0\x80", b"\xf4\x90\x80\x80", b"ok\xc3\xa9", b"abc\xfe\xffd"):
        for name, mk in (("String", lambda b: instgen.Inst(g.opv["String"], "String", None, 1, [instgen.Op("s", sv, list(b))])),
                         ("Name", lambda b: instgen.Inst(g.opv["Name"], "Name", None, None, [instgen.Op("w", g.vix["IdRef"], 1), instgen.Op("s", sv, list(b))])),
                         ("Extension", lambda b: instgen.Inst(g.opv["Extension"], "Extension", None, None, [instgen.Op("s", sv, list(b))]))):
            w2 = instgen.header(version=0x00010300, bound=40) + mk(raw).words()
            r = "loadasm " + instgen.to_bytes(w2).hex()
            reqs.append(r)
            oracle.add_same(r, w2)
            nmut += 1
    # a literal of a 64-bit type that is ONE WORD SHORT (word count 4), followed by one-word instructions that a reader running past the
    # end of the instruction could swallow; and a correct one followed by the same instructions. The loader may reject, but an accepted
    # binary must come back with the very same words
    for tdecl in (instgen.Inst(g.opv["TypeInt"], "TypeInt", None, 1, [instgen.Op("w", g.vix["LiteralBit32"], 64), instgen.Op("w", g.vix["LiteralBit32"], 0)]),
                  instgen.Inst(g.opv["TypeFloat"], "TypeFloat", None, 1, [instgen.Op("w", g.vix["LiteralBit32"], 64)])):
        for opname in ("Constant", "SpecConstant"):
            for tail in ([], [0x00010000 | g.opv["NoLine"]], [0x00010000 | g.opv["Nop"], 0x00010000 | g.opv["NoLine"]],
                         [0x00030000 | g.opv["Undef"], 1, 8, 0x00010000 | g.opv["NoLine"]], [0x00010000 | g.opv["FunctionEnd"]]):      # (all stay in place: same section)
                for short in (True, False):
                    body = [(4 if short else 5) << 16 | g.opv[opname], 1, 2, 7] + ([] if short else [9]) + tail
                    w2 = instgen.header(version=0x00010300, bound=40) + tdecl.words() + body
                    r = "loadasm " + instgen.to_bytes(w2).hex()
                    reqs.append(r)
                    oracle.add_same(r, w2)
                    nmut += 1
    stats["operand-word mutants"] = nmut
    # version words: every minor and major byte; the two bytes that are not part of the version are not kept (the header is
    # rebuilt from major.minor and the bound), so the word comes back as 0x00MMmm00
    E0 = {r["name"]: r for r in g.core}
    mm = [(2 << 16) | 0x11, 1]          # OpCapability Shader
    for b in list(range(0, 256, 5)) + [15, 16, 17, 255]:
        for word in ((1 << 16) | (b << 8), (b << 16) | (3 << 8), (b << 24) | 0x00010300 | (255 - b)):
            w2 = [instgen.MAGIC, word, 0, 9, 0] + mm
            r = "loadasm " + instgen.to_bytes(w2).hex()
            reqs.append(r)
            w3 = list(w2); w3[1] = word & 0x00ffff00
            oracle.add_same(r, w3)
    stats["version words"] = 3 * len(list(range(0, 256, 5)) + [15, 16, 17, 255])
    # the recorded finding: a parameter after the function's first label is filed in front of the blocks
    E = {r["name"]: r for r in g.core}
    g.next_id = 1
    late = [("fn:0:def", g.inst(E["Function"])), ("fn:0:blk:0:label", g.inst(E["Label"])), ("fn:0:blk:0:inst", g.inst(E["Return"])),
            ("fn:0:param", g.inst(E["FunctionParameter"])), ("fn:0:end", g.inst(E["FunctionEnd"]))]
    words = instgen.header(bound=9)
    for _, i in late:
        words += i.words()
    late_req = "loadasm " + instgen.to_bytes(words).hex()
    # modules holding an instruction of (nearly) the largest size the format can express: must be accepted and come back word for word
    # (implementation only, same oracle; see common.scale_modules)
    from props import common as _common
    scale = []
    for label, sinsts, k in _common.scale_modules(g, ctx.tier):
        w2 = instgen.header(version=0x00010300, bound=70000)
        for i_ in sinsts:
            w2 += i_.words()
        for ch in ("loadasm", "loadasmw"):
            r = ch + " " + instgen.to_bytes(w2).hex()
            scale.append(r)
            oracle.add_same(r, w2)

    def scale_oracle(req, resp):
        if not resp.startswith("ok ") and not resp.startswith("panic"):
            return "a well-formed module was not loaded: " + resp[:120]
        return oracle(req, resp)
    found_scale = C.oracle_search(ctx, scale, scale_oracle, "loadasm-scale")
    ctx.oblige(f"oracle:load-then-assemble at the largest instruction sizes ({len(scale)} requests, implementation only)", not found_scale)
    if broken:
        found = C.oracle_search(ctx, reqs, oracle, "loadasm")
        ctx.log(f"tie broken; oracle search on the implementation found a failing input: {found}")
        return C.finish(ctx)
    # the word-slice entry points (`dr::load_words`, `Module::assemble_into`) must answer like the byte ones
    wreqs = [("loadasmw " + r.split(" ", 1)[1], r) for r in reqs[:: (4 if ctx.tier == "quick" else 1)] if r.startswith("loadasm ")]
    impl, model = C.differential(ctx, reqs, "loadasm", oracle=oracle, shrink=False)
    if wreqs:
        by_req = dict(zip(reqs, impl))
        wimpl = C.run_impl(ctx, [w for w, _ in wreqs])
        wmodel = C.run_driver(ctx, [w for w, _ in wreqs])
        ctx.evaluations += len(wreqs)
        wbad = [(w, a, by_req[r], b) for (w, r), a, b in zip(wreqs, wimpl, wmodel) if a != by_req[r] or C.canon(a) != C.canon(b)]
        for w, a, base, b in wbad[:3]:
            ctx.issue(f"oracle:load_words:{w[:100]}", "dr::load_words / assemble_into answers differently from dr::load_bytes / assemble (or from the model)",
                      witness={"request": w, "load_words": a[:300], "load_bytes": base[:300], "model": b[:300]}, found_input=True, kind="oracle")
        ctx.oblige(f"oracle:load_words ({len(wreqs)} inputs through the word-slice entry points)", not wbad)
    # reload: loading the output again gives an equal module (same words again)
    again = []
    for r, a in zip(reqs, impl):
        if a.startswith("ok "):
            ws = [int(x) for x in a[3:].split(",")]
            again.append(("loadasm " + instgen.to_bytes(ws).hex(), a))
    again = again[:: max(1, len(again) // (200 if ctx.tier == "quick" else 3000))]
    impl2 = C.run_impl(ctx, [r for r, _ in again])
    ctx.evaluations += len(again)
    bad = [(r, a, b) for (r, a), b in zip(again, impl2) if a != b]
    for r, a, b in bad[:3]:
        ctx.issue(f"oracle:reload:{r[:100]}", "loading the assembled output again does not reproduce it",
                  witness={"request": r, "first": a[:300], "second": b[:300]}, found_input=True, kind="oracle")
    ctx.oblige(f"oracle:reload ({len(again)} outputs loaded again)", not bad)
    # scope of the reload theorem (C01_reload_scope): the driver evaluates its hypotheses on every accepted input; inside
    # the scope the reload of the implementation's output must reproduce it
    acc = [(r, a) for r, a in zip(reqs, impl) if a.startswith("ok ")]
    acc = acc[:: max(1, len(acc) // (150 if ctx.tier == "quick" else 2000))]
    hyp = C.run_driver(ctx, ["reloadhyp " + r.split(" ")[1] for r, _ in acc])
    outs = ["loadasm " + instgen.to_bytes([int(x) for x in a[3:].split(",")]).hex() for _, a in acc]
    re2 = C.run_impl(ctx, outs)
    ctx.evaluations += len(acc)
    in_scope = 0
    for (r, a), hy, b in zip(acc, hyp, re2):
        if hy == "ok grammar=1 words32=1":
            in_scope += 1
            if a != b:
                ctx.issue(f"oracle:theorem-scope:{r[:100]}", "input inside the scope of C01_reload_scope but loading the output again gives something else",
                          witness={"request": r, "first": a[:300], "second": b[:300], "hypotheses": hy}, found_input=True, kind="oracle")
    ctx.oblige(f"oracle:theorem-scope ({in_scope} of {len(acc)} accepted inputs satisfy the hypotheses of C01_reload_scope; all reload unchanged)",
               in_scope > len(acc) // 2 and not any(i.key.startswith("oracle:theorem-scope") for i in ctx.issues))
    ctx.coverage["accepted_inputs_in_reload_theorem_scope"] = f"{in_scope}/{len(acc)}"
    # known finding probe (keyed; any other deviation of this probe is a violation of its own)
    a = C.run_impl(ctx, [late_req])[0]
    b = C.run_driver(ctx, [late_req])[0]
    ctx.evaluations += 1
    want = []
    for _, i in late:
        want += i.words()
    if a.startswith("ok "):
        got = [int(x) for x in a[3:].split(",")][5:]
        moved = []
        for k in (0, 3, 1, 2, 4):
            moved += late[k][1].words()
        if got == moved:
            ctx.issue(KNOWN_PARAM, "OpFunctionParameter after the function's first OpLabel is moved in front of the blocks",
                      witness={"request": late_req, "implementation": a}, found_input=True, kind="oracle")
        elif got != want:
            ctx.issue("oracle:late-parameter:other", "unexpected output for the late-parameter probe",
                      witness={"request": late_req, "implementation": a}, found_input=True, kind="oracle")
    if a != b:
        ctx.issue("correspondence:loadasm:late-parameter", "implementation and Lean model disagree on the late-parameter probe",
                  witness={"request": late_req, "implementation": a, "model": b}, found_input=True, kind="correspondence")
    # second recorded finding: the width of OpSwitch case literals depends on the selector's type *as tracked so far*; a
    # 64-bit integer type declared after the function (accepted) is assembled in front of it, and the output is then read
    # with 64-bit literals. Keyed to this input; any other behaviour of the probe is a violation of its own.
    lw = instgen.header(version=0x00010000, bound=10) + [
        (5 << 16) | g.opv["Function"], 1, 3, 0, 4, (2 << 16) | g.opv["Label"], 6,
        (3 << 16) | g.opv["Undef"], 2, 5, (5 << 16) | g.opv["Switch"], 5, 6, 1, 6,
        (1 << 16) | g.opv["FunctionEnd"], (4 << 16) | g.opv["TypeInt"], 2, 64, 0]
    lw_req = "loadasm " + instgen.to_bytes(lw).hex()
    a1, b1 = C.run_impl(ctx, [lw_req])[0], C.run_driver(ctx, [lw_req])[0]
    ctx.evaluations += 1
    if a1 != b1:
        ctx.issue("correspondence:loadasm:late-type", "implementation and Lean model disagree on the late-type probe",
                  witness={"request": lw_req, "implementation": a1, "model": b1}, found_input=True, kind="correspondence")
    want1 = lw[:5] + lw[-4:] + lw[5:-4]
    want1[2] = 0x000f0000
    if a1 != "ok " + ",".join(str(w) for w in want1):
        ctx.issue("oracle:late-type:first-load", "unexpected output for the late-type probe",
                  witness={"request": lw_req, "implementation": a1}, found_input=True, kind="oracle")
    else:
        again_req = "loadasm " + instgen.to_bytes(want1).hex()
        a2, b2 = C.run_impl(ctx, [again_req])[0], C.run_driver(ctx, [again_req])[0]
        ctx.evaluations += 1
        if a2 != b2:
            ctx.issue("correspondence:loadasm:late-type-reload", "implementation and Lean model disagree on the reload of the late-type probe",
                      witness={"request": again_req, "implementation": a2, "model": b2}, found_input=True, kind="correspondence")
        hy = C.run_driver(ctx, ["reloadhyp " + lw_req.split(" ")[1]])[0]
        if a2 != a1 and hy != "ok grammar=0 words32=1":
            ctx.issue("oracle:late-type:scope", "the late-type probe fails to reload although the model places it inside the scope of C01_reload_scope",
                      witness={"request": lw_req, "hypotheses": hy}, found_input=True, kind="oracle")
        if a2 != a1:
            ctx.issue(KNOWN_WIDTH, "the assembled output of an accepted binary is rejected when loaded again (OpSwitch literal width follows a type that the input declared after the function)",
                      witness={"request": lw_req, "first": a1, "reload_request": again_req, "second": a2}, found_input=True, kind="oracle")
    ctx.coverage["requests"] = stats
    ops = set()
    for r in reqs:
        for _, i in oracle.expect.get(r, ([],))[0]:
            ops.add(i.name)
    ctx.distinct |= ops
    ctx.samples = [{"request": reqs[i][:80], "implementation": impl[i][:100]} for i in (0, len(reqs) // 2, len(reqs) - 1)]
    ctx.assumptions += [
        "hypothesis of the theorems (Tidy): at most one OpMemoryModel (excluded by the property) and no OpFunctionParameter after the function's first OpLabel (recorded finding)",
        "instruction level (Props/C01Words.lean): the words parse_inst consumes for i and the words the assembler emits for i both satisfy InstWords i, and two such word lists agree in length, first word, result type/id and operand words, strings up to and including their NUL (32-bit words, word count below 65536, byte strings)"]
    return C.finish(ctx, level="proof", checker_cmd="lake build Rspirv.Props.C01All + #print axioms",
                    rule="seeded modules over all core opcodes in layout order (must come back word-identical after the header), with whole sections permuted/interleaved (must come back as the stable partition), with garbage after string terminators (must come back zero padded); outputs loaded again; strings of lengths around every power of two up to 4097 bytes; 64-bit literals one word short followed by one-word instructions; implementation only: instructions at the largest expressible sizes (65 535 words: strings up to 262 131 bytes, 65 533 struct members, 32 766 switch cases) must be accepted and come back word for word; distinct non-trivial = distinct opcodes round-tripped",
                    trusted=["hand models Loader/LoadBytes/Assemble/Module + differential harness (loadasm)", "instgen's independent encoder"])


def replay(ctx, path):
    r = json.load(open(path))
    req = (r.get("witness") or {}).get("request")
    if not req:
        return run(ctx)
    with C.Lock():
        C.translate_all(ctx)
        C.build_harness(ctx, bins=("impl",))
    hist = (r.get("witness") or {}).get("history") or []     # requests answered before it by the same process
    a, b = C.run_impl(ctx, hist + [req])[-1], C.run_driver(ctx, hist + [req])[-1]
    print("request:", req[:300]); print("implementation:", a[:400]); print("model:", b[:400])
    return 1 if a != b else 0
