"""C17 — operand reflection agrees with the parser and the grammar."""
import json
import re
import random
import checklib as C
import instgen
from props import common

MODULE = "Rspirv.Props.C17"
THEOREMS = ["Rspirv.Props.C17.enum_agree", "Rspirv.Props.C17.C17_enum", "Rspirv.Props.C17.mask_agree",
            "Rspirv.Props.C17.reflectElems_mask", "Rspirv.Props.C17.C17_mask", "Rspirv.Props.C17.pinned_check",
            "Rspirv.Props.C17.C17_pinned", "Rspirv.Props.C17.C17_ids", "Rspirv.Props.C17.C17_rewrite",
            "Rspirv.Props.C17.C17_conversions"]
NEEDS = ("header", "core", "decode", "operand_enum", "asm_arms", "parse_operand", "operands", "operand_reflect")


def diagnose(T):
    """python re-evaluation: per enumerant / per single bit, reflection vs parser (kinds), with witnesses"""
    out = []
    R = T["operand_reflect"]
    pk, pf = T["parse_operand"]
    hdr = T["header"]

    def elems_of(los):
        es = []
        for k, q in los:
            act = pk.get(k)
            es += [tuple(x) for x in act[1]] if act and act[0] == "elems" else [("?", k)]
        return es
    for v, (form, rows) in R["additional_operands"].items():
        act = pk.get(v)
        if not act or act[0] != "with_params":
            out.append((f"C17:{v}:not-parameterised-in-parser", f"reflection lists parameters for {v}, the parser has none", {"variant": v}))
            continue
        pform, pty, prows = pf[act[2]]
        if form == "enum":
            refl, pars = {}, {}
            for names, los in rows:
                for n in names:
                    refl.setdefault(n, los)
            for n, es in prows:
                pars.setdefault(n, es)
            for n, val in hdr["enum_by_name"][v]["decl"]:
                a, b = refl.get(n, []), [tuple(x) for x in pars.get(n, [])]
                if elems_of(a) != b:
                    out.append((f"C17:{v}:{n}:kinds", f"reflection reports {a}, the parser consumes {b}", {"operand": v, "enumerant": n, "value": val}))
                elif any(q != "One" for _, q in a):
                    out.append((f"C17:{v}:{n}:quantifier", f"reflection (grammar) lists {a}, the parser consumes exactly one element per kind", {"operand": v, "enumerant": n, "value": val}))
        else:
            consts = dict(next(m for m in hdr["masks"] if m["name"] == v)["consts"])
            refl = sorted((f, tuple(elems_of(los))) for flags, los in rows for f in flags)
            pars = sorted((f, tuple(tuple(x) for x in es)) for f, es in prows)
            if refl != pars:
                d = sorted(set(refl) ^ set(pars))
                out.append((f"C17:{v}:{d[0][0] if d else '?'}:kinds", f"per-bit parameters differ between reflection and parser: {d[:3]}",
                            {"operand": v, "flag": d[0][0] if d else None, "value": consts.get(d[0][0]) if d else None}))
    return out


def run(ctx):
    with C.Lock():
        T, fails = C.translate_all(ctx)
        common.emit_findings(ctx, ctx.data.get("ext"))
        hok, herr = C.build_harness(ctx, bins=("impl",))
        have = C.need(ctx, *NEEDS)
        failing = C.prove(ctx, MODULE, THEOREMS, extra_targets=["driver"],
                          files=["Rspirv/Props/C17.lean", "Rspirv/Model/Reflect.lean"]) if have else []
    if not hok:
        ctx.issue("harness-build", "the harness no longer builds against the working tree: " + herr[-400:])
        return C.finish(ctx)
    diag = diagnose(T) if have else []
    for key, what, w in diag:
        ctx.issue(key, what, witness=w, found_input=True, kind="oracle")
    kn = common.known("C17")
    for n, e in failing:
        ctx.log(f"obligation failed: {n}: {e['msg'][:140]}")
        if not [d for d in diag if d[0] not in kn]:
            ctx.issue(f"theorem:{n}", f"Lean obligation no longer checks: {e['msg'][:300]}", witness=e)
    broken = (not have) or any(n == "<build>" for n, _ in failing)
    if broken:
        return C.finish(ctx)
    rnd = random.Random(ctx.seed)
    g = instgen.Gen(T, rnd)
    vix = g.vix
    reqs = []
    hdr = T["header"]
    # every enumerant of every value enum variant, every single bit + seeded combinations of every mask variant
    for v, pay in T["operand_enum"]:
        if not pay.startswith("spirv::"):
            reqs.append(f"reflect {vix[v]}:{rnd.randrange(1 << 16)}" if pay in ("word", "u32") else f"reflect {vix[v]}:0" if pay == "op" else f"reflect {vix[v]}:Q5" if pay == "u64" else f"reflect {vix[v]}:S61")
            continue
        ty = pay[7:]
        if ty in g.masks:
            consts = [c for _, c in g.masks[ty]["consts"]]
            allb = 0
            for c in consts:
                allb |= c
            vals = set(consts) | {0, allb}
            for _ in range(40 if ctx.tier == "quick" else 600):
                vals.add(rnd.randrange(1 << 32) & allb)
            for x in sorted(vals):
                reqs.append(f"reflect {vix[v]}:{x}")
        else:
            for _, x in g.enums[ty]["decl"]:
                reqs.append(f"reflect {vix[v]}:{x}")
    # id rewriting on generated instructions
    for entry in g.core:
        inst = g.inst(entry)
        for k, o in enumerate(inst.ops):
            if o.kind == "w" and rnd.random() < 0.5:
                reqs.append(f"idmut {inst.text()} {k} {rnd.randrange(1, 1 << 32)}")

    # conversions: `From<T> for Operand` and the `unwrap_*` accessors themselves are executed on one payload of every variant,
    # and every accessor on an operand of every other variant (must panic) resp. its own (must return the payload)
    base = [r.split(" ")[1] for r in reqs if r.startswith("reflect ")]
    one_per_variant = {}
    for tok in base:
        one_per_variant.setdefault(int(tok.split(":")[0]), tok)
    nconv = 0
    # string payloads with NULs (also trailing ones), empty, multi-byte
    svi = vix["LiteralString"]
    strings = [f"{svi}:S{x.encode().hex()}" if x else f"{svi}:S-" for x in ("", "\0", "abc\0", "a\0b", "x\0\0", "\0x", "é\0", "日本", " ", "a b\n\"q\"\\")]
    for tok in base[:: (7 if ctx.tier == "quick" else 1)] + list(one_per_variant.values()) + strings:
        reqs.append("conv " + tok); nconv += 1
    unw = T["operand_reflect"]["unwrap"]
    own = {vix[v]: j for j, (_, _, v) in enumerate(unw)}
    for vi, tok in one_per_variant.items():
        for j in range(len(unw)):
            if ctx.tier != "quick" or j == own.get(vi) or (j + vi) % 5 == 0:
                reqs.append(f"unwrapx {tok} {j}"); nconv += 1
    for fn, _, v in unw:
        snake = re.sub(r"(?<=[a-z0-9])([A-Z])|(?<=[A-Z])([A-Z])(?=[a-z])", lambda m: "_" + (m.group(1) or m.group(2)), v).lower()
        ctx.oblige(f"accessor name: {fn} is the accessor of Operand::{v}", fn.replace("_", "") == ("unwrap_" + snake).replace("_", ""))

    def oracle(req, resp):
        if req.startswith("unwrapx "):
            _, tok, j = req.split(" ")
            mine = own.get(int(tok.split(":")[0])) == int(j)
            if mine:
                return None if resp == "ok " + tok else f"accessor of the operand's own variant answered {resp[:80]}"
            return None if resp.startswith("panic") else f"accessor of another variant answered {resp[:80]} instead of panicking"
        if req.startswith("conv "):
            tok = req.split(" ")[1]
            if resp.startswith("panic"):
                return "panicked: " + resp[6:80]
            parts = resp.split(" ")
            if len(parts) != 3 or parts[0] != "ok":
                return "malformed answer " + resp[:80]
            if parts[2] != tok:
                return f"extracting the payload of {tok} gives {parts[2]}"
            if parts[1] != "-" and parts[1].split(":", 1)[1] != tok.split(":", 1)[1]:
                return f"converting the payload of {tok} into an operand gives {parts[1]}"
            return None
        if resp.startswith("panic"):
            return "panicked: " + resp[6:80]
        if req.startswith("idmut "):
            _, itext, k, new = req.split(" ")
            ops = itext.split(";")[3].split(",")
            vi = int(ops[int(k)].split(":")[0])
            is_id = g.variants[vi] in ("IdRef", "IdScope", "IdMemorySemantics")
            if not is_id:
                return None if resp == "ok not-an-id" else "a non-id operand reported an id: " + resp
            if not resp.startswith("ok changed "):
                return "rewriting an id: " + resp
            ch = resp[11:]
            old = int(ops[int(k)].split(":")[1])
            if int(new) == old:
                return None if ch == "-" else "words changed although the id is the same"
            parts = ch.split(",")
            if len(parts) != 1 or parts[0].split(":")[1] != new:
                return f"rewriting one id changed {ch}"
            return None
        if not resp.startswith("ok "):
            return None
        vi = int(req.split(" ")[1].split(":")[0])
        is_id = g.variants[vi] in ("IdRef", "IdScope", "IdMemorySemantics")
        idf = resp.split(" id:")[1]
        if is_id != (idf != "-"):
            return f"id_ref_any answers {idf} for variant {g.variants[vi]}"
        return None

    impl, model = C.differential(ctx, reqs, "reflect", oracle=oracle, shrink=False)
    ctx.coverage["reflect_probes"] = sum(1 for r in reqs if r.startswith("reflect"))
    ctx.coverage["idmut_probes"] = sum(1 for r in reqs if r.startswith("idmut"))
    ctx.coverage["conversion_probes"] = nconv
    for a in impl:
        if a != "ok add:- caps:- exts:- id:-":
            ctx.distinct.add(a)
    ctx.samples = [{"request": reqs[i][:120], "implementation": impl[i][:200]} for i in (3, len(reqs) // 3, len(reqs) - 1)]
    ctx.assumptions += ["'parameters / capabilities / extensions the Khronos grammar lists' = the pinned snapshot Reference/PinnedReflect.lean (DESIGN §7)",
                        "bitflags contains/intersects as documented (probed on every single bit and seeded combinations)"]
    return C.finish(ctx, level="proof", checker_cmd="lake build Rspirv.Props.C17 + #print axioms",
                    rule="reflect: every enumerant of every value-enum operand variant, every declared mask constant, 0, all() and seeded combinations of every mask variant, one value of every other variant; idmut: one-word operands of generated instructions of every opcode; distinct non-trivial = distinct non-empty reflection answers",
                    trusted=["translators operand_reflect.py / parse_operand.py", "differential harness (chan/reflect.rs)", "pinned snapshot"])


def replay(ctx, path):
    r = json.load(open(path))
    print(json.dumps(r, indent=1)[:1500])
    return run(ctx)
