"""C19 — storage tokens are stable handles."""
import itertools
import random
import checklib as C

MODULE = "Rspirv.Props.C19"
THEOREMS = ["Rspirv.Props.C19.append_token", "Rspirv.Props.C19.step_extends", "Rspirv.Props.C19.step_stable",
            "Rspirv.Props.C19.step_token_valid", "Rspirv.Props.C19.fetch_first", "Rspirv.Props.C19.fetch_absent",
            "Rspirv.Props.C19.fetch_cases", "Rspirv.Props.C19.C19_run", "Rspirv.Props.C19.C19_fresh",
            "Rspirv.Props.C19.C19_stable"]

CLASSES = [0, 1, 2, 100, 101, 1000, 1001]


def veq(a, b):
    """the harness's equality: irreflexive for class 0 and classes 1000..1999, asymmetric (a class >= 100 also equals class + 1 on the right)"""
    return a != 0 and ((a == b and not 1000 <= a < 2000) or (a >= 100 and a + 1 == b))


def oracle(req, resp):
    """C19 evaluated directly on the implementation's answer (independent of the Lean model)."""
    if not resp.startswith("ok "):
        return "call failed: " + resp
    head, ops = req.split(" ", 1)[0], [o for o in req.split(" ")[1:] if o]
    body, fin = resp[3:].split(" | ") if " | " in resp else (resp[3:].rstrip(" |"), "")
    toks = [x.split("=") for x in body.split(" ") if x]
    fin = [x for x in fin.split(" ") if x]
    if len(toks) != len(ops):
        return "token count"
    stored = []   # (payload, class) in insertion order, as the property dictates
    for (k, v), (t, shown) in zip(((o[:2], o[2:]) for o in ops), toks):
        t = int(t)
        if head == "store":
            p, c = (int(x) for x in v.split(":"))
            eq = lambda s, c=c: veq(s[1], c)
        else:
            p, c = int(v), int(v)
            def eq(s, c=c):
                nan = lambda b: (b >> 23) & 255 == 255 and b & 0x7fffff != 0
                return not nan(s[1]) and not nan(c) and (s[1] == c or (s[1] & 0x7fffffff == 0 and c & 0x7fffffff == 0))
        want = None
        if k == "f:":
            want = next((i for i, s in enumerate(stored) if eq(s)), None)
        if want is None:
            want = len(stored)
            stored.append((p, c))
        if t != want:
            return f"op {k}{v}: token {t}, the property demands {want}"
        if int(shown) != stored[t][0]:
            return f"op {k}{v}: lookup through token {t} gives {shown}, stored value is {stored[t][0]}"
    for (t, _), f in zip(toks, fin):
        if int(f) != stored[int(t)][0]:
            return f"token {t} no longer yields its value at the end of the history"
    return None


def oracle_z(req, resp):
    """zero-sized values: `r` every two values equal, `i` no value equals any"""
    if not resp.startswith("ok "):
        return "call failed: " + resp
    toks = req.split(" ")
    mode, ops = toks[1], [o for o in toks[2:] if o]
    got = [x.split("=")[0] for x in resp[3:].split(" | ")[0].split(" ") if x]
    n = 0
    for k, (op, t) in enumerate(zip(ops, got)):
        want = 0 if (op == "f:" and mode == "r" and n > 0) else n
        if want == n:
            n += 1
        if int(t) != want:
            return f"op {k} ({op}) on a storage of {n} zero-sized values ({'reflexive' if mode == 'r' else 'irreflexive'} equality): token {t}, the property demands {want}"
    return None


def gen(ctx):
    rnd = random.Random(ctx.seed)
    reqs = []
    # exhaustive short histories: ops x classes, lengths 0..L
    L = 4
    alpha = [(k, c) for k in ("a", "f") for c in CLASSES]
    for n in range(0, L + 1):
        for w in itertools.product(alpha, repeat=n):
            reqs.append("store " + " ".join(f"{k}:{i + 1}:{c}" for i, (k, c) in enumerate(w)))
    ctx.coverage["exhaustive_upto_len"] = L
    N = 300 if ctx.tier == "quick" else 5000
    for _ in range(N):
        n = rnd.randrange(5, 60)
        reqs.append("store " + " ".join(f"{rnd.choice('af')}:{i + 1}:{rnd.choice(CLASSES + [3, 4])}" for i in range(n)))
    # long histories: thousands of values (a storage that changes its layout past some size must keep every token's meaning)
    for n in ([1030, 2100] if ctx.tier == "quick" else [1030, 2100, 4100, 5000, 9000]):
        ops = []
        for i in range(n):
            k = "f" if (i % 97 == 5) else "a"
            ops.append(f"{k}:{i + 1}:{rnd.choice([0, 10000 + i, 10000 + i, 100 + (i % 7), 1000 + (i % 3)])}")
        reqs.append("store " + " ".join(ops))
    fl = [0, 0x80000000, 0x7fc00000, 0x7fc00001, 0xffc00000, 0x3f800000, 0xbf800000, 0x7f800000, 1, 0x7f7fffff]
    for _ in range(N):
        n = rnd.randrange(1, 40)
        reqs.append("storef " + " ".join(f"{rnd.choice('af')}:{rnd.choice(fl)}" for i in range(n)))
    return reqs


def run(ctx):
    with C.Lock():
        hok, herr = C.build_harness(ctx, bins=("impl",))
        failing = C.prove(ctx, MODULE, THEOREMS, extra_targets=["driver"],
                          files=["Rspirv/Props/C19.lean", "Rspirv/Model/Storage.lean"])
    for n, e in failing:
        ctx.issue(f"theorem:{n}", f"Lean obligation no longer checks: {e['msg'][:300]}", witness=e)
    if not hok:
        ctx.issue("harness-build", "the harness no longer builds against the working tree: " + herr[-400:])
        return C.finish(ctx)
    reqs = gen(ctx)
    # histories of more than 2^16 values (implementation only — the model appends to a list, quadratic at this size; same oracle):
    # tokens are indices, and index 65536 + k is not index k
    big = []
    for n in ((66000,) if ctx.tier == "quick" else (65535, 65536, 65537, 66000, 140000)):
        ops = []
        for i in range(n):
            if i % 997 == 5:
                ops.append(f"f:{i + 1}:{10000 + 2 * (i // 2)}")          # equal to the value stored at position i // 2 (or new if that was a fetch)
            elif i % 4999 == 7:
                ops.append(f"a:{i + 1}:{10000 + 2 * (i // 3)}")          # an appended duplicate of an earlier value
            else:
                ops.append(f"a:{i + 1}:{10000 + 2 * i}")
        ops += [f"f:{n + 1}:{10000 + 2 * (n - 3)}", f"f:{n + 2}:{10000 + 2 * 8}", f"a:{n + 3}:0", f"f:{n + 4}:{10000 + 2 * 65540}", f"a:{n + 5}:1000", f"f:{n + 6}:1001", f"f:{n + 7}:1000"]
        big.append("store " + " ".join(ops))
    found_big = C.oracle_search(ctx, big, oracle, "store-big")
    ctx.oblige(f"oracle:histories of more than 2^16 values ({len(big)} histories, implementation only)", not found_big)
    # zero-sized value types (reflexive and irreflexive equality): all histories up to length 5, and long ones
    zreqs = []
    for mode in "ri":
        for n in range(0, 6):
            for w in itertools.product(("a:", "f:"), repeat=n):
                zreqs.append(f"storez {mode} " + " ".join(w))
        rz = random.Random(ctx.seed + 7)
        for n in (31, 32, 33, 34, 63, 64, 65, 70, 129, 300, 1030):
            zreqs.append(f"storez {mode} " + " ".join(rz.choice(("a:", "a:", "f:")) for _ in range(n)))
    C.differential(ctx, zreqs, "store-zero-sized", oracle=oracle_z)
    impl, model = C.differential(ctx, reqs, "store", oracle=oracle)
    for r, a in zip(reqs, impl):
        if " f:" in r and len(r) > 12:
            ctx.distinct.add(a)
    ctx.samples = [{"request": reqs[i], "implementation": impl[i]} for i in (len(reqs) // 3, len(reqs) // 2, len(reqs) - 1)]
    ctx.coverage["fetch_hits"] = sum(1 for r in reqs for _ in [0] if " f:" in r)
    ctx.assumptions += ["storage holds fewer than 2^32 values (Index = u32; `len() as u32` then agrees with the model's naturals)",
                        "Vec push/index/iter().position as documented",
                        "hand-written model Rspirv/Model/Storage.lean tied by the `store`/`storef` channels (differential)"]
    return C.finish(ctx, level="proof", checker_cmd="lake build Rspirv.Props.C19 + #print axioms",
                    rule="all histories of length <= L over {append, fetch} x 7 equality classes (irreflexive for class 0 and classes 1000-1999 - which are still matched by the class below -, asymmetric for classes >= 100), plus seeded long histories on the custom type and on f32 bit patterns with NaNs and signed zeros; implementation only: histories of 66 000 (thorough up to 140 000) values; distinct non-trivial = distinct responses of histories containing a fetch",
                    trusted=["hand model Storage.lean + differential harness (chan/store.rs)"])


def replay(ctx, path):
    import json
    r = json.load(open(path))
    req = (r.get("witness") or {}).get("request")
    if not req:
        return run(ctx)
    with C.Lock():
        C.build_harness(ctx, bins=("impl",))
    hist = (r.get("witness") or {}).get("history") or []     # requests answered before it by the same process
    a, b = C.run_impl(ctx, hist + [req])[-1], C.run_driver(ctx, hist + [req])[-1]
    print("request:       ", req)
    print("implementation:", a)
    print("model:         ", b)
    print("oracle:        ", oracle(req, a))
    return 1 if (C.canon(a) != C.canon(b) or oracle(req, a)) else 0
