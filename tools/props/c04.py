"""C04 — parsing, loading, assembling and disassembling never panic on any input."""
import json
import os
import random
import checklib as C
import instgen
import mutate
from props import common, c07

MODULE = "Rspirv.Props.C04"
P = "Rspirv.Props.C04."
THEOREMS = [P + n for n in ("decodeElem_safe", "decodeElems_safe", "parseOperand_safe", "parseLiteral_safe", "parseMany_safe",
                            "parseNested_safe", "parseSpecConstantOp_safe", "parseOne_safe", "loop_safe", "track_some",
                            "parseInst_safe", "parseLoop_safe", "C04_parse", "feed_some", "C04_load", "C20_main", "tables_safe",
                            "C04", "C04_loader", "C20")]
NEEDS = ("header", "core", "glsl", "opencl", "traversals", "decode", "operand_enum", "asm_arms", "parse_operand", "operands",
         "operand_reflect", "disas_operand")
CORPORA = ["C11/d1-d3.txt", "C03/d4-d6.txt", "C07/d7-d8.txt", "C05/d12.txt"]


def oracle(req, resp):
    if resp.startswith("panic"):
        return "panicked: " + resp[6:160]
    return None


def corpus():
    out = []
    for f in CORPORA:
        p = os.path.join(C.VERIF, "corpus", f)
        if os.path.exists(p):
            out += [l.strip() for l in open(p) if l.strip() and not l.startswith("#")]
    d = os.path.join(C.VERIF, "corpus", "C04")
    if os.path.isdir(d):
        for f in sorted(os.listdir(d)):
            out += [l.strip() for l in open(os.path.join(d, f)) if l.strip() and not l.startswith("#")]
    return out


def ty32(g, lit32):
    """%1 = OpTypeInt 32 1"""
    return instgen.Inst(g.opv["TypeInt"], "TypeInt", None, 1, [instgen.Op("w", lit32, 32), instgen.Op("w", lit32, 1)]).words()


def hostile_requests(TG, rnd, tier, channels=("dismain", "parse", "loadasm")):
    """well-formed seeded modules and every systematic way of breaking them"""
    g = instgen.Gen(TG, rnd)
    mg = instgen.ModuleGen(g, common.specclass())
    reqs, stats = [], {}
    nm = 10 if tier == "quick" else 120
    for mi in range(nm):
        insts = mg.module(size=rnd.choice([0.3, 0.6, 1.0]))
        words = instgen.module_words(insts)
        hx = instgen.to_bytes(words).hex()
        for ch in channels:
            reqs.append(f"{ch} {hx}")
        stats["valid"] = stats.get("valid", 0) + 1
        for label, data in mutate.mutants(words, rnd, cap=40 if tier == "quick" else 200):
            ch = channels[len(reqs) % len(channels)] if tier == "quick" else None
            for c in ([ch] if ch else channels):
                reqs.append(f"{c} {data.hex() or '-'}")
            k = label.split("@")[0]
            stats[k] = stats.get(k, 0) + 1
    # structure: every word of length <= 4 (5) over the loader's 9-letter alphabet, as a binary; instruction-level
    # deletion / duplication / swap in seeded modules
    import itertools
    E = {r["name"]: r for r in g.core}
    g.next_id = 1
    letters = {"m": g.inst(E["Capability"]), "L": g.inst(E["Line"]), "v": g.inst(E["Variable"]), "f": g.inst(E["Function"]),
               "e": g.inst(E["FunctionEnd"]), "p": g.inst(E["FunctionParameter"]), "l": g.inst(E["Label"]),
               "t": g.inst(E["Return"]), "o": g.inst(E["IAdd"])}
    maxlen = 4 if tier == "quick" else 5
    nwords = 0
    for n in range(0, maxlen + 1):
        for w in itertools.product("mLvfeplto", repeat=n):
            ws = instgen.header(bound=50)
            for c in w:
                ws += letters[c].words()
            ch = "dismain" if tier == "quick" else channels[nwords % len(channels)]
            reqs.append(f"{ch} {instgen.to_bytes(ws).hex()}")
            nwords += 1
    stats["structure-words"] = nwords
    for mi in range(6 if tier == "quick" else 60):
        insts = [i for _, i in mg.module(size=0.4, functions=rnd.choice([1, 2]))]
        for k in range(len(insts)):
            for kind, mod in (("drop", insts[:k] + insts[k + 1:]), ("dup", insts[:k + 1] + insts[k:]),
                              ("swap", insts[:k] + insts[k + 1:k + 2] + insts[k:k + 1] + insts[k + 2:])):
                ws = instgen.header(bound=200)
                for i in mod:
                    ws += i.words()
                reqs.append(f"{channels[(k + len(kind)) % len(channels)]} {instgen.to_bytes(ws).hex()}")
                stats["inst-" + kind] = stats.get("inst-" + kind, 0) + 1
    stats["_families_from"] = len(reqs)      # from here on: small deterministic families (a sampler should keep all of them)
    # constants of undeclared / unsupported types, nested spec-constant opcodes of every kind, strings at the limit
    lit32 = g.vix["LiteralBit32"]
    for op in sorted(g.by_opcode):
        body = [1, 2, op] + [rnd.randrange(1, 9) for _ in range(rnd.randrange(0, 5))]
        w = instgen.header(bound=10) + [((len(body) + 1) << 16) | g.opv["SpecConstantOp"]] + body
        reqs.append(f"{channels[op % len(channels)]} {instgen.to_bytes(w).hex()}")
    stats["spec-op-nested"] = len(g.by_opcode)
    for width in (0, 1, 7, 8, 9, 16, 24, 31, 32, 33, 48, 63, 64, 65, 128, 0x7fffffff, 0x80000000, 0xffffffe0, 0xffffffe1, 4294967295):
        for tyop in ("TypeInt", "TypeFloat"):
            w = instgen.header(bound=10)
            w += instgen.Inst(g.opv[tyop], tyop, None, 1, [instgen.Op("w", lit32, width)] + ([instgen.Op("w", lit32, 1)] if tyop == "TypeInt" else [])).words()
            w += [(4 << 16) | g.opv["Constant"], 1, 2, 7]
            w += [(5 << 16) | g.opv["Constant"], 1, 3, 7, 8]
            for ch in channels:
                reqs.append(f"{ch} {instgen.to_bytes(w).hex()}")
    # extended instructions: every recognised and unrecognised set name x instruction numbers at and beyond the ends of the
    # tables (0 is a declared OpenCL.std number and an undeclared GLSL.std.450 one), with and without arguments
    E_ = {r["name"]: r for r in g.core}
    idr = g.vix["IdRef"]
    next_ = 0
    for setname in (b"GLSL.std.450", b"OpenCL.std", b"GLSL.std.45", b""):
        imp = instgen.Inst(g.opv["ExtInstImport"], "ExtInstImport", None, 1, [instgen.Op("s", g.vix["LiteralString"], list(setname))])
        for num in (0, 1, 2, 80, 81, 82, 203, 204, 205, 255, 256, 65535, 65536, 65537, 0x7fffffff, 0x80000000, 0xffffffff):
            for nargs in (0, 2):
                x = instgen.Inst(g.opv["ExtInst"], "ExtInst", 2, 5, [instgen.Op("w", idr, 1), instgen.Op("w", g.vix["LiteralExtInstInteger"], num)] +
                                 [instgen.Op("w", idr, 7 + k) for k in range(nargs)])
                body = [imp, instgen.Inst(g.opv["Function"], "Function", 2, 3, [instgen.Op("w", g.vix["FunctionControl"], 0), instgen.Op("w", idr, 2)]),
                        instgen.Inst(g.opv["Label"], "Label", None, 4, []), x, instgen.Inst(g.opv["Return"], "Return", None, None, []),
                        instgen.Inst(g.opv["FunctionEnd"], "FunctionEnd", None, None, [])]
                w = instgen.header(bound=20)
                for i_ in body:
                    w += i_.words()
                for ch in channels:
                    if ch != "parse":
                        reqs.append(f"{ch} {instgen.to_bytes(w).hex()}")
                next_ += 1
    stats["extended instructions at the table ends"] = next_
    # the disassembler tracks numeric types over the whole section, the parser only those seen so far: a constant *before* its
    # type, and a type id declared twice with different widths / signedness / kind (the later declaration wins when printing)
    norder = 0
    for w1 in (8, 16, 24, 32, 64, 128, 0):
        for signed in (0, 1):
            for tyop in ("TypeInt", "TypeFloat"):
                ty = instgen.Inst(g.opv[tyop], tyop, None, 1, [instgen.Op("w", lit32, w1)] + ([instgen.Op("w", lit32, signed)] if tyop == "TypeInt" else [])).words()
                c1 = [(4 << 16) | g.opv["Constant"], 1, 2, 0xfffffff9]
                for layout in ([c1, ty], [ty32(g, lit32), c1, ty], [c1, ty, c1[:2] + [3, 0x3fc00000]]):
                    w = instgen.header(bound=10)
                    for part in layout:
                        w += part
                    for ch in channels:
                        reqs.append(f"{ch} {instgen.to_bytes(w).hex()}")
                    norder += 1
    stats["constant before / between type declarations"] = norder
    # strings that are not UTF-8, in every position a string can take (alone, followed by operands, as an enumerant's parameter): the
    # decoder's own error variant with a nested error value — and its text, which `rspirv-dis` prints
    sv_ = g.vix["LiteralString"]
    nbad = 0
    for raw in (b"\xff", b"caf\xe9.glsl", b"ab\x80", b"\xc3", b"\xe2\x82", b"\xc0\xaf", b"\xed\xa0\x80", b"\xf4\x90\x80\x80", b"abc\xfe\xffdefgh"):
        for mk in (lambda b: instgen.Inst(g.opv["Extension"], "Extension", None, None, [instgen.Op("s", sv_, list(b))]),
                   lambda b: instgen.Inst(g.opv["String"], "String", None, 1, [instgen.Op("s", sv_, list(b))]),
                   lambda b: instgen.Inst(g.opv["Name"], "Name", None, None, [instgen.Op("w", g.vix["IdRef"], 1), instgen.Op("s", sv_, list(b))]),
                   lambda b: instgen.Inst(g.opv["EntryPoint"], "EntryPoint", None, None, [instgen.Op("w", g.vix["ExecutionModel"], 0), instgen.Op("w", g.vix["IdRef"], 2), instgen.Op("s", sv_, list(b)), instgen.Op("w", g.vix["IdRef"], 3)]),
                   lambda b: instgen.Inst(g.opv["ExtInstImport"], "ExtInstImport", None, 1, [instgen.Op("s", sv_, list(b))])):
            w = instgen.header(bound=100) + mk(raw).words()
            for ch in channels:
                reqs.append(f"{ch} {instgen.to_bytes(w).hex()}")
            nbad += 1
    stats["strings that are not UTF-8"] = nbad
    # every `<Kind>Unknown` decode error once: for each enumerant / mask operand kind (also the kinds that only occur as parameters of
    # another kind's enumerants) an instruction carrying an operand of that kind, with that word replaced by an undeclared value — each
    # kind has its own arm in the generated decoder, error type and error text
    kinds_vi = {}
    for m_ in g.dec.values():
        if m_["type"] in g.vix:
            kinds_vi[g.vix[m_["type"]]] = m_
    carriers = {}

    def scan(inst_):
        pos = 1 + (inst_.rtype is not None) + (inst_.rid is not None)
        for o_ in inst_.ops:
            if o_.kind == "w" and o_.variant in kinds_vi and o_.variant not in carriers:
                carriers[o_.variant] = (inst_, pos)
            pos += len(o_.words())
    for e_ in g.core:
        if any(k in ("LiteralContextDependentNumber", "LiteralSpecConstantOpInteger") for k, _ in e_["ops"]):
            continue
        nopt = sum(1 for _, q in e_["ops"] if q == "ZeroOrOne")
        try:
            g.next_id = 10
            scan(g.inst(e_, opt_count=nopt, many=1))
        except Exception:
            pass
    for kind_, values_ in g.parameterised():
        hosts = [r for r in g.nestable() if any(k == kind_ for k, _ in r["ops"])]
        for v_ in values_:
            if not hosts:
                break
            nopt = sum(1 for _, q in hosts[0]["ops"] if q == "ZeroOrOne")
            try:
                g.next_id = 10
                scan(g.inst(hosts[0], opt_count=nopt, many=1, force_kind=(kind_, v_)))
            except Exception:
                pass
    nunk = 0
    for vi_, (inst_, pos_) in sorted(carriers.items()):
        for bad in ((0x40000000, 0x80000000) if kinds_vi[vi_]["mask"] else (0x7fffffff, 0x00fffff0)):
            ws = inst_.words()
            ws[pos_] = bad | (ws[pos_] if kinds_vi[vi_]["mask"] else 0)
            w = instgen.header(bound=100) + ws
            for ch in channels:
                reqs.append(f"{ch} {instgen.to_bytes(w).hex()}")
            nunk += 1
    stats["every <Kind>Unknown error"] = nunk
    stats["operand kinds with a carrier instruction"] = len(carriers)
    for _ in range(40 if tier == "quick" else 2000):
        n = rnd.choice([0, 1, 3, 4, 19, 20, 21, 24, 64, rnd.randrange(0, 200)])
        data = bytes(rnd.randrange(256) for _ in range(n))
        if rnd.random() < 0.7 and n >= 4:
            data = bytes.fromhex("03022307") + data[4:]
        reqs.append(f"{rnd.choice(channels)} {data.hex() or '-'}")
    stats["random"] = 40 if tier == "quick" else 2000
    # "for every word slice": whole-word inputs also go through `binary::parse_words` / `dr::load_words`
    twins = []
    for k, r in enumerate(reqs):
        ch, hx = r.split(" ", 1)
        if ch in ("parse", "loadasm") and (hx == "-" or len(hx) % 8 == 0) and k % (3 if tier == "quick" else 1) == 0:
            twins.append(("parsew " if ch == "parse" else "loadasmw ") + hx)
    stats["word-slice entry points"] = len(twins)
    reqs += twins
    return reqs, stats


def decoder_requests(rnd, tier):
    """decoder request sequences with limits from 0 to usize::MAX on hostile buffers (C11's channel)"""
    reqs = []
    lims = [0, 1, 2, 3, 1 << 30, 1 << 62, (1 << 64) - 1]
    for _ in range(150 if tier == "quick" else 3000):
        n = rnd.choice([0, 1, 3, 4, 5, 8, 9, 12, 16, rnd.randrange(0, 40)])
        buf = bytes(rnd.choice([0, 0, 0x61, 0x62, 0xff, 0xc3, 0x80, rnd.randrange(256)]) for _ in range(n))
        script = []
        for _ in range(rnd.randrange(1, 7)):
            r = rnd.random()
            if r < 0.3:
                script.append(f"lim:{rnd.choice(lims)}")
            elif r < 0.35:
                script.append("clr")
            elif r < 0.6:
                script.append("s")
            elif r < 0.8:
                script.append("w")
            elif r < 0.9:
                script.append(f"ws:{rnd.choice([0, 1, 2, 5, 1 << 61, 1 << 62, 1 << 63, (1 << 64) - 1, (1 << 63) - 1])}")   # counts whose byte size overflows: no allocation may be sized by the request
            else:
                script.append("q")
        reqs.append(f"dec {buf.hex() or '-'} " + " ".join(script))
    return reqs


def run(ctx):
    with C.Lock():
        T, fails = C.translate_all(ctx)
        hok, herr = C.build_harness(ctx, bins=("impl",))
        have = C.need(ctx, *NEEDS)
        failing = C.prove(ctx, MODULE, THEOREMS, extra_targets=["driver"],
                          files=["Rspirv/Props/C04.lean", "Rspirv/Model/Parser.lean", "Rspirv/Model/Decoder.lean",
                                 "Rspirv/Model/LoadBytes.lean", "Rspirv/Model/Loader.lean", "Rspirv/Instances.lean"]) if have else []
    for n, e in failing:
        ctx.issue(f"theorem:{n}", f"Lean obligation no longer checks: {e['msg'][:300]}", witness=e)
    if not hok:
        ctx.issue("harness-build", "the harness no longer builds against the working tree: " + herr[-400:])
        return C.finish(ctx)
    broken = not have or any(n == "<build>" for n, _ in failing)
    TG = T if have else C.load_pinned_T()
    rnd = random.Random(ctx.seed)
    reqs = corpus()
    ncorpus = len(reqs)
    hostile, stats = hostile_requests(TG, rnd, ctx.tier)
    reqs += hostile
    reqs += decoder_requests(rnd, ctx.tier)
    # binaries holding an instruction of (nearly) the largest size the format can express, and each of them cut short by one word / one
    # byte, through every entry point (implementation only: never a panic; see common.scale_modules)
    scale = []
    for label, sinsts, k in common.scale_modules(instgen.Gen(TG, random.Random(ctx.seed)), ctx.tier):
        w2 = instgen.header(version=0x00010300, bound=70000)
        for i_ in sinsts:
            w2 += i_.words()
        data = instgen.to_bytes(w2)
        for ch in ("loadasm", "parse", "disasbin", "dismain"):
            scale.append(f"{ch} {data.hex()}")
        scale.append(f"loadasm {data[:-4].hex()}")
        scale.append(f"parse {data[:-1].hex()}")
    found_scale = C.oracle_search(ctx, scale, oracle, "hostile-scale")
    ctx.oblige(f"oracle:largest instruction sizes through every entry point ({len(scale)} requests, implementation only)", not found_scale)
    stats["scale"] = len(scale)
    if broken:
        found = C.oracle_search(ctx, reqs, oracle, "hostile")
        ctx.log(f"tie broken; oracle search on the implementation found a failing input: {found}")
        return C.finish(ctx)
    impl, model = C.differential(ctx, reqs, "hostile", oracle=oracle, shrink=False, equal=c07.equal)
    # a consumer that is *reused*: one dr::Loader handed to the parser twice, the first parse ending anywhere (truncation at every
    # instruction boundary and inside instructions), the second starting with every structural instruction. No model of a reused
    # loader exists: judged on the implementation alone (never a panic).
    g0 = instgen.Gen(TG, rnd)
    mg0 = instgen.ModuleGen(g0, common.specclass())
    hdr = instgen.header()
    seconds = []
    for nm, rt, rid, ops in (("Return", None, None, []), ("Label", None, 900, []), ("FunctionEnd", None, None, []), ("Unreachable", None, None, []),
                             ("Function", 1, 901, [instgen.Op("w", g0.vix["FunctionControl"], 0), instgen.Op("w", g0.vix["IdRef"], 2)]),
                             ("FunctionParameter", 1, 902, []), ("Nop", None, None, []), ("Capability", None, None, [instgen.Op("w", g0.vix["Capability"], 1)])):
        seconds.append(instgen.to_bytes(hdr + instgen.Inst(g0.opv[nm], nm, rt, rid, ops).words()).hex())
    reuse = []
    for _ in range(4 if ctx.tier == "quick" else 40):
        insts = mg0.module(size=0.6)
        cut = len(hdr)
        firsts = []
        for _, i in insts:
            cut += len(i.words())
            firsts.append(instgen.to_bytes(instgen.module_words(insts)[:cut]).hex())
            firsts.append(instgen.to_bytes(instgen.module_words(insts)[:cut])[:-3].hex())
        for a in firsts:
            for b in seconds:
                reuse.append(f"loadtwice {a} {b}")
    found_reuse = C.oracle_search(ctx, reuse, lambda r, a: ("panicked: " + a[6:120]) if a.startswith("panic") else None, "consumer-reuse")
    ctx.oblige(f"oracle:consumer-reuse ({len(reuse)} requests, implementation only)", not found_reuse)
    stats["consumer-reuse"] = len(reuse)
    kinds = {}
    for r, a in zip(reqs, impl):
        ch = r.split(" ")[0]
        if ch == "dismain" and a.startswith("exit0 "):
            t = c07.unhex_text(a)
            k = "disassembly" if t.startswith("; SPIR-V") else t.split(" at ")[0].split(" for ")[0].split("(")[0][:60]
        else:
            k = a.split(" ")[0].split(":")[0][:40]
        kinds[f"{ch}:{k}"] = kinds.get(f"{ch}:{k}", 0) + 1
        ctx.distinct.add(f"{ch}:{k}")
    ctx.coverage["requests"] = dict(stats, corpus=ncorpus)
    ctx.coverage["outcomes"] = kinds
    ctx.samples = [{"request": reqs[i][:90], "implementation": impl[i][:120]} for i in (0, ncorpus + 5, len(reqs) // 2, len(reqs) - 1)]
    ctx.assumptions += [
        "byte strings shorter than 2^63 (a Rust slice); the unsafe &[u32] -> &[u8] reinterpretation of parse_words is outside the model (covered by the harness running parse on word-aligned buffers only)",
        "consumer = a function from callback index to continue/stop/error; a consumer that itself panics is not 'well-behaved'",
        "the disassembler and assembler models are total Lean functions: their freedom from panics is tied to the code by the differential on every accepted module, not by a theorem about explicit panic sites"]
    return C.finish(ctx, level="proof", checker_cmd="lake build Rspirv.Props.C04 + #print axioms",
                    rule="pre-fix panic corpus first; seeded modules x {every truncation, hostile word substitutions, word-count and opcode corruption, insert/delete} through rspirv-dis' main path, parse and load+assemble; every opcode nested in OpSpecConstantOp; constants of unsupported widths; random bytes; decoder scripts with limits 0..usize::MAX; implementation only: binaries holding an instruction of the largest expressible size, also cut short, through every entry point; distinct non-trivial = distinct (channel, outcome kind)",
                    trusted=["hand models Decoder/Parser/Loader/LoadBytes/Disasm + differential harness", "abstract interpretation `tablesSafe` (proved sound: loop_safe)"])


def replay(ctx, path):
    r = json.load(open(path))
    req = (r.get("witness") or {}).get("request")
    if not req:
        return run(ctx)
    with C.Lock():
        C.translate_all(ctx)
        C.build_harness(ctx, bins=("impl",))
    hist = (r.get("witness") or {}).get("history") or []     # requests answered before it by the same process
    a, b = C.run_impl(ctx, hist + [req])[-1], C.run_driver(ctx, hist + [req])[-1]
    print("request:", req[:300]); print("implementation:", a[:300]); print("model:", b[:300])
    if req.startswith("loadtwice "):     # no model counterpart: never a panic
        return 1 if a.startswith("panic") else 0
    return 1 if oracle(req, a) or not c07.equal(a, b) else 0
