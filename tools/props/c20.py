"""C20 — rspirv-dis prints the library disassembly or an error and never crashes."""
import json
import os
import random
import subprocess
import instgen
from concurrent.futures import ThreadPoolExecutor
import checklib as C
from props import c04, c07

MODULE = "Rspirv.Props.C04"
P = "Rspirv.Props.C04."
THEOREMS = [P + n for n in ("C04_parse", "feed_some", "C04_load", "C20_main", "tables_safe", "C04_loader", "C20")]
DIS_TARGET = os.path.join(C.VERIF, "build", "dis-target")
DIS = os.path.join(DIS_TARGET, "debug", "rspirv-dis")
TMP = os.path.join(C.VERIF, "build", "tmp", "c20")


def build_dis(ctx):
    env = dict(os.environ, CARGO_NET_OFFLINE="true")
    rc, out, err = C.run(["cargo", "build", "--offline", "-q", "-p", "rspirv-dis", "--target-dir", DIS_TARGET], cwd=C.REPO, env=env)
    return rc == 0 and os.path.exists(DIS), (out + err)[-600:]


def run_binary(datas):
    """run the real rspirv-dis on files holding `datas`; returns list of (exit status, stdout bytes, stderr bytes)"""
    os.makedirs(TMP, exist_ok=True)

    def one(args):
        k, data = args
        p = os.path.join(TMP, f"in{k % 64}_{os.getpid()}_{k}.spv")
        with open(p, "wb") as f:
            f.write(data)
        try:
            r = subprocess.run([DIS, p], capture_output=True, timeout=60)
            return r.returncode, r.stdout, r.stderr
        except subprocess.TimeoutExpired:
            return -999, b"", b"timeout"
        finally:
            os.unlink(p)
    with ThreadPoolExecutor(max_workers=16) as ex:
        return list(ex.map(one, enumerate(datas)))


def judge(data, res, lib):
    """C20 on one run of the real binary; `lib` = what the library does in-process on the same bytes
    (`ok <hex text>` | `err <hex message>` | `panic ...`)"""
    rc, out, err = res
    if rc != 0:
        return f"exit status {rc}; stderr: {err[-160:].decode('utf-8', 'replace')}"
    if not out.endswith(b"\n"):
        return "standard output does not end with a newline"
    if lib.startswith("panic"):
        return "the library panics on this input but the tool exited normally?"
    kind, hx = lib.split(" ", 1) if " " in lib else (lib, "")
    want = bytes.fromhex(hx) + b"\n"
    if out != want:
        return f"output differs from the library's {'disassembly' if kind == 'ok' else 'error message'}: {out[:80]!r} vs {want[:80]!r}"
    if kind == "err" and b"\n" in out[:-1]:
        return "the error message is not one line"
    return None


def run(ctx):
    with C.Lock():
        T, fails = C.translate_all(ctx)
        hok, herr = C.build_harness(ctx, bins=("impl",))
        dok, derr = build_dis(ctx)
        have = C.need(ctx, *c04.NEEDS)
        failing = C.prove(ctx, MODULE, THEOREMS, extra_targets=["driver"],
                          files=["Rspirv/Props/C04.lean", "Rspirv/Model/LoadBytes.lean", "Rspirv/Model/Disasm.lean",
                                 "Rspirv/Instances.lean"]) if have else []
    for n, e in failing:
        ctx.issue(f"theorem:{n}", f"Lean obligation no longer checks: {e['msg'][:300]}", witness=e)
    if not hok:
        ctx.issue("harness-build", "the harness no longer builds against the working tree: " + herr[-400:])
        return C.finish(ctx)
    if not dok:
        ctx.issue("dis-build", "rspirv-dis no longer builds: " + derr[-400:])
        return C.finish(ctx)
    broken = not have or any(n == "<build>" for n, _ in failing)
    TG = T if have else C.load_pinned_T()
    rnd = random.Random(ctx.seed)
    reqs = [r for r in c04.corpus() if r.split(" ")[0] in ("parse", "disasbin", "dismain", "loadbin")]
    reqs = ["dismain " + r.split(" ")[1] for r in reqs]
    hostile, stats = c04.hostile_requests(TG, rnd, "quick" if ctx.tier == "quick" else "thorough", channels=("dismain",))
    if ctx.tier == "quick":
        # the bulk (mutants of seeded modules, structural words) is sampled; the deterministic families are kept whole
        k = stats.get("_families_from", len(hostile))
        hostile = hostile[:k:3] + hostile[k:]
    reqs += hostile
    # long lines: a last instruction (and an instruction in the middle) whose disassembly is 1000 .. 1030, 4096, 8192, 65536 and 70000 bytes
    # long, as a string and as an id list — what the tool writes must be the whole text whatever the length of a line or of the output
    g1 = instgen.Gen(TG, random.Random(ctx.seed))
    sv, idr = g1.vix["LiteralString"], g1.vix["IdRef"]
    nlong = 0
    for L in list(range(990, 1031)) + [2047, 2048, 4095, 4096, 4097, 8191, 8192, 8193, 65535, 65536, 70000]:
        st = instgen.Inst(g1.opv["String"], "String", None, 1, [instgen.Op("s", sv, list(instgen.long_string(L, L % 26)))])
        nm = instgen.Inst(g1.opv["Name"], "Name", None, None, [instgen.Op("w", idr, 1), instgen.Op("s", sv, list(b"n"))])
        for insts in ([st], [st, nm]):
            w2 = instgen.header(version=0x00010300, bound=9)
            for i_ in insts:
                w2 += i_.words()
            reqs.append("dismain " + instgen.to_bytes(w2).hex())
            nlong += 1
    for n in (100, 330, 340, 341, 342, 350, 400, 1365, 1366, 5000, 20000):
        ts = instgen.Inst(g1.opv["TypeStruct"], "TypeStruct", None, 1, [instgen.Op("w", idr, 2 + (k % 7)) for k in range(n)])
        w2 = instgen.header(version=0x00010300, bound=9) + ts.words()
        reqs.append("dismain " + instgen.to_bytes(w2).hex())
        nlong += 1
    stats["long lines"] = nlong
    datas = [bytes.fromhex(r.split(" ")[1]) if r.split(" ")[1] != "-" else b"" for r in reqs]
    results = run_binary(datas)
    lib = C.run_impl(ctx, ["disasbin " + (d.hex() or "-") for d in datas])
    ctx.evaluations += len(reqs)
    bad = 0
    kinds = {}
    for r, d, res, l in zip(reqs, datas, results, lib):
        msg = judge(d, res, l)
        k = "disassembly" if l.startswith("ok") else ("error" if l.startswith("err") else "panic")
        kinds[k] = kinds.get(k, 0) + 1
        if l.startswith("err"):
            ctx.distinct.add(bytes.fromhex(l.split(" ")[1]).decode("utf-8", "replace").split(" at ")[0].split("#")[0][:50])
        if msg and bad < 5:
            bad += 1
            ctx.issue(f"oracle:rspirv-dis:{r[:100]}", "the property fails on the real rspirv-dis binary: " + msg,
                      witness={"request": r, "exit": res[0], "stdout": res[1][:300].decode("utf-8", "replace"),
                               "stderr": res[2][-300:].decode("utf-8", "replace")}, found_input=True, kind="oracle")
    ctx.oblige(f"oracle:rspirv-dis ({len(reqs)} files through the real binary)", bad == 0)
    if not broken:
        # the model of main: what it predicts for the binary's standard output
        model = C.run_driver(ctx, reqs)
        mbad = 0
        for r, res, m in zip(reqs, results, model):
            got = "exit0 " + res[1].hex() if res[0] == 0 else f"exit{res[0]}"
            if not c07.equal(got, m) and mbad < 5:
                mbad += 1
                ctx.issue(f"correspondence:dismain:{r[:100]}", "rspirv-dis and the Lean model of its main function disagree",
                          witness={"request": r, "implementation": got[:400], "model": m[:400]}, found_input=True, kind="correspondence")
        ctx.oblige(f"correspondence:dismain ({len(reqs)} requests)", mbad == 0)
    ctx.coverage["requests"] = stats
    ctx.coverage["outcomes"] = kinds
    ctx.samples = [{"file_bytes": datas[i][:24].hex(), "exit": results[i][0], "stdout": results[i][1][:100].decode("utf-8", "replace")}
                   for i in (0, len(reqs) // 3, len(reqs) - 1)]
    ctx.assumptions += ["the file is readable (an unreadable or missing file makes `expect` abort by design; outside the property)",
                        "file contents shorter than 2^63 bytes"]
    return C.finish(ctx, level="proof", checker_cmd="lake build Rspirv.Props.C04 + #print axioms; cargo build -p rspirv-dis",
                    rule="the real binary built from the working tree is run on every file: pre-fix panic corpus, seeded modules and their systematic corruptions (truncation, substitution, word-count/opcode corruption, instruction drop/dup/swap), all structural words of length <= 4, random bytes, the empty file; judged against the library run in-process and against the Lean model of main; last and middle lines of 990..1030, 2^11, 2^12, 2^13, 2^16 and 70 000 bytes; distinct non-trivial = distinct error message kinds",
                    trusted=["hand models + differential harness", "subprocess execution of target/debug/rspirv-dis"])


def replay(ctx, path):
    r = json.load(open(path))
    req = (r.get("witness") or {}).get("request")
    if not req:
        return run(ctx)
    with C.Lock():
        C.translate_all(ctx)
        C.build_harness(ctx, bins=("impl",))
        build_dis(ctx)
    hx = req.split(" ")[1]
    data = bytes.fromhex(hx) if hx != "-" else b""
    res = run_binary([data])[0]
    lib = C.run_impl(ctx, ["disasbin " + (hx or "-")])[0]
    print("file:", hx[:200]); print("exit:", res[0]); print("stdout:", res[1][:400]); print("stderr:", res[2][-400:])
    msg = judge(data, res, lib)
    print("verdict:", msg)
    return 1 if msg else 0
