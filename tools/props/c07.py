"""C07 — disassembly is a complete, unambiguous rendering of the instruction stream."""
import json
import os
import random
import re
import checklib as C
import instgen
import disread
from props import common

MODULE = "Rspirv.Props.C07Inst"
P = "Rspirv.Props.C07."
THEOREMS = [P + n for n in ("filter_map_inj", "maskTok_inj", "debugName_inj", "C07_signed_inj", "C07_lines", "C07_order",
                            "C07_line_count", "C07_shape", "C07_tokens", "C07_plain", "vocabulary_ok", "C07_operand_inj",
                            "C07_opcode_inj", "C07_extinst_inj", "C07_constant_inj", "C07_constant64_inj", "C07_vocabulary")] + \
           ["Rspirv.Props.C07Inst." + n for n in ("operand_inj", "operands_inj", "C07_inst_inj", "C07_insts_inj", "C07_lines_inj")]
NEEDS = ("header", "core", "glsl", "opencl", "traversals", "decode", "operand_enum", "asm_arms", "parse_operand", "operands",
         "operand_reflect", "disas_operand")

FLOATS32 = [0, 0x80000000, 0x3f800000, 0xbf800000, 0x7f800000, 0xff800000, 1, 0x7f7fffff, 0x00800000, 0x3dcccccd, 0x4048f5c3,
            0x7fc00000, 0x3c00, 0xbc00]
FLOATS64 = [0, 0x8000000000000000, 0x3ff0000000000000, 0x7ff0000000000000, 0xfff0000000000000, 1, 0x7fefffffffffffff,
            0x3fb999999999999a, 0x400921fb54442d18, 0x7ff8000000000000]
PH = re.compile(r"F(32|64)\((\d+)\)")


def unhex_text(resp):
    return bytes.fromhex(resp.split(" ", 1)[1]).decode("utf-8", "replace") if " " in resp else ""


def unescape_quoted(text, j):
    """parse a Rust `{:?}` string literal starting at text[j] == '"'; returns (bytes, index after the closing quote)"""
    assert text[j] == '"'
    j += 1
    buf = []
    while text[j] != '"':
        if text[j] == "\\":
            e = text[j + 1]
            if e == "u":
                k = text.index("}", j)
                buf.append(chr(int(text[j + 3:k], 16))); j = k + 1
                continue
            buf.append({"n": "\n", "t": "\t", "r": "\r", "0": "\0", "\\": "\\", '"': '"', "'": "'"}[e]); j += 2
        else:
            buf.append(text[j]); j += 1
    return "".join(buf).encode("utf-8"), j + 1


PH_ANY = re.compile(r"F(32|64)\((\d+)\)|S\(([0-9a-f]*)\)")


def same_text(model_text, impl_text):
    """model text with placeholders against the implementation's text: a float placeholder must stand where the
    implementation printed a float whose bits are the placeholder's (any NaN for a NaN); a string placeholder where the
    implementation printed a quoted string that un-escapes to the placeholder's bytes"""
    i = j = 0
    n = len(model_text)
    try:
        while i < n:
            m = PH_ANY.match(model_text, i)
            if not m:
                if j >= len(impl_text) or model_text[i] != impl_text[j]:
                    return False
                i += 1; j += 1
                continue
            if m.group(3) is not None:
                if j >= len(impl_text) or impl_text[j] != '"':
                    return False
                got, j = unescape_quoted(impl_text, j)
                if got != bytes.fromhex(m.group(3)):
                    return False
            else:
                k = j
                while k < len(impl_text) and impl_text[k] not in " \n":
                    k += 1
                tok = impl_text[j:k]
                bits = int(m.group(2))
                got = disread.f32_bits(tok) if m.group(1) == "32" else disread.f64_bits(tok)
                if got is None:      # NaN
                    is_nan = ((bits >> 23) & 0xff == 0xff and bits & 0x7fffff) if m.group(1) == "32" else \
                        ((bits >> 52) & 0x7ff == 0x7ff and bits & ((1 << 52) - 1))
                    if not is_nan:
                        return False
                elif got != bits:
                    return False
                j = k
            i = m.end()
        return j == len(impl_text)
    except (ValueError, KeyError, IndexError, ZeroDivisionError, AssertionError):
        return False


def equal(a, b):
    """a = implementation response, b = model response"""
    if a.split(" ", 1)[0] != b.split(" ", 1)[0]:
        return C.canon(a) == C.canon(b)
    if (a.startswith("ok ") and b.startswith("ok ")) or (a.startswith("exit0 ") and b.startswith("exit0 ")):
        if a == b:
            return True
        try:
            return same_text(unhex_text(b), unhex_text(a))
        except ValueError:
            return False
    return C.canon(a) == C.canon(b)


class Oracle:
    """C07 evaluated on the implementation's text alone"""

    def __init__(self, T):
        self.reader = disread.Reader(T)
        self.expect = {}

    def add(self, req, insts, version, bound):
        self.expect[req] = (insts, version, bound)

    def __call__(self, req, resp):
        if resp.startswith("panic"):
            return "panicked: " + resp[6:100]
        if req not in self.expect:
            return None
        insts, version, bound = self.expect[req]
        if not resp.startswith("ok "):
            return "a module in layout order was not loaded: " + resp[:80]
        text = unhex_text(resp)
        lines = text.split("\n") if text else []
        head = ["; SPIR-V", "; Version: %d.%d" % ((version >> 16) & 255, (version >> 8) & 255), "; Generator: rspirv", "; Bound: %d" % bound]
        if lines[:4] != head:
            return f"header comment is {lines[:4]}, the module's header gives {head}"
        body = lines[4:]
        if len(body) != len(insts):
            return f"{len(body)} instruction lines for {len(insts)} instructions"
        for n, (ln, (_, i)) in enumerate(zip(body, insts)):
            want_prefix = (f"%{i.rid} = " if i.rid is not None else "") + "Op" + i.name
            if not (ln == want_prefix or ln.startswith(want_prefix + " ")):
                return f"line {n + 1} is {ln[:80]!r}; instruction {i.text()[:60]} must start {want_prefix!r}"
        try:
            back = self.reader.module(body)
        except ValueError as ex:
            return f"the text cannot be read back with the vocabulary: {ex}"
        for n, (t, (_, i)) in enumerate(zip(back, insts)):
            want = i.text()
            if "NaN" in t:
                continue
            if t != want:
                return f"line {n + 1} {body[n][:100]!r} reads back as {t[:120]}, the instruction is {want[:120]}"
        return None


def operand_requests(T, rnd, tier):
    reqs = []
    hdr = T["header"]
    enums = {e["name"]: e for e in hdr["enums"]}
    masks = {m["name"]: m for m in hdr["masks"]}
    for vi, (v, payload) in enumerate(T["operand_enum"]):
        if payload.startswith("spirv::"):
            ty = payload[7:]
            if ty in masks:
                bits = [b for _, b in masks[ty]["consts"] if b]
                single = sorted({b for b in bits if b & (b - 1) == 0})
                allb = 0
                for b in bits:
                    allb |= b
                vals = [0, allb] + single
                for _ in range(6 if tier == "quick" else 60):
                    x = 0
                    for b in single:
                        if rnd.random() < 0.4:
                            x |= b
                    vals.append(x)
                reqs += [f"disasop {vi}:{x}" for x in vals]
            else:
                reqs += [f"disasop {vi}:{val}" for val in sorted({val for _, val in enums[ty]["decl"]})]
        elif payload in ("word", "u32"):
            reqs += [f"disasop {vi}:{x}" for x in (0, 1, 7, 4294967295, rnd.randrange(1 << 32))]
        elif payload == "u64":
            reqs += [f"disasop {vi}:Q{x}" for x in (0, 1, (1 << 64) - 1, rnd.randrange(1 << 64))]
        elif payload == "op":
            ops = sorted({val for _, val in enums["Op"]["decl"]})
            reqs += [f"disasop {vi}:{x}" for x in (ops if tier != "quick" else ops[::7])]
        elif payload == "string":
            for s in instgen.STRINGS + [b"\x01ctl\x1f", b"nl\nhere", b"cr\rhere", b"\x7f", "ünï".encode(), b"a'b"]:
                reqs.append(f"disasop {vi}:S{bytes(s).hex() or '-'}")
    return reqs


def typed_constant_modules(g, rnd, n):
    """modules whose only business is OpConstant literals of every declared width, signedness and float class"""
    E = {r["name"]: r for r in g.core}
    lit32, lit64 = g.vix["LiteralBit32"], g.vix["LiteralBit64"]
    out = []
    for _ in range(n):
        g.next_id = 1
        insts = []
        tys = []
        for kind, width, signed in [("int", 8, 1), ("int", 16, 1), ("int", 16, 0), ("int", 32, 1), ("int", 32, 0), ("int", 64, 1),
                                    ("int", 64, 0), ("float", 16, 0), ("float", 32, 0), ("float", 64, 0)]:
            d = g.type_decl(kind, width, signed)
            insts.append(("tgv", d)); tys.append((d.rid, kind, width))
        for _ in range(24):
            tid, kind, width = rnd.choice(tys)
            if width == 64:
                v = rnd.choice(FLOATS64 if kind == "float" else [0, 1, (1 << 63) - 1, 1 << 63, (1 << 64) - 1, rnd.randrange(1 << 64)])
                op = instgen.Op("q", lit64, v)
            else:
                v = rnd.choice(FLOATS32 if kind == "float" else [0, 1, 0x7fff, 0x8000, 0xffff, 0x10000, 0x18000, 0x7fffffff, 0x80000000, 0xffffffff, rnd.randrange(1 << 32)])
                op = instgen.Op("w", lit32, v)
            insts.append(("tgv", instgen.Inst(g.opv["Constant"], "Constant", tid, g.fresh(), [op])))
        # a constant typed by another constant's id (the tracker propagates result types) and one of an undeclared type
        insts.append(("tgv", instgen.Inst(g.opv["Constant"], "Constant", 0x7ffffff0, g.fresh(), [instgen.Op("w", lit32, 0xffffffff)])))
        out.append(insts)
    return out


def extinst_modules(g, rnd, n, T):
    E = {r["name"]: r for r in g.core}
    out = []
    idref, xi = g.vix["IdRef"], g.vix["LiteralExtInstInteger"]
    for mi in range(n):
        g.next_id = 1
        insts = []
        sets = []
        names = [b"GLSL.std.450", b"OpenCL.std", b"NonSemantic.Other"]
        if mi % 2 == 1:
            # the same set imported several times under different ids, interleaved with the other sets: an instruction through ANY of the
            # import ids of a recognised set is printed by name
            names = names + [rnd.choice(names[:2]) for _ in range(rnd.randrange(1, 4))] + [b"GLSL.std.450", b"OpenCL.std"]
            rnd.shuffle(names)
        for nm in names:
            i = g.inst(E["ExtInstImport"]); i.ops[0].value = list(nm); insts.append(("imp", i)); sets.append((i.rid, nm))
        insts.append(("mm", g.inst(E["MemoryModel"])))
        insts.append(("fn:0:def", g.inst(E["Function"])))
        insts.append(("fn:0:blk:0:label", g.inst(E["Label"])))
        # first the ends of both tables for every set (0 is declared in OpenCL.std only), with and without arguments; then random
        plan = []
        for sid, nm in sets:
            tab = T["glsl"] if nm.startswith(b"GLSL") else T["opencl"]
            nums = sorted(r["opcode"] for r in tab)
            for num in (0, nums[0], nums[-1], nums[-1] + 1, 999, 65536 + nums[1], 4294967295):
                plan.append((sid, num, len(plan) % 2 == 0))
        for _ in range(20):
            sid, nm = rnd.choice(sets)
            tab = T["glsl"] if nm.startswith(b"GLSL") else T["opencl"]
            plan.append((sid, rnd.choice([r["opcode"] for r in tab] + [0, 999, 4294967295]), False))
        for sid, num, bare in plan:
            i = g.inst(E["ExtInst"])
            if bare:
                i.ops = i.ops[:2]
            i.ops[0] = instgen.Op("w", idref, sid if rnd.random() < 0.9 else 77)
            i.ops[1] = instgen.Op("w", xi, num)
            insts.append(("fn:0:blk:0:inst", i))
        insts.append(("fn:0:blk:0:inst", g.inst(E["Return"])))
        insts.append(("fn:0:end", g.inst(E["FunctionEnd"])))
        out.append(insts)
    return out


def run(ctx):
    with C.Lock():
        T, fails = C.translate_all(ctx)
        hok, herr = C.build_harness(ctx, bins=("impl",))
        have = C.need(ctx, *NEEDS)
        failing = C.prove(ctx, MODULE, THEOREMS, extra_targets=["driver"],
                          files=["Rspirv/Props/C07.lean", "Rspirv/Props/C07Inst.lean", "Rspirv/Model/Disasm.lean"]) if have else []
    for n, e in failing:
        ctx.issue(f"theorem:{n}", f"Lean obligation no longer checks: {e['msg'][:300]}", witness=e)
    if not hok:
        ctx.issue("harness-build", "the harness no longer builds against the working tree: " + herr[-400:])
        return C.finish(ctx)
    broken = not have or any(n == "<build>" for n, _ in failing)
    TG = T if have else C.load_pinned_T()
    rnd = random.Random(ctx.seed)
    g = instgen.Gen(TG, rnd)
    mg = instgen.ModuleGen(g, common.specclass())
    oracle = Oracle(TG)
    reqs = []
    cdir = os.path.join(C.VERIF, "corpus", "C07")
    if os.path.isdir(cdir):
        for f in sorted(os.listdir(cdir)):
            reqs += [l.strip() for l in open(os.path.join(cdir, f)) if l.strip() and not l.startswith("#")]
    ncorpus = len(reqs)
    reqs += operand_requests(TG, rnd, ctx.tier)
    nop = len(reqs) - ncorpus
    for e in g.core:
        if any(k in ("LiteralContextDependentNumber", "PairLiteralIntegerIdRef") for k, _ in e["ops"]) and False:
            continue
        for i in g.all_shapes(e):
            reqs.append("disasinst " + i.text())
    ninst = len(reqs) - ncorpus - nop
    mods = []
    nm = 40 if ctx.tier == "quick" else 600
    for _ in range(nm):
        mods.append(mg.module(size=rnd.choice([0.5, 1.0, 2.0])))
    mods += typed_constant_modules(g, rnd, 4 if ctx.tier == "quick" else 40)
    mods += extinst_modules(g, rnd, 3 if ctx.tier == "quick" else 30, TG)
    for insts in mods:
        version = instgen.some_version(rnd)
        bound = rnd.choice([1, 100, 4294967295, 1 + max([i.rid or 0 for _, i in insts] + [0])])
        words = instgen.module_words(insts, version=version, bound=bound)
        r = "disasbin " + instgen.to_bytes(words).hex()
        reqs.append(r)
        oracle.add(r, insts, version, bound)
        if rnd.random() < 0.3 and len(words) > 6:      # the error side: same text of the error
            w2 = list(words); w2[rnd.randrange(5, len(w2))] = rnd.choice([0, 0xffffffff, 0x10000]); reqs.append("disasbin " + instgen.to_bytes(w2).hex())
    # hand-made modules (disasraw): every generator id with a name (and unknown ones), every version byte pair, and the
    # fall-back arms of the module walk that no loaded module reaches (OpConstant with a non-literal / no operand under a
    # tracked type, OpExtInst with fewer than two operands or a non-literal instruction number under an imported set)
    E = {r["name"]: r for r in g.core}
    raw = []
    # (tool ids are 16-bit: named ones below 18, and ids whose low or high byte alone would look like a named one)
    for tool in list(range(0, 18)) + [0xffff, 255] + [256 + k for k in range(0, 18)] + [(hi << 8) | lo for hi in (1, 2, 0x7f, 0x80, 0xff) for lo in (0, 1, 8, 15, 16, 17)]:
        for low in (0, 1):
            raw.append(f"disasraw {0x00010000 | (tool % 7) << 8} {(tool << 16) | low} {tool + 1} - - -")
    lit, idref, ext = g.vix["LiteralBit32"], g.vix["IdRef"], g.vix["LiteralExtInstInteger"]
    ty_int = instgen.Inst(g.opv["TypeInt"], "TypeInt", None, 1, [instgen.Op("w", lit, 32), instgen.Op("w", lit, 1)])
    ty_f64 = instgen.Inst(g.opv["TypeFloat"], "TypeFloat", None, 2, [instgen.Op("w", lit, 64)])
    imp = instgen.Inst(g.opv["ExtInstImport"], "ExtInstImport", None, 9, [instgen.Op("s", g.vix["LiteralString"], list(b"GLSL.std.450"))])
    # exactly one operand: `disas_constant` starts with `debug_assert_eq!(inst.operands.len(), 1)` — a hand-made OpConstant
    # with none or two operands panics in debug builds; neither the loader nor a typed Builder method produces one (DESIGN §11.5)
    consts = [[instgen.Op("w", idref, 7)], [instgen.Op("s", g.vix["LiteralString"], list(b"x"))],
              [instgen.Op("q", g.vix["LiteralBit64"], 1 << 63)], [instgen.Op("w", lit, 0x80000000)]]
    for t in (1, 2, 77):
        for ops in consts:
            c = instgen.Inst(g.opv["Constant"], "Constant", t, 5, ops)
            raw.append(f"disasraw 65536 983040 10 - {ty_int.text()}/{ty_f64.text()}/{c.text()} -")
    # declared type = the declaration anywhere in the section (the last one if the id is declared twice): constants placed
    # before their type, between two declarations of the type id; hand-made (any literal width) and as loadable binaries
    for cops in ([instgen.Op("w", lit, 0xfffffff9)], [instgen.Op("q", g.vix["LiteralBit64"], 0xbfd0000000000000)], [instgen.Op("w", lit, 0x3fc00000)]):
        for t, tdecl in ((1, ty_int), (2, ty_f64)):
            c = instgen.Inst(g.opv["Constant"], "Constant", t, 5, cops)
            ty_other = instgen.Inst(g.opv["TypeInt"], "TypeInt", None, t, [instgen.Op("w", lit, 16), instgen.Op("w", lit, 0)])
            raw.append(f"disasraw 65536 983040 10 - {c.text()}/{tdecl.text()} -")
            raw.append(f"disasraw 65536 983040 10 - {ty_other.text()}/{c.text()}/{tdecl.text()} -")
            raw.append(f"disasraw 65536 983040 10 - {tdecl.text()}/{c.text()}/{ty_other.text()} -")
    for w1 in (8, 16, 32):
        for signed in (0, 1):
            for tyop in ("TypeInt", "TypeFloat"):
                tw = instgen.Inst(g.opv[tyop], tyop, None, 1, [instgen.Op("w", lit, w1)] + ([instgen.Op("w", lit, signed)] if tyop == "TypeInt" else [])).words()
                cw = [(4 << 16) | g.opv["Constant"], 1, 2, 0xfffffff9]
                raw.append("disasbin " + instgen.to_bytes(instgen.header(bound=10) + cw + tw).hex())
                raw.append("disasbin " + instgen.to_bytes(instgen.header(bound=10) + tw + cw + ty_int.words()).hex())
    exts = [[], [instgen.Op("w", idref, 9)], [instgen.Op("w", idref, 9), instgen.Op("w", lit, 6)],
            [instgen.Op("w", lit, 9), instgen.Op("w", ext, 6)], [instgen.Op("w", idref, 9), instgen.Op("w", ext, 6), instgen.Op("w", idref, 3)],
            [instgen.Op("w", idref, 9), instgen.Op("w", ext, 9999)], [instgen.Op("w", idref, 8), instgen.Op("w", ext, 6)]]
    for ops in exts:
        x = instgen.Inst(g.opv["ExtInst"], "ExtInst", 1, 6, ops)
        raw.append(f"disasraw 65536 983040 10 {imp.text()} - {x.text()}")
        raw.append(f"disasraw 65536 983040 10 - - {x.text()}")
    reqs += raw
    if broken:
        found = C.oracle_search(ctx, reqs, oracle, "disas")
        ctx.log(f"tie broken; oracle search on the implementation found a failing input: {found}")
        return C.finish(ctx)
    impl, model = C.differential(ctx, reqs, "disas", oracle=oracle, shrink=False, equal=equal)
    kinds = {}
    for r, a in zip(reqs, impl):
        k = r.split(" ")[0] + ":" + a.split(" ")[0]
        kinds[k] = kinds.get(k, 0) + 1
        if a.startswith("ok "):
            for ln in unhex_text(a).split("\n"):
                m = re.search(r"Op[A-Za-z0-9]+", ln)
                if m:
                    ctx.distinct.add(m.group(0))
    ctx.coverage["requests"] = {"corpus": ncorpus, "operand": nop, "instruction": ninst, "module": len(reqs) - ncorpus - nop - ninst - len(raw),
                                "hand-made module": len(raw)}
    ctx.coverage["responses"] = kinds
    ctx.samples = [{"request": reqs[i][:80], "implementation_text": unhex_text(impl[i])[:160]} for i in (ncorpus + 3, ncorpus + nop + 5, len(reqs) - 2)]
    ctx.assumptions += [
        "the theorems are about tokens; the lexical layer (escaping, float Display, blanks) is covered by the read-back oracle only",
        "read-back is checked for grammar-conforming modules in layout order whose literal widths agree with their declared types",
        "NaN payloads are excepted, as in the property"]
    return C.finish(ctx, level="proof", checker_cmd="lake build Rspirv.Props.C07 + #print axioms",
                    rule="every enumerant / mask bit / opcode as an operand; every quantifier shape of every core instruction; seeded layout-ordered modules + typed-constant and ext-inst modules; oracle = header, one line per instruction, read-back with the vocabulary; the same extended-instruction set imported several times under different ids; distinct non-trivial = distinct opcodes printed",
                    trusted=["hand model Disasm.lean + differential harness (disas channels)", "tools/disread.py (reader used by the oracle)"])


def replay(ctx, path):
    r = json.load(open(path))
    req = (r.get("witness") or {}).get("request")
    if not req:
        return run(ctx)
    with C.Lock():
        T, _ = C.translate_all(ctx)
        C.build_harness(ctx, bins=("impl",))
    hist = (r.get("witness") or {}).get("history") or []     # requests answered before it by the same process
    a, b = C.run_impl(ctx, hist + [req])[-1], C.run_driver(ctx, hist + [req])[-1]
    print("request:", req[:300]); print("implementation:", unhex_text(a)[:600] if a.startswith("ok") else a[:300])
    print("model:", unhex_text(b)[:600] if b.startswith("ok") else b[:300])
    return 0 if equal(a, b) else 1
