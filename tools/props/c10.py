"""C10 — context-dependent literal widths follow the types declared earlier."""
import json
import random
import checklib as C
import instgen

MODULE = "Rspirv.Props.C10"
THEOREMS = ["Rspirv.Props.C10.C10_literal", "Rspirv.Props.C10.litOne_spec", "Rspirv.Props.C10.litTwo_spec",
            "Rspirv.Props.C10.C10_asm", "Rspirv.Props.C10.C10_track_int", "Rspirv.Props.C10.C10_track_float",
            "Rspirv.Props.C10.resolve_cons", "Rspirv.Props.C10.C10_track_value", "Rspirv.Props.C10.C10_track_noid",
            "Rspirv.Props.C10.C10_fresh", "Rspirv.Props.C10.C10_constant_uses_rtype",
            # Props/C10Solely.lean: the step lemmas lifted to whole prefixes ("decided solely by the declarations that precede it")
            "Rspirv.Props.C10.track_inert", "Rspirv.Props.C10.C10_solely", "Rspirv.Props.C10.track_shape",
            "Rspirv.Props.C10.track_eq_binding", "Rspirv.Props.C10.C10_extensional", "Rspirv.Props.C10.C10_extensional_run",
            "Rspirv.Props.C10.C10_newest_wins", "Rspirv.Props.C10.C10_decl_reaches",
            "Rspirv.Props.C10.trackAll_snoc", "Rspirv.Props.C10.parseLoop_eq_D", "Rspirv.Props.C10.C10_parse_D",
            "Rspirv.Props.C10.C10_switch_uses_selector"]
NEEDS = ("header", "core", "decode", "operand_enum", "asm_arms", "parse_operand", "operands")
WIDTHS = [8, 16, 32, 64, 64, 32, 1, 7, 9, 24, 31, 33, 48, 63, 65, 128, 0, 0x7fffffff, 0x80000000, 0xffffffe0, 0xffffffe1, 0xffffffff]


def history(g, rnd, ids):
    """interleaving of int/float declarations, value definitions chaining result types, and literal consumers;
    returns (instructions, expectation) where expectation mirrors the property: per consumer the number of literal words
    or 'unsupported' (independent re-statement of the rule, not the model)."""
    insts, tracked = [], {}
    L32 = g.vix["LiteralBit32"]
    expect = []
    stop = False
    for _ in range(rnd.randrange(2, 14)):
        r = rnd.random()
        if r < 0.3:
            rid = rnd.choice(ids)
            w = rnd.choice(WIDTHS)
            if rnd.random() < 0.5:
                insts.append(instgen.Inst(g.opv["TypeInt"], "TypeInt", None, rid, [instgen.Op("w", L32, w), instgen.Op("w", L32, rnd.randrange(2))]))
                tracked[rid] = ("int", w)
            else:
                # half of the float types carry the optional FPEncoding operand: the width is tracked all the same
                enc = [instgen.Op("w", g.vix["FPEncoding"], g.enums["FPEncoding"]["decl"][0][1])] if rnd.random() < 0.5 else []
                insts.append(instgen.Inst(g.opv["TypeFloat"], "TypeFloat", None, rid, [instgen.Op("w", L32, w)] + enc))
                tracked[rid] = ("float", w)
        elif r < 0.5:
            # value definition: %rid = OpUndef %t  (or OpCopyObject %t %x): propagates the tracked type of %t
            t, rid = rnd.choice(ids), rnd.choice(ids)
            if rnd.random() < 0.5:
                insts.append(instgen.Inst(g.opv["Undef"], "Undef", t, rid, []))
            else:
                insts.append(instgen.Inst(g.opv["CopyObject"], "CopyObject", t, rid, [instgen.Op("w", g.vix["IdRef"], rnd.choice(ids))]))
            if t in tracked:
                tracked[rid] = tracked[t]
        elif r < 0.53:
            # instructions that have nothing to do with the rule (function structure, labels, stores): the types declared
            # *after* them are tracked like those before; an OpFunction propagates its result type like any value definition
            k = rnd.randrange(5)
            if k == 0:
                t, rid = rnd.choice(ids), rnd.choice(ids)
                insts.append(instgen.Inst(g.opv["Function"], "Function", t, rid, [instgen.Op("w", g.vix["FunctionControl"], 0), instgen.Op("w", g.vix["IdRef"], rnd.choice(ids))]))
                if t in tracked:
                    tracked[rid] = tracked[t]
            elif k == 1:
                insts.append(instgen.Inst(g.opv["Label"], "Label", None, 7000 + rnd.randrange(50), []))
            elif k == 2:
                insts.append(instgen.Inst(g.opv["FunctionEnd"], "FunctionEnd", None, None, []))
            elif k == 3:
                insts.append(instgen.Inst(g.opv["Store"], "Store", None, None, [instgen.Op("w", g.vix["IdRef"], rnd.choice(ids)), instgen.Op("w", g.vix["IdRef"], rnd.choice(ids))]))
            else:
                insts.append(instgen.Inst(g.opv["Return"], "Return", None, None, []))
        elif r < 0.56:
            # a non int/float type declaration does not track anything (and does not untrack)
            rid = rnd.choice(ids)
            insts.append(instgen.Inst(g.opv["TypeBool"], "TypeBool", None, rid, []))
        else:
            t = rnd.choice(ids)
            ty = tracked.get(t)
            ok = instgen.supported(ty)
            nw = 2 if (ty and ty[1] == 64) else 1
            kind = rnd.choice(["Constant", "SpecConstant", "Switch"])
            if kind == "Switch":
                ncase = rnd.randrange(0, 3)
                ops = [instgen.Op("w", g.vix["IdRef"], t), instgen.Op("w", g.vix["IdRef"], rnd.choice(ids))]
                for _ in range(ncase):
                    ops += g.literal(nw == 2) + [instgen.Op("w", g.vix["IdRef"], rnd.choice(ids))]
                insts.append(instgen.Inst(g.opv["Switch"], "Switch", None, None, ops))
                if not ok and ncase > 0:
                    expect.append("unsupported"); stop = True
                else:
                    expect.append(f"switch:{ncase}x{nw}")
            else:
                rid = rnd.choice(ids)
                insts.append(instgen.Inst(g.opv[kind], kind, t, rid, g.literal(nw == 2)))
                if not ok:
                    expect.append("unsupported"); stop = True
                else:
                    expect.append(f"const:{nw}")
                    if t in tracked:
                        tracked[rid] = tracked[t]
            if stop:
                break
    return insts, expect


def run(ctx):
    with C.Lock():
        T, fails = C.translate_all(ctx)
        hok, herr = C.build_harness(ctx, bins=("impl",))
        have = C.need(ctx, *NEEDS)
        failing = C.prove(ctx, MODULE, THEOREMS, extra_targets=["Rspirv.Props.C10Solely", "driver"],
                          files=["Rspirv/Props/C10.lean", "Rspirv/Props/C10Solely.lean", "Rspirv/Model/Parser.lean", "Rspirv/Model/Assemble.lean"]) if have else []
    for n, e in failing:
        ctx.issue(f"theorem:{n}", f"Lean obligation no longer checks: {e['msg'][:300]}", witness=e)
    if not hok:
        ctx.issue("harness-build", "the harness no longer builds against the working tree: " + herr[-400:])
        return C.finish(ctx)
    if not have or any(n == "<build>" for n, _ in failing):
        return C.finish(ctx)
    rnd = random.Random(ctx.seed)
    g = instgen.Gen(T, rnd)
    ids = [1, 2, 3, 4, 5]          # deliberately few ids, reused across consecutive parses of the same process
    reqs, metas = [], {}
    for _ in range(600 if ctx.tier == "quick" else 8000):
        insts, expect = history(g, rnd, ids)
        words = instgen.header()
        for i in insts:
            words += i.words()
        r = "parse " + instgen.to_bytes(words).hex()
        reqs.append(r)
        metas[r] = (insts, expect)
        # the re-assembly of each delivered literal consumer has the same number of words
        for i in insts:
            if i.name in ("Constant", "SpecConstant", "Switch"):
                reqs.append("asm " + i.text())

    # every result-producing opcode as the definer of a switch selector: %200 = OpTypeInt 64 0; %201 = <op> %200 ...;
    # OpSwitch %201 %9 <64-bit literal> %9 — the case literal has two words whatever opcode propagated the type
    L32 = g.vix["LiteralBit32"]
    nsweep = 0
    for e in g.core:
        kinds = [k for k, _ in e["ops"]]
        if "IdResultType" not in kinds or "IdResult" not in kinds or e["name"] in ("Constant", "SpecConstant", "SpecConstantOp"):
            continue
        try:
            d = g.inst(e)
        except Exception:
            continue
        d.rtype, d.rid = 200, 201
        lit = g.literal(True)
        sw = instgen.Inst(g.opv["Switch"], "Switch", None, None,
                          [instgen.Op("w", g.vix["IdRef"], 201), instgen.Op("w", g.vix["IdRef"], 9)] + lit + [instgen.Op("w", g.vix["IdRef"], 9)])
        insts = [instgen.Inst(g.opv["TypeInt"], "TypeInt", None, 200, [instgen.Op("w", L32, 64), instgen.Op("w", L32, 0)]), d, sw]
        words = instgen.header()
        for i in insts:
            words += i.words()
        r = "parse " + instgen.to_bytes(words).hex()
        reqs.append(r)
        metas[r] = (insts, ["switch:1x2"])
        nsweep += 1
    ctx.coverage["definer_opcodes_swept"] = nsweep
    # ids from the whole 32-bit range: the width of a literal depends on the declarations, never on how large an id is
    for big in (0x3ffffe, 0x3fffff, 0x400000, 0xffffff, 0x1000000, 0x7fffffff, 0x80000000, 0xfffffffe, 0xffffffff):
        for w, nw in ((64, 2), (32, 1), (16, 1)):
            tdecl = instgen.Inst(g.opv["TypeInt"], "TypeInt", None, big, [instgen.Op("w", L32, w), instgen.Op("w", L32, 1)])
            fdecl = instgen.Inst(g.opv["TypeFloat"], "TypeFloat", None, big, [instgen.Op("w", L32, w)])
            val = instgen.Inst(g.opv["Undef"], "Undef", big, big - 1, [])
            for decl in (tdecl, fdecl):
                insts = [decl, instgen.Inst(g.opv["Constant"], "Constant", big, 7, g.literal(nw == 2)), val,
                         instgen.Inst(g.opv["Switch"], "Switch", None, None,
                                      [instgen.Op("w", g.vix["IdRef"], big - 1), instgen.Op("w", g.vix["IdRef"], 9)] + g.literal(nw == 2) + [instgen.Op("w", g.vix["IdRef"], 9)])]
                words = instgen.header()
                for i in insts:
                    words += i.words()
                r = "parse " + instgen.to_bytes(words).hex()
                reqs.append(r)
                metas[r] = (insts, [f"const:{nw}", f"switch:1x{nw}"])
        # an unsupported width under a large id is still reported as unsupported
        insts = [instgen.Inst(g.opv["TypeInt"], "TypeInt", None, big, [instgen.Op("w", L32, 48), instgen.Op("w", L32, 0)]),
                 instgen.Inst(g.opv["Constant"], "Constant", big, 7, g.literal(False))]
        words = instgen.header()
        for i in insts:
            words += i.words()
        r = "parse " + instgen.to_bytes(words).hex()
        reqs.append(r)
        metas[r] = (insts, ["unsupported"])
    # a selector / result type whose tracked type CHANGES between two consumers with no type declaration in between (values defined and
    # redefined by OpUndef / OpCopyObject / OpFunction after all types were declared; first use before any definition)
    def _ti(rid, w):
        return instgen.Inst(g.opv["TypeInt"], "TypeInt", None, rid, [instgen.Op("w", L32, w), instgen.Op("w", L32, 0)])

    def _tf(rid, w):
        return instgen.Inst(g.opv["TypeFloat"], "TypeFloat", None, rid, [instgen.Op("w", L32, w)])

    def _sw(sel, two, n=2):
        ops = [instgen.Op("w", g.vix["IdRef"], sel), instgen.Op("w", g.vix["IdRef"], 9)]
        for _ in range(n):
            ops += g.literal(two) + [instgen.Op("w", g.vix["IdRef"], 9)]
        return instgen.Inst(g.opv["Switch"], "Switch", None, None, ops)

    def _un(t, rid):
        return instgen.Inst(g.opv["Undef"], "Undef", t, rid, [])

    def _co(t, rid):
        return instgen.Inst(g.opv["CopyObject"], "CopyObject", t, rid, [instgen.Op("w", g.vix["IdRef"], 8)])
    for a, b in ((64, 32), (32, 64), (64, 16), (8, 64)):
        for ta, tb in ((_ti, _ti), (_ti, _tf), (_tf, _ti)):
            if (ta is _tf and a == 8) or (tb is _tf and b == 8):
                continue
            for define in (_un, _co):
                hist = [ta(1, a), tb(2, b),
                        _sw(3, False), _sw(3, False, 1),            # %3 not defined yet: one word per literal
                        define(1, 3), _sw(3, a == 64), _sw(3, a == 64, 1),
                        define(2, 3), _sw(3, b == 64),
                        define(1, 3), define(2, 4), _sw(3, a == 64), _sw(4, b == 64), _sw(3, a == 64, 3)]
                words = instgen.header()
                for i in hist:
                    words += i.words()
                r = "parse " + instgen.to_bytes(words).hex()
                reqs.append(r)
                metas[r] = (hist, ["switch"] * 8)
    # long histories: hundreds of pairwise distinct numeric types (every width x signedness / float), each under its own id, and
    # hundreds of values chained from them, before the consumers — the width of a literal depends on the declaration of *its* type, not on
    # how many types, ids or values the stream has declared before (counts around 2^8, 2^9, 2^10, 2^12)
    for n in ((255, 256, 257, 300, 513, 1100) if ctx.tier == "quick" else (255, 256, 257, 258, 300, 511, 512, 513, 1023, 1025, 1100, 4097)):
        for first, (lw, lsigned_or_float) in ((32, (64, "int")), (64, (32, "float")), (16, (64, "float"))):
            insts = [instgen.Inst(g.opv["TypeInt"], "TypeInt", None, 1000, [instgen.Op("w", L32, first), instgen.Op("w", L32, 0)])]
            decls = {1000: first}
            k = 0
            while len(decls) < n:
                k += 1
                w = 65 + (k // 3)             # filler widths are all unsupported ones, pairwise distinct per kind
                rid = 1000 + k
                if k % 3 == 0:
                    insts.append(instgen.Inst(g.opv["TypeFloat"], "TypeFloat", None, rid, [instgen.Op("w", L32, w)]))
                else:
                    insts.append(instgen.Inst(g.opv["TypeInt"], "TypeInt", None, rid, [instgen.Op("w", L32, w), instgen.Op("w", L32, k % 3 - 1)]))
                decls[rid] = w
            last = 1000 + k + 1
            if lsigned_or_float == "int":
                insts.append(instgen.Inst(g.opv["TypeInt"], "TypeInt", None, last, [instgen.Op("w", L32, lw), instgen.Op("w", L32, 1)]))
            else:
                insts.append(instgen.Inst(g.opv["TypeFloat"], "TypeFloat", None, last, [instgen.Op("w", L32, lw)]))
            expect = []
            # values of the first and of the last type, then consumers of both (constants and switches on the values)
            insts.append(instgen.Inst(g.opv["Undef"], "Undef", 1000, 900, []))
            insts.append(instgen.Inst(g.opv["Undef"], "Undef", last, 901, []))
            for t, w, v in ((last, lw, 901), (1000, first, 900), (last, lw, 901)):
                nw = 2 if w == 64 else 1
                insts.append(instgen.Inst(g.opv["Constant"], "Constant", t, 902, g.literal(nw == 2)))
                expect.append(f"const:{nw}")
                insts.append(instgen.Inst(g.opv["Switch"], "Switch", None, None,
                                          [instgen.Op("w", g.vix["IdRef"], v), instgen.Op("w", g.vix["IdRef"], 9)] + g.literal(nw == 2) + [instgen.Op("w", g.vix["IdRef"], 9)]))
                expect.append(f"switch:1x{nw}")
            words = instgen.header()
            for i in insts:
                words += i.words()
            r = "parse " + instgen.to_bytes(words).hex()
            reqs.append(r)
            metas[r] = (insts, expect)
            # the same number of *values* chained one from the other (the n-th value still has the type of the first)
            insts = [instgen.Inst(g.opv["TypeInt"], "TypeInt", None, 1000, [instgen.Op("w", L32, 64), instgen.Op("w", L32, 0)]),
                     instgen.Inst(g.opv["TypeInt"], "TypeInt", None, 999, [instgen.Op("w", L32, 32), instgen.Op("w", L32, 0)]),
                     instgen.Inst(g.opv["Undef"], "Undef", 999, 998, [])]
            for j in range(n):
                insts.append(instgen.Inst(g.opv["Undef"], "Undef", 1000, 2000 + j, []))
            # consumers over the k-th chained value for k around every power of two up to 256 and the last one: no single tracked entry
            # may be lost, whichever position it was tracked at
            for j in sorted({0, 1, 2, 3, 6, 7, 8, 12, 13, 14, 15, 16, 17, 30, 31, 32, 33, 62, 63, 64, 65, 126, 127, 128, 129, 253, 254, 255, 256, 257, n - 2} & set(range(n - 1))):
                insts.append(instgen.Inst(g.opv["Switch"], "Switch", None, None,
                                          [instgen.Op("w", g.vix["IdRef"], 2000 + j), instgen.Op("w", g.vix["IdRef"], 9)] + g.literal(True) + [instgen.Op("w", g.vix["IdRef"], 9)]))
            insts.append(instgen.Inst(g.opv["Switch"], "Switch", None, None,
                                      [instgen.Op("w", g.vix["IdRef"], 2000 + n - 1), instgen.Op("w", g.vix["IdRef"], 9)] + g.literal(True) + [instgen.Op("w", g.vix["IdRef"], 9)]))
            insts.append(instgen.Inst(g.opv["Switch"], "Switch", None, None,
                                      [instgen.Op("w", g.vix["IdRef"], 998), instgen.Op("w", g.vix["IdRef"], 9)] + g.literal(False) + [instgen.Op("w", g.vix["IdRef"], 9)]))
            words = instgen.header()
            for i in insts:
                words += i.words()
            r = "parse " + instgen.to_bytes(words).hex()
            reqs.append(r)
            metas[r] = (insts, ["switch:1x2"] * (len([i_ for i_ in insts if i_.name == "Switch"]) - 1) + ["switch:1x1"])
    # a parse that is *aborted* (parse error, consumer stop, consumer error) after it has seen type declarations, followed by a parse
    # that uses the same ids without declaring them: one word per literal, whatever the earlier parse had declared
    for w in (64, 128, 8):
        for kind in ("Constant", "Switch"):
            decl = [instgen.Inst(g.opv["TypeInt"], "TypeInt", None, 300, [instgen.Op("w", L32, w), instgen.Op("w", L32, 0)]),
                    instgen.Inst(g.opv["Undef"], "Undef", 300, 301, [])]
            wa = instgen.header()
            for i in decl:
                wa += i.words()
            aborted = ["parse " + instgen.to_bytes(wa + [0]).hex(),              # WordCountZero after the declarations
                       "parse " + instgen.to_bytes(wa).hex() + " 3:s",           # consumer stops at the second instruction
                       "parse " + instgen.to_bytes(wa).hex() + " 4:e",           # consumer error at finalize
                       "parse " + instgen.to_bytes(wa + [0x00030000 | g.opv["Constant"], 300]).hex()]   # truncated instruction
            if kind == "Constant":
                use = [instgen.Inst(g.opv["Constant"], "Constant", 300, 302, g.literal(False))]
                exp = ["const:1"]
            else:
                use = [instgen.Inst(g.opv["Switch"], "Switch", None, None,
                                    [instgen.Op("w", g.vix["IdRef"], 301), instgen.Op("w", g.vix["IdRef"], 9)] + g.literal(False) + [instgen.Op("w", g.vix["IdRef"], 9)])]
                exp = ["switch:1x1"]
            wb = instgen.header()
            for i in use:
                wb += i.words()
            rb = "parse " + instgen.to_bytes(wb).hex()
            for ra in aborted:
                reqs.append(ra); metas.setdefault(ra, (None, None))
                reqs.append(rb); metas[rb] = (use, exp)

    def oracle(req, resp):
        if resp.startswith("panic"):
            return "panicked: " + resp[6:80]
        if req.startswith("asm "):
            return None
        insts, expect = metas[req]
        if insts is None:
            return None
        parts = resp.split(" | ")
        got = parts[3].split(" ") if parts[3] else []
        if expect and expect[-1] == "unsupported":
            if not parts[0].startswith("TypeUnsupported"):
                return f"literal of an unsupported width was not rejected with TypeUnsupported: {parts[0]}"
            return None
        if parts[0] != "ok":
            return f"history rejected: {parts[0]}"
        want = [i.text() for i in insts]
        if got != want:
            j = next((j for j, (a, b) in enumerate(zip(got, want)) if a != b), min(len(got), len(want)))
            return f"instruction #{j + 1} parsed as {got[j] if j < len(got) else None}, the declared types demand {want[j] if j < len(want) else None}"
        return None

    impl, model = C.differential(ctx, reqs, "parse-literal-histories", oracle=oracle, shrink=False)
    ex = {}
    for r, (insts, expect) in metas.items():
        for e in (expect or []):
            ex[e.split(":")[0] + (":" + e.split("x")[-1] if "x" in e else ":" + e.split(":")[-1] if ":" in e else "")] = ex.get(e, 0) + 1
        ctx.distinct.add(tuple(expect or ()))
    ctx.coverage["consumer_kinds"] = dict(sorted(ex.items())[:20])
    ctx.samples = [{"request": reqs[i][:200], "implementation": impl[i][:200]} for i in (0, len(reqs) // 2)]
    ctx.assumptions += ["ids are deliberately reused across consecutive parses handled by one harness process, so state leaking between parses would surface as a disagreement",
                        "oracle restates the width rule independently of the Lean model"]
    return C.finish(ctx, level="proof", checker_cmd="lake build Rspirv.Props.C10 + #print axioms",
                    rule="seeded histories over 5 reused ids: int/float declarations of widths {8,16,32,64,128,7,0,24,48,65,2^31}, value definitions chaining result types (OpUndef/OpCopyObject), non-numeric type declarations, and OpConstant/OpSpecConstant/OpSwitch consumers; selectors/result types whose tracked type changes between consumers with no type declaration in between; 255..1100 (thorough 4097) pairwise distinct types and as many chained values before the consumers; distinct non-trivial = distinct expectation vectors",
                    trusted=["hand models Parser.lean (parse_literal, TypeTracker) + differential harness"])


def replay(ctx, path):
    r = json.load(open(path))
    req = (r.get("witness") or {}).get("request")
    if not req:
        return run(ctx)
    with C.Lock():
        C.translate_all(ctx)
        C.build_harness(ctx, bins=("impl",))
    hist = (r.get("witness") or {}).get("history") or []
    a, b = C.run_impl(ctx, hist + [req])[-1], C.run_driver(ctx, hist + [req])[-1]
    print("history:", len(hist), "requests"); print("request:", req[:300]); print("implementation:", a[:300]); print("model:", b[:300])
    return 1 if C.canon(a) != C.canon(b) else 0
