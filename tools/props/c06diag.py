"""Python re-evaluation of the Lean table check `methodOk` (C06): which method fails which clause."""
from translate.builder import SECTIONS as BSECT


def kind_variants(T, k):
    pk, pf = T["parse_operand"]
    if k == "LiteralSpecConstantOpInteger":
        return (["LiteralSpecConstantOpInteger"], False)
    a = pk.get(k)
    if a is None or a[0] == "panic":
        return None
    if a[0] == "elems":
        return ([v for v, _ in a[1]], False)
    return ([a[1][0]], True)


def loader_class(name, ext_reflect_by_name):
    """C05 classify, from extracted predicate bits"""
    if name == "Capability": return ("sect", 0)
    if name == "Extension": return ("sect", 1)
    if name == "ExtInstImport": return ("sect", 2)
    if name == "MemoryModel": return ("sect", 3)
    if name == "EntryPoint": return ("sect", 4)
    if name in ("ExecutionMode", "ExecutionModeId"): return ("sect", 5)
    if name in ("String", "SourceExtension", "Source", "SourceContinued"): return ("sect", 6)
    if name in ("Name", "MemberName"): return ("sect", 7)
    if name == "ModuleProcessed": return ("sect", 8)
    b = ext_reflect_by_name[name]
    if b[0] == "1": return ("line",)
    if b[3] == "1": return ("sect", 9)
    if b[4] == "1" or b[5] == "1": return ("sect", 10)
    if name in ("Variable", "Undef", "Function", "FunctionEnd", "FunctionParameter", "Label"): return ("hand",)
    if b[11] == "1": return ("term",)
    return ("other",)


def diagnose(T, ext):
    kinds, core = T["core"]
    entry = {r["name"]: r for r in core}
    names = {e["opcode"]: e["name"] for e in ext["core"]}
    bits = {names[o]: b for o, b in ext["reflect"]}
    out = []
    for m in T["builder"]:
        if m["kind"] != "emit":
            continue
        e = entry.get(m["opname"])
        if e is None:
            out.append((m["name"], "no grammar entry for " + m["opname"])); continue
        pidx = {pn: i for i, (pn, _) in enumerate(m["params"])}
        has_rt = any(k == "IdResultType" for k, _ in e["ops"])
        has_rid = any(k == "IdResult" for k, _ in e["ops"])
        ops = [(k, q) for k, q in e["ops"] if k not in ("IdResultType", "IdResult")]
        if (m["rtype"][0] != "none") != has_rt:
            out.append((m["name"], f"result type: method {'takes' if m['rtype'][0] != 'none' else 'has no'} one, grammar {'has' if has_rt else 'has none'}")); continue
        if (m["idrule"] is not None) != has_rid:
            out.append((m["name"], f"result id: method {'allocates/takes' if m['idrule'] else 'has no'} one, grammar entry {'has' if has_rid else 'has none'}")); continue
        slots = [("one", v, p) for v, p in m["init"]]
        for x in m["extras"]:
            if x[0] == "opt": slots.append(("opt", x[1], x[2]))
            elif x[0] == "many": slots.append(("many", x[1], x[2]))
            elif x[0] == "raw": slots.append(("raw", None, x[1]))
            else: slots.append(("pairs", [p[0] for p in x[1]], x[2]))
        parameterised = any((kind_variants(T, k) or ([], False))[1] for k, _ in ops)
        raws = [s for s in slots if s[0] == "raw"]
        body = [s for s in slots if s[0] != "raw"] if parameterised else slots
        if parameterised and not (len(raws) == 1 and slots[-1][0] == "raw"):
            out.append((m["name"], "parameterised kind without a single trailing additional_params")); continue
        if not parameterised and raws:
            out.append((m["name"], "additional_params although no operand kind is parameterised")); continue
        if len(body) != len(ops):
            out.append((m["name"], f"{len(body)} operand slots for {len(ops)} grammar operands")); continue
        bad = None
        for (k, q), s in zip(ops, body):
            kv = kind_variants(T, k)
            if k == "PairLiteralIntegerIdRef":
                ok = s[0] == "pairs" and s[1] == ["raw", "IdRef"] and q == "ZeroOrMore"
            elif kv is None:
                ok = False
            elif len(kv[0]) == 1:
                ok = (s[0], q) in (("one", "One"), ("opt", "ZeroOrOne"), ("many", "ZeroOrMore")) and s[1] == kv[0][0]
            else:
                ok = s[0] == "pairs" and s[1] == kv[0] and q == "ZeroOrMore"
            if not ok:
                bad = f"slot {s} does not realise grammar operand ({k}, {q})"
                break
        if bad:
            out.append((m["name"], bad)); continue
        order = [pidx[s[2]] for s in slots]
        if order != sorted(order) or len(set(order)) != len(order):
            out.append((m["name"], f"operands are not fed by the parameters in signature order: {[s[2] for s in slots]}")); continue
        lc = loader_class(m["opname"], bits)
        sk = m["sink"]
        ok = (lc[0] == "sect" and ((sk[0] == "section" and BSECT.index(sk[1]) == lc[1]) or (sk[0] == "dedup" and lc[1] == 10))) or \
             (lc[0] == "term" and sk[0] == "end_block") or (lc[0] == "other" and sk[0] == "block")
        if not ok:
            out.append((m["name"], f"sink {sk} but the loader files Op{m['opname']} as {lc}")); continue
    return out
