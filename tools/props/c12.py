"""C12 — Builder calls never panic, failed calls change nothing, structure is enforced."""
import itertools
import json
import os
import random
import checklib as C

MODULE = "Rspirv.Props.C12"
THEOREMS = ["Rspirv.Props.C12.insertIntoBlock_spec", "Rspirv.Props.C12.step_spec", "Rspirv.Props.C12.C12_conditions",
            "Rspirv.Props.C12.C12_run", "Rspirv.Props.C12.selValid_new", "Rspirv.Props.C12.ok_selectByName",
            "Rspirv.Props.C12.ok_selectFunction", "Rspirv.Props.C12.ok_selectBlock", "Rspirv.Props.C12.ok_popInstruction"]
NEEDS = ("header", "core", "decode", "operand_enum", "asm_arms", "parse_operand", "operands", "builder")


TERMINATORS = {"ret", "kill", "branch", "insert_ret", "insert_unreachable", "unreachable", "ret_value", "branch_conditional",
               "switch", "terminate_invocation", "ignore_intersection_khr", "terminate_ray_khr", "emit_mesh_tasks_ext"}
TERMINATORS |= {"insert_" + t for t in list(TERMINATORS) if not t.startswith("insert_")}


class Sim:
    """selection / block-length bookkeeping written from the property's statement (used to generate in-range offsets and
    as the oracle for the success/failure conditions) -- not the Lean model"""

    block_methods = None       # optional: names of generated methods whose sink is the current block

    def __init__(self):
        self.fns = []          # list of list of block lengths
        self.sf = None
        self.sb = None

    def expect(self, call):
        """returns 'ok' | 'err' | None (not judged) and updates the bookkeeping assuming the property holds"""
        name = call.split("/")[0]
        a = call.split("/")[1:]
        if name == "begin_function":
            if self.sf is not None:
                return "err"
            self.fns.append([]); self.sf = len(self.fns) - 1
            return "ok"
        if name == "end_function":
            if self.sf is None:
                return "err"
            self.sf = None; self.sb = None
            return "ok"
        if name == "function_parameter":
            return "err" if self.sf is None else "ok"
        if name in ("begin_block", "begin_block_no_label"):
            if self.sf is None or self.sb is not None:
                return "err"
            self.fns[self.sf].append(0); self.sb = len(self.fns[self.sf]) - 1
            return "ok"
        if name in TERMINATORS:
            if self.sb is None:
                return "err"
            self.fns[self.sf][self.sb] += 1; self.sb = None
            return "ok"
        if name in ("nop", "insert_nop", "i_add", "insert_i_add", "lifetime_start", "demote_to_helper_invocation", "ext_inst", "insert_into_block"):
            if self.sb is None:
                return "err"
            self.fns[self.sf][self.sb] += 1
            return "ok"
        if name in ("variable", "undef", "line", "no_line"):
            if self.sb is not None and self.sf is not None:
                self.fns[self.sf][self.sb] += 1
            return "ok"
        if name == "select_function":
            if a[0] == "-":
                self.sf = None; self.sb = None
                return "ok"
            if int(a[0]) < len(self.fns):
                self.sf = int(a[0]); self.sb = None
                return "ok"
            return "err"
        if name == "select_block":
            if a[0] == "-":
                self.sb = None
                return "ok"
            if self.sf is None:
                return "err"
            if int(a[0]) < len(self.fns[self.sf]):
                self.sb = int(a[0])
                return "ok"
            return "err"
        if name == "pop_instruction":
            if self.sb is None or self.sf is None:
                return "err"
            if self.fns[self.sf][self.sb] == 0:
                return "err"
            self.fns[self.sf][self.sb] -= 1
            return "ok"
        if self.block_methods is not None and name in self.block_methods:
            if self.sb is None:
                return "err"
            self.fns[self.sf][self.sb] += 1
            if self.block_methods[name]:          # the opcode is a terminator (reference classification, not the Builder's own)
                self.sb = None
            return "ok"
        return "ok"     # module-level / id / type requests never fail

    def cur_len(self):
        if self.sf is not None and self.sb is not None:
            return self.fns[self.sf][self.sb]
        return None


def gen_history(rnd, n):
    sim = Sim()
    calls = []
    for _ in range(n):
        r = rnd.random()
        L = sim.cur_len()

        def ip():
            k = rnd.random()
            if k < 0.4 or L is None:
                return rnd.choice(["E", "B"])
            return rnd.choice(["FB:", "FE:"]) + str(rnd.randrange(0, L + 1))
        if r < 0.10:
            c = "begin_function/1/%s/%d/2" % (rnd.choice(["-", "77"]), rnd.choice([0, 1, 6]))
        elif r < 0.18:
            c = "end_function"
        elif r < 0.30:
            c = "begin_block/" + rnd.choice(["-", "-", "88"])
        elif r < 0.32:
            c = "begin_block_no_label/-"
        elif r < 0.42:
            c = rnd.choice(["ret", "kill", "branch/5", "unreachable", "insert_ret/" + ip(), "insert_unreachable/" + ip()])
        elif r < 0.58:
            c = rnd.choice(["nop", "insert_nop/" + ip(), "i_add/1/-/2/3", "insert_i_add/" + ip() + "/1/9/2/3", "lifetime_start/1/0",
                            "demote_to_helper_invocation", "ext_inst/1/-/2/3/58:4",
                            "insert_into_block/" + ip() + "/0;-;-;-"])
        elif r < 0.63:
            c = "function_parameter/1"
        elif r < 0.72:
            c = rnd.choice(["capability/1", "name/1/6d61696e", "decorate/1/0/-", "type_void", "type_int/32/0", "constant_bit32/1/7", "memory_model/0/1", "id", "string/61",
                            "constant_bit64/1/18446744073709551615", "spec_constant_bit64/1/5", "spec_constant_bit32/1/5", "type_pointer/-/7/1", "type_pointer/9/7/1",
                            "insert_types_global_values/" + rnd.choice(["E", "B", "FB:0", "FE:0"]) + "/19;-;44;-"])
        elif r < 0.80:
            c = rnd.choice(["variable/1/-/7/-", "undef/1/-", "line/1/2/3", "no_line"])
        elif r < 0.86:
            c = "select_function/" + rnd.choice(["-", "0", "1", "2", "7"])
        elif r < 0.88:
            # OpName for ids that are (77) or may be (small fresh ids) function ids, and selection through them
            c = rnd.choice(["name/77/66", "name/%d/66" % rnd.randrange(1, 9), "name/%d/67" % rnd.randrange(1, 9), "name/5/66",
                            "select_function_by_name/66", "select_function_by_name/66", "select_function_by_name/67", "select_function_by_name/7a"])
        elif r < 0.95:
            c = "select_block/" + rnd.choice(["-", "0", "1", "2", "7"])
        else:
            c = "pop_instruction"
        sim.expect(c)
        calls.append(c)
    return "build " + " ".join(calls)


def selection_valid(resp):
    """the final selection designates an existing function and block of the dumped module, or nothing"""
    parts = resp.split(" | ")
    sf, sb = parts[1][4:].split(",")
    fns = parts[2].split(" F ")[1:]
    if sf == "-":
        return None if sb == "-" else f"block {sb} selected without a function"
    if int(sf) >= len(fns):
        return f"selected function {sf} of {len(fns)}"
    nblocks = len(fns[int(sf)].split(" B ")) - 1
    if sb != "-" and int(sb) >= nblocks:
        return f"selected block {sb} of {nblocks} in function {sf}"
    return None


def oracle(req, resp):
    if resp.startswith("panic"):
        return "a Builder call panicked: " + resp[6:90]
    if not resp.startswith("ok "):
        return None if resp.startswith("bad-request") else "unexpected: " + resp[:60]
    bad = selection_valid(resp)
    if bad:
        return "the selection does not designate an existing function/block: " + bad
    if "select_function_by_name/" in req:
        # which function a name selects depends on the ids allocated so far: the structural expectations below are not
        # simulated for these histories (the differential with the model carries the exact behaviour); after a successful
        # selection by name no block is selected
        calls = req.split(" ")[1:]
        outs = resp.split(" | ")[0].split(" ")[1:]
        if calls and calls[-1].startswith("select_function_by_name/") and outs[-1] == "ok" and resp.split(" | ")[1][4:].split(",")[1] != "-":
            return "select_function_by_name succeeded and left a block selected"
        return None
    calls = req.split(" ")[1:]
    outs = resp.split(" | ")[0].split(" ")[1:]
    sim = Sim()
    for c, o in zip(calls, outs):
        if o.endswith("!mutated"):
            return f"`{c}` returned {o[:-8]} but changed the instructions of the module under construction"
        e = sim.expect(c)
        got = "err" if o.startswith("err") else "ok"
        if e is not None and e != got:
            return f"`{c}` answered {o}, the structure rules demand {e}"
    sel = resp.split(" | ")[1][4:].split(",")
    want = ["-" if sim.sf is None else str(sim.sf), "-" if sim.sb is None else str(sim.sb)]
    if sel != want:
        return f"selection is {sel}, expected {want}"
    return None


def run(ctx):
    with C.Lock():
        T, fails = C.translate_all(ctx)
        hok, herr = C.build_harness(ctx, bins=("impl",))
        have = C.need(ctx, *NEEDS)
        failing = C.prove(ctx, MODULE, THEOREMS, extra_targets=["driver"],
                          files=["Rspirv/Props/C12.lean", "Rspirv/Model/Builder.lean"]) if have else []
    for n, e in failing:
        ctx.issue(f"theorem:{n}", f"Lean obligation no longer checks: {e['msg'][:300]}", witness=e)
    if not hok:
        ctx.issue("harness-build", "the harness no longer builds against the working tree: " + herr[-400:])
        return C.finish(ctx)
    broken = (not have) or any(n == "<build>" for n, _ in failing)
    rnd = random.Random(ctx.seed)
    corpus = []
    cdir = os.path.join(C.VERIF, "corpus", "C12")
    for f in sorted(os.listdir(cdir)):
        corpus += [l.strip() for l in open(os.path.join(cdir, f)) if l.strip()]
    reqs = list(corpus)
    alpha = ["begin_function/1/-/0/2", "end_function", "begin_block/-", "ret", "nop", "function_parameter/1",
             "capability/1", "variable/1/-/7/-", "select_function/0", "select_block/0", "select_function/-", "pop_instruction",
             "insert_nop/B", "line/1/2/3"]
    # selection by name: two or three functions with known ids (77, 78, fresh), names for function ids and for other ids,
    # a block selected or open beforehand, and every call kind afterwards
    two = "begin_function/1/77/0/2 begin_block/- ret begin_block/- ret end_function begin_function/1/78/0/2 begin_block/- ret end_function"
    names = ["name/77/66", "name/78/67", "name/5/66 name/77/66", "name/77/66 name/78/66", "name/78/68 name/77/68", "name/3/69"]
    before = ["", "select_function/0 select_block/1", "select_function/1 select_block/0", "select_function/0 select_block/0",
              "begin_function/1/-/0/2 begin_block/-", "select_function/1"]
    after = ["", "nop", "ret", "begin_block/-", "pop_instruction", "variable/1/-/7/-", "select_block/1", "end_function", "function_parameter/1", "line/1/2/3"]
    for nm in names:
        for bf in before:
            for by in ("66", "67", "68", "69", "7a"):
                for af in after:
                    reqs.append(" ".join(x for x in ("build", two, nm, bf, "select_function_by_name/" + by, af) if x))
    # every generated block-level method (append and insert form) once: it needs a selected block, appends one instruction, and
    # closes the block iff its opcode is a terminator *of the specification* (reference/specclass.json), whatever sink the
    # generated method uses
    if "builder" in T:
        import buildgen
        from props import common
        sc = common.specclass()
        ref_term = set(sc["ret"]["names"]) | set(sc["abort"]["names"]) | set(sc["branch"]["names"])
        bg = buildgen.BuildGen(T, rnd)
        Sim.block_methods = {m["name"]: (m["opname"] in ref_term) for m in bg.methods if m["sink"][0] in ("block", "end_block")}
        nsweep = 0
        for m in bg.methods:
            if m["sink"][0] not in ("block", "end_block") or m["opname"] == "Phi":
                continue
            has_ip = any(t == ("insert_point",) for _, t in m["params"])
            for ipv in (["E", "B", "FE:0", "FB:1"] if has_ip else ["E"]):
                try:
                    c = bg.call(m, ip=ipv)
                except Exception:
                    continue
                for tail in ("nop ret", "begin_block/- ret"):
                    reqs.append("build begin_function/1/-/0/2 begin_block/- nop " + c + " " + tail + " end_function")
                    nsweep += 1
                reqs.append("build begin_function/1/-/0/2 " + c + " begin_block/- ret end_function")
                nsweep += 1
        ctx.coverage["generated_block_methods_swept"] = nsweep
    maxlen = 4 if ctx.tier == "quick" else 5
    for n in range(1, maxlen + 1):
        for w in itertools.product(alpha, repeat=n):
            reqs.append("build " + " ".join(w))
    ctx.coverage["exhaustive_upto_len"] = maxlen
    for _ in range(2500 if ctx.tier == "quick" else 40000):
        reqs.append(gen_history(rnd, rnd.randrange(3, 40)))
    if broken:
        if C.oracle_search(ctx, reqs, oracle, "build"):
            ctx.issues = [i for i in ctx.issues if i.found_input]
        return C.finish(ctx)
    impl, model = C.differential(ctx, reqs, "build", oracle=oracle)
    kinds = {}
    for a in impl:
        for t in a.split(" | ")[0].split(" ")[1:]:
            k = t.split(":")[0] + (":" + t.split(":")[1] if t.startswith("err") else "")
            kinds[k] = kinds.get(k, 0) + 1
        ctx.distinct.add(a[:300])
    ctx.coverage["call_results"] = kinds
    ctx.samples = [{"request": reqs[i][:200], "implementation": impl[i][:200]} for i in (0, len(reqs) // 2, len(reqs) - 1)]
    ctx.assumptions += ["insertion offsets within the selected block (the property's hypothesis; generated in range by bookkeeping)",
                        "the id space is not exhausted (u32 overflow of next_id is outside the model)",
                        "error atomicity is observed by the harness: module_ref() dump before and after every failing call"]
    return C.finish(ctx, level="proof", checker_cmd="lake build Rspirv.Props.C12 + #print axioms",
                    rule="corpus (pre-fix stale-selection panics first), all sequences of length <= 4 over 14 call kinds, seeded histories of 3-40 calls over begin/end function, blocks, terminators (append and insert forms), block instructions at all insert points, parameters, module-level calls, variable/undef/line, select_function/select_block with valid and stale indices, pop_instruction; distinct non-trivial = distinct responses",
                    trusted=["hand model Builder.lean + method specs regenerated from the source + differential harness (chan/build.rs)"])


def replay(ctx, path):
    r = json.load(open(path))
    req = (r.get("witness") or {}).get("request")
    if not req:
        return run(ctx)
    with C.Lock():
        C.translate_all(ctx)
        C.build_harness(ctx, bins=("impl",))
    hist = (r.get("witness") or {}).get("history") or []     # requests answered before it by the same process
    a, b = C.run_impl(ctx, hist + [req])[-1], C.run_driver(ctx, hist + [req])[-1]
    print("request:", req[:300]); print("implementation:", a[:300]); print("model:", b[:300]); print("oracle:", oracle(req, a))
    return 1 if C.canon(a) != C.canon(b) or oracle(req, a) else 0
