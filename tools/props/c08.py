"""C08 — spirv enums and bit-masks map numbers and names exactly as declared."""
import random
import checklib as C
from props import common

MODULE = "Rspirv.Props.C08"
THEOREMS = ["Rspirv.Props.C08.enums_wf", "Rspirv.Props.C08.C08_enum", "Rspirv.Props.C08.C08_names",
            "Rspirv.Props.C08.C08_mask", "Rspirv.Props.C08.C08_pinned"]


def model_accepts(e, n):
    for a in e["arms"]:
        if a[0] == "range" and a[1] <= n <= a[2]:
            return n
        if a[0] == "lit" and a[1] == n:
            return a[2]
        if a[0] == "named" and a[1] == n:
            return dict(e["decl"]).get(a[2])
    return None


def probes_for(hdr, seed, tier):
    rnd = random.Random(seed)
    P = []
    unsafe = []     # in some arm's range but undeclared: calling from_u32 there is UB; only probed as a demonstration
    for e in hdr["enums"]:
        declared = {v for _, v in e["decl"]}
        cand = set(declared) | {0, 1, 0x7fffffff, 0xffffffff, 0xfffffffe}
        for a in e["arms"]:
            if a[0] == "range":
                cand |= {a[1] - 1, a[1], a[2], a[2] + 1}
            else:
                cand |= {a[1] - 1, a[1], a[1] + 1}
        for _ in range(20 if tier == "quick" else 400):
            cand.add(rnd.randrange(0, 1 << 32))
            cand.add(rnd.randrange(0, 8192))
        for n in sorted(cand):
            if n < 0 or n > 0xffffffff:
                continue
            m = model_accepts(e, n)
            if m is not None and n not in declared:
                unsafe.append((e["name"], n))
                continue
            P.append(f"enum {e['name']} {n}")
        if e["fromstr"] is not None:
            strs = {s for s, _ in e["fromstr"]} | {n for n, _ in e["decl"]} | {a for a, _ in e["aliases"]}
            strs |= {"NoSuchEnumerant_", e["decl"][0][0].lower() + "_x", e["decl"][0][0] + "X"}
            for s in sorted(strs):
                if s and " " not in s:
                    P.append(f"str {e['name']} {s}")
        for a, _ in e["aliases"]:
            P.append(f"alias {e['name']} {a}")
    for m in hdr["masks"]:
        allb = 0
        for _, v in m["consts"]:
            allb |= v
        cand = {0, allb, 0xffffffff, allb ^ 0xffffffff} | {1 << i for i in range(32)} | {allb | (1 << i) for i in range(32)}
        for _ in range(50 if tier == "quick" else 2000):
            cand.add(rnd.randrange(0, 1 << 32) & (allb if rnd.random() < 0.7 else 0xffffffff))
        for n in sorted(cand):
            P.append(f"mask {m['name']} {n}")
        P.append(f"maskall {m['name']}")
        for c, _ in m["consts"]:
            P.append(f"maskconst {m['name']} {c}")
    return P, unsafe


def diagnose(hdr):
    """Python re-evaluation of the Lean table checks: first offending rows with constructed witnesses."""
    out = []
    for e in hdr["enums"]:
        declared = {v for _, v in e["decl"]}
        byname = dict(e["decl"])
        for a in e["arms"]:
            rng = range(a[1], min(a[2], a[1] + 70000) + 1) if a[0] == "range" else [a[1]]
            for n in rng:
                d = model_accepts(e, n)
                if n not in declared:
                    out.append({"enum": e["name"], "n": n, "fault": "accepted-but-undeclared",
                                "detail": f"{e['name']}::from_u32({n}) takes arm {a} and materialises an undeclared discriminant (UB)"})
                    break
                if d != n:
                    out.append({"enum": e["name"], "n": n, "fault": "wrong-value", "detail": f"yields discriminant {d}"})
                    break
        acc = {n for a in e["arms"] for n in ([a[1]] if a[0] != "range" else range(a[1], min(a[2], a[1] + 70000) + 1))}
        for v in sorted(declared - acc):
            out.append({"enum": e["name"], "n": v, "fault": "declared-but-rejected",
                        "detail": f"{e['name']}::from_u32({v}) is None although {v} is a declared discriminant"})
        if e["fromstr"] is not None:
            first = {}
            for s, v in e["fromstr"]:
                first.setdefault(s, v)
            for nme, _ in e["decl"]:
                if first.get(nme) != nme:
                    out.append({"enum": e["name"], "str": nme, "fault": "name-does-not-parse-back",
                                "detail": f'"{nme}".parse::<{e["name"]}>() gives {first.get(nme)}'})
            for al, tg in e["aliases"]:
                if first.get(al) != tg:
                    out.append({"enum": e["name"], "str": al, "fault": "alias-does-not-parse-to-target",
                                "detail": f'"{al}" parses to {first.get(al)}, the constant aliases {tg}'})
            seen = set()
            for s, _ in e["fromstr"]:
                if s in seen:
                    out.append({"enum": e["name"], "str": s, "fault": "duplicate-string-arm", "detail": "unreachable arm"})
                seen.add(s)
    return out


def pinned_diff(hdr, pinned):
    out = []
    pe = {e["name"]: e for e in pinned["enums"]}
    for e in hdr["enums"]:
        p = pe.get(e["name"])
        if p is None:
            out.append({"enum": e["name"], "fault": "not-in-pinned-release"})
            continue
        if e["decl"] != [tuple(x) for x in p["decl"]]:
            d = sorted(set(map(tuple, e["decl"])) ^ set(map(tuple, p["decl"])))
            out.append({"enum": e["name"], "fault": "declaration-differs-from-pinned", "rows": d[:6]})
        if sorted(e["aliases"]) != sorted(map(tuple, p["aliases"])):
            out.append({"enum": e["name"], "fault": "aliases-differ-from-pinned"})
    for name in set(pe) - {e["name"] for e in hdr["enums"]}:
        out.append({"enum": name, "fault": "missing-vs-pinned"})
    pm = {m["name"]: m for m in pinned["masks"]}
    for m in hdr["masks"]:
        p = pm.get(m["name"])
        if p is None or m["consts"] != [tuple(x) for x in p["consts"]]:
            out.append({"mask": m["name"], "fault": "constants-differ-from-pinned",
                        "rows": sorted(set(m["consts"]) ^ set(map(tuple, (p or {"consts": []})["consts"])))[:6]})
    return out


def run(ctx):
    import json, os
    T, fails = None, None
    with C.Lock():
        T, fails = C.translate_all(ctx)
        hok, herr = C.build_harness(ctx, bins=("extract",))
        have = C.need(ctx, "header")
        failing = C.prove(ctx, MODULE, THEOREMS, extra_targets=["driver"],
                          files=["Rspirv/Props/C08.lean", "Rspirv/Generic/Enum.lean", "Rspirv/Generic/Sort.lean"]) if have else []
    hdr = T.get("header")
    # -- proof side
    if have and failing:
        diag = diagnose(hdr)
        pinned = json.load(open(os.path.join(C.VERIF, "reference", "pinned-spirv.json")))
        pd = pinned_diff(hdr, pinned)
        for n, e in failing:
            ctx.log(f"obligation failed: {n}: {e['msg'][:200]}")
        if not diag and not pd:
            for n, e in failing:
                ctx.issue(f"theorem:{n}", f"Lean obligation no longer checks: {e['msg'][:300]}", witness=e)
        for d in diag[:20]:
            w = dict(d)
            found = False
            if hok and "n" in d:
                # demonstrate on the implementation (for accepted-but-undeclared this executes UB on purpose)
                try:
                    out = C.run_extract(ctx, [f"enum {d['enum']} {d['n']}"])
                    w["implementation"] = [l for l in out.splitlines() if l.startswith("enum ")]
                    found = True
                except Exception as ex:  # crash = the UB manifested
                    w["implementation"] = f"probe process died: {ex}"
                    found = True
            elif hok and "str" in d:
                out = C.run_extract(ctx, [f"str {d['enum']} {d['str']}"])
                w["implementation"] = [l for l in out.splitlines() if l.startswith("str ")]
                found = True
            ctx.issue(f"C08:{d['enum']}:{d['fault']}:{d.get('n', d.get('str'))}", d["detail"], witness=w, found_input=found)
        for d in pd[:20]:
            ctx.issue(f"C08:pinned:{d.get('enum', d.get('mask'))}:{d['fault']}",
                      "declared numeric values / names differ from the pinned SDK release snapshot", witness=d, found_input=True)
    # -- correspondence: implementation vs Lean model on probes
    if have and hok and not any(n for n, _ in failing if n == "<build>"):
        probes, unsafe = probes_for(hdr, ctx.seed, ctx.tier)
        impl = [l for l in C.run_extract(ctx, probes).splitlines() if l.split(" ")[0] in ("enum", "str", "alias", "mask", "maskall", "maskconst")]
        try:
            model = C.run_driver(ctx, probes)
        except Exception as ex:
            model = None
            ctx.issue("driver", f"Lean driver could not be run: {ex}")
        if model is not None:
            ctx.evaluations += len(probes)
            bad = [(p, a, b) for p, a, b in zip(probes, impl, model) if a != b]
            if len(impl) != len(model):
                bad.append(("<length>", str(len(impl)), str(len(model))))
            for p, a, b in bad[:10]:
                ctx.issue(f"correspondence:{p}", "implementation and Lean model disagree on a probe",
                          witness={"probe": p, "implementation": a, "model": b}, found_input=True, kind="correspondence")
            ctx.oblige("correspondence:spirv-probes", not bad)
            for l in impl:
                f = l.split(" ")
                if f[0] in ("enum", "mask", "str") and f[3] == "some":
                    ctx.distinct.add(l)
            ctx.samples = impl[:3] + impl[len(impl) // 2:len(impl) // 2 + 3] + impl[-3:]
            ctx.coverage["probe_kinds"] = {k: sum(1 for p in probes if p.startswith(k + " ")) for k in ("enum", "str", "alias", "mask", "maskall", "maskconst")}
            ctx.coverage["unsafe_numbers_not_probed"] = len(unsafe)
    elif not hok:
        ctx.issue("harness-build", "the harness no longer builds against the working tree: " + (herr or "")[-400:])
    ctx.assumptions += ["rustc: `as u32` / transmute on #[repr(u32)] enums is the identity on declared discriminants",
                        "bitflags 2.x from_bits accepts iff no bit outside all() is set (probed on every single bit)",
                        "reference for 'Khronos grammar of the pinned release' = committed snapshot reference/pinned-spirv.json (DESIGN §7)",
                        "strict translator tools/translate/spirv_header.py"]
    return C.finish(ctx, level="proof",
                    checker_cmd="lake build Rspirv.Props.C08 (decide +kernel over the regenerated tables) + #print axioms",
                    rule="probes: every declared discriminant, arm boundaries +-1, seeded numbers, every FromStr string/alias, every single mask bit and seeded combinations; distinct non-trivial = distinct accepted (Some) probes",
                    trusted=["translator spirv_header.py", "extractor probes"])


def replay(ctx, path):
    import json
    r = json.load(open(path))
    w = r.get("witness") or {}
    probe = None
    if "n" in w and "enum" in w:
        probe = f"enum {w['enum']} {w['n']}"
    elif "str" in w:
        probe = f"str {w['enum']} {w['str']}"
    elif "probe" in w:
        probe = w["probe"]
    if probe is None:
        print("replay names an obligation, not an input:", r.get("key"))
        return run(ctx)
    with C.Lock():
        C.translate_all(ctx)
        C.build_harness(ctx)
    print("implementation:", [l for l in C.run_extract(ctx, [probe]).splitlines() if l.startswith(probe.split(' ')[0] + " ")])
    print("model:         ", C.run_driver(ctx, [probe]))
    return 0
