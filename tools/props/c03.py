"""C03 — the parser accepts exactly the grammar and reports the first malformed instruction."""
import json
import os
import random
import checklib as C
import instgen
from props import common

MODULE = "Rspirv.Props.C03All"
PS = "Rspirv.Props.ParserSpec."
THEOREMS = [PS + n for n in ("word_cons", "view_bytes", "string_view", "decodeElem_ref", "decodeElems_ref", "parseOperand_ref",
                             "parseLiteral_ref", "parseMany_ref", "parseNested_ref", "parseSpecConstantOp_ref", "parseOne_ref",
                             "loop_ref", "parseInst_ref", "loop_keeps", "parseInst_overrun", "loop_nc", "parseInst_complete",
                             "parseInst_end")] + \
           ["Rspirv.Props.ParserErr." + n for n in ("string_err", "decodeElem_bounded", "parseOperand_bounded", "parseOne_bounded",
                                                    "loop_bounded", "parseInst_errAt")] + \
           ["Rspirv.Props.C03." + n for n in ("inst_shrinks", "C03_loop", "header_sview", "C03_accept", "C03_reject",
                                              "C03_header_short", "C03_header_magic", "C03")] + \
           ["Rspirv.Props.C03Kind." + n for n in ("parseInst_wc0", "parseInst_unknown", "parseInst_surplus", "C03_kind_wc0",
                                                  "C03_kind_unknown")] + \
           ["Rspirv.Props.C03KindOp." + n for n in ("parseOne_op", "loop_op", "parseInst_opLevel", "C03_kind_operand",
                                                    "C03_kind_cases")] + \
           ["Rspirv.Props.C02TypedConv.spec_typed", "Rspirv.Props.C02TypedInst.delivered_typed"]
NEEDS = ("header", "core", "decode", "operand_enum", "asm_arms", "parse_operand", "operands")
BOUNDARY = [0, 1, 2, 0xffff, 0x10000, 0x10001, 0x7fffffff, 0x80000000, 0xffffffff, 0x00030000, 0x0001ffff]


def gen(ctx, T):
    rnd = random.Random(ctx.seed)
    g = instgen.Gen(T, rnd)
    mg = instgen.ModuleGen(g, common.specclass())
    cases = []      # (request, meta) meta: dict(kind=valid|trunc|subst|wc, insts=[texts], k=index of first touched inst)
    nmod = 40 if ctx.tier == "quick" else 250
    for mi in range(nmod):
        insts = mg.module(size=rnd.choice([0.5, 1, 2]))
        texts = [i.text() for _, i in insts]
        words = instgen.module_words(insts, version=rnd.choice([0x00010000, 0x00010600, 0x12010345]))
        data = instgen.to_bytes(words)
        starts = []
        p = 5
        for _, i in insts:
            starts.append(p)
            p += len(i.words())
        cases.append(("parse " + data.hex(), dict(kind="valid", insts=texts, words=words)))

        def inst_of(wpos):
            k = 0
            for j, s in enumerate(starts):
                if s <= wpos:
                    k = j
            return k
        # truncation at byte positions (all of them in thorough; a sample in quick)
        # (modules with long strings: every byte of the first 400, a sample of the rest — the model's parser is quadratic in the input size)
        if ctx.tier != "quick" and len(data) <= 1200:
            cuts = list(range(0, len(data)))
        elif ctx.tier != "quick":
            cuts = list(range(0, 400)) + sorted(rnd.sample(range(400, len(data)), 300))
        elif len(data) < 120:
            cuts = list(range(0, len(data)))
        else:
            cuts = sorted(rnd.sample(range(len(data)), 60))
        for c in cuts:
            cases.append(("parse " + (data[:c].hex() or "-"), dict(kind="trunc", insts=texts, k=inst_of(c // 4) if c >= 20 else -1, cut=c, starts=starts)))
        # word substitution
        for _ in range(60 if ctx.tier == "quick" else 400):
            if len(words) <= 5:
                break
            wp = rnd.randrange(0, len(words))
            w2 = list(words)
            choice = rnd.random()
            if choice < 0.5:
                w2[wp] = rnd.choice(BOUNDARY)
            elif choice < 0.8:
                w2[wp] = (w2[wp] + rnd.choice([1, -1, 0x10000, -0x10000, 256])) & 0xffffffff
            else:
                w2[wp] = rnd.randrange(1 << 32)
            cases.append(("parse " + instgen.to_bytes(w2).hex(), dict(kind="subst", insts=texts, k=inst_of(wp) if wp >= 5 else -1, wp=wp, starts=starts)))
        # word-count corruption of every instruction (sampled)
        for j in (range(len(starts)) if ctx.tier != "quick" else rnd.sample(range(len(starts)), min(len(starts), 12))):
            s = starts[j]
            for newwc in (0, 1, (words[s] >> 16) + 1, max(0, (words[s] >> 16) - 1), 0xffff):
                w2 = list(words)
                w2[s] = (newwc << 16) | (w2[s] & 0xffff)
                cases.append(("parse " + instgen.to_bytes(w2).hex(), dict(kind="wc", insts=texts, k=j, starts=starts)))
    # context that CHANGES inside one stream: an id declared again with another width, or declared after its first use — the width of
    # each literal follows the declarations that precede *that* instruction (conforming streams: must be accepted as encoded)
    I, Op = instgen.Inst, instgen.Op
    L32, idr = g.vix["LiteralBit32"], g.vix["IdRef"]

    def tint(rid, w):
        return I(g.opv["TypeInt"], "TypeInt", None, rid, [Op("w", L32, w), Op("w", L32, 0)])

    def tfloat(rid, w):
        return I(g.opv["TypeFloat"], "TypeFloat", None, rid, [Op("w", L32, w)])

    def const(t, rid, two, kind="Constant"):
        return I(g.opv[kind], kind, t, rid, g.literal(two))

    def switch(sel, two, n=2):
        ops = [Op("w", idr, sel), Op("w", idr, 9)]
        for _ in range(n):
            ops += g.literal(two) + [Op("w", idr, 9)]
        return I(g.opv["Switch"], "Switch", None, None, ops)

    def undef(t, rid):
        return I(g.opv["Undef"], "Undef", t, rid, [])
    streams = []
    for a, b in ((32, 64), (64, 32), (16, 64), (64, 8)):
        for mk in (tint, tfloat):
            if mk is tfloat and 8 in (a, b):
                continue
            streams.append([mk(1, a), const(1, 2, a == 64), mk(1, b), const(1, 3, b == 64), const(1, 4, b == 64, "SpecConstant")])
            streams.append([mk(1, a), const(1, 2, a == 64), const(1, 2, a == 64), mk(1, b), const(1, 3, b == 64), mk(1, a), const(1, 4, a == 64)])
            streams.append([const(5, 2, False), mk(5, 64), const(5, 3, True)])
            streams.append([mk(1, a), undef(1, 3), switch(3, a == 64), mk(7, b), undef(7, 3), switch(3, b == 64), switch(3, b == 64, 0)])
            streams.append([switch(3, False), mk(1, 64), undef(1, 3), switch(3, True), mk(1, 32), switch(3, True), undef(1, 3), switch(3, False)])
    # every core opcode once, in its plainest conforming shape (the module generator samples the table; the first, the last and every
    # vendor opcode must be accepted like the common ones)
    for e_ in g.core:
        if any(k in ("LiteralContextDependentNumber", "LiteralSpecConstantOpInteger") for k, _ in e_["ops"]):
            continue
        g.next_id = 10
        try:
            streams.append([g.inst(e_)])
        except Exception:
            pass
    for st in streams:
        words = instgen.header()
        for i in st:
            words += i.words()
        cases.append(("parse " + instgen.to_bytes(words).hex(), dict(kind="valid", insts=[i.text() for i in st], words=words)))
    return cases


def oracle_for(meta):
    def oracle(req, resp):
        if resp.startswith("panic"):
            return "panicked: " + resp[6:80]
        parts = resp.split(" | ")
        if len(parts) < 4:
            return "malformed response"
        st, trace, hdr, insts = parts[0], parts[1][6:], parts[2], (parts[3].split(" ") if parts[3] else [])
        if trace.count("i") != len(insts):
            return "trace and delivered instructions disagree"
        if meta["kind"] == "valid":
            if st != "ok":
                return "a grammar-conforming module was rejected: " + st
            if insts != meta["insts"]:
                j = next((j for j, (a, b) in enumerate(zip(insts, meta["insts"])) if a != b), min(len(insts), len(meta["insts"])))
                return f"delivered instruction #{j + 1} differs from the one in the binary"
            if trace != "IH" + "i" * len(insts) + "F":
                return "callback order"
            return None
        k = meta["k"]
        orig = meta["insts"]
        if k < 0:   # header touched
            return None
        # every instruction before the first touched one is delivered unchanged, in order, exactly once
        if insts[:k] != orig[:k] and not (len(insts) < k and st != "ok" and insts == orig[:len(insts)]):
            return f"instructions preceding the corrupted one (#{k + 1}) were not delivered unchanged"
        if len(insts) < k:
            return f"stopped with {st} before the first corrupted instruction (#{k + 1})"
        if st == "ok":
            return None
        f = st.split(":")
        if f[0] in ("WordCountZero", "OpcodeUnknown", "OperandExpected", "OperandExceeded", "TypeUnsupported", "SpecConstantOpIntegerIncorrect"):
            off, idx = int(f[1]), int(f[2])
            if idx != len(insts) + 1:
                return f"error carries instruction number {idx}, but {len(insts)} instructions were delivered"
            if idx < k + 1:
                return f"error at instruction {idx} precedes the first corrupted instruction {k + 1}"
        return None
    return oracle


def run(ctx):
    with C.Lock():
        T, fails = C.translate_all(ctx)
        hok, herr = C.build_harness(ctx, bins=("impl",))
        have = C.need(ctx, *NEEDS)
        failing = C.prove(ctx, MODULE, THEOREMS, extra_targets=["driver"], files=["Rspirv/Props/C03.lean", "Rspirv/Props/C03Kind.lean", "Rspirv/Props/C03KindOp.lean", "Rspirv/Props/C02TypedConv.lean", "Rspirv/Props/C02TypedInst.lean", "Rspirv/Model/Typed.lean", "Rspirv/Props/ParserSpec.lean", "Rspirv/Props/ParserErr.lean", "Rspirv/Model/Spec.lean", "Rspirv/Model/Parser.lean", "Rspirv/Model/Decoder.lean"]) if have else []
    for n, e in failing:
        ctx.issue(f"theorem:{n}", f"Lean obligation no longer checks: {e['msg'][:300]}", witness=e)
    if not hok:
        ctx.issue("harness-build", "the harness no longer builds against the working tree: " + herr[-400:])
        return C.finish(ctx)
    broken = not have or any(n == "<build>" for n, _ in failing)
    if broken:
        T = T if have else C.load_pinned_T()
    corpus = []
    cdir = os.path.join(C.VERIF, "corpus", "C03")
    for f in sorted(os.listdir(cdir)):
        corpus += [l.strip() for l in open(os.path.join(cdir, f)) if l.strip()]
    cases = gen(ctx, T)
    # the other two entry points (`parse_bytes`; `parse_words` for whole-word inputs) on every third case: same expectations
    twins = []
    for k, (r, m) in enumerate(cases):
        if k % 3 == 0 and r.startswith("parse ") and " " not in r[6:]:
            hx = r[6:]
            twins.append(("parseb " + hx, m))
            if len(hx) % 8 == 0:
                twins.append(("parsew " + hx, m))
    cases = cases + twins
    metas = {r: m for r, m in cases}

    def oracle(req, resp):
        m = metas.get(req)
        if m is None:
            return "panicked: " + resp[6:80] if resp.startswith("panic") else None
        return oracle_for(m)(req, resp)

    reqs = corpus + [r for r, _ in cases]
    if broken:
        found = C.oracle_search(ctx, reqs, oracle, "parse")
        ctx.log(f"tie broken; oracle search on the implementation found a failing input: {found}")
        return C.finish(ctx)
    impl, model = C.differential(ctx, reqs, "parse", oracle=oracle, shrink=False)
    # recorded finding: the Khronos grammar gives Decoration::BankBitsINTEL a variadic literal parameter, the parser reads one
    hdrT = T["header"]
    g0 = instgen.Gen(T, random.Random(0))
    dec = dict(hdrT["enum_by_name"]["Decoration"]["decl"]).get("BankBitsINTEL")
    if dec is not None:
        w = instgen.header(bound=9) + [(5 << 16) | g0.opv["Decorate"], 1, dec, 1, 2]
        r = "parse " + instgen.to_bytes(w).hex()
        a = C.run_impl(ctx, [r])[0]
        ctx.evaluations += 1
        if not a.startswith("ok"):
            ctx.issue("C03:enumerant-parameter-quantifier:BankBitsINTEL",
                      "OpDecorate %1 BankBitsINTEL 1 2 (two bank bits) is rejected: " + a.split(" | ")[0],
                      witness={"request": r, "implementation": a}, found_input=True, kind="oracle")
    kinds = {}
    for a in impl:
        k = a.split(" | ")[0].split(":")[0]
        if k == "OperandError":
            k = "OperandError:" + a.split(" | ")[0].split(":")[2]
        kinds[k] = kinds.get(k, 0) + 1
        ctx.distinct.add(a)
    ctx.coverage["result_kinds"] = kinds
    ctx.coverage["case_kinds"] = {k: sum(1 for _, m in cases if m["kind"] == k) for k in ("valid", "trunc", "subst", "wc")}
    ctx.samples = [{"request": reqs[i][:160], "implementation": impl[i][:160]} for i in (0, len(reqs) // 2, len(reqs) - 1)]
    ctx.assumptions += ["oracle for malformed inputs is a necessary condition only (prefix delivered unchanged, error index consistent); exact acceptance is decided by the differential against the Lean parser model"]
    return C.finish(ctx, level="proof", checker_cmd="lake build Rspirv.Props.C03All + #print axioms",
                    rule="corpus (pre-fix OpSpecConstantOp defects first); seeded layout-ordered modules over all opcode classes, each also truncated at byte positions, with words replaced by boundary values and with every word count set to 0/1/+-1/0xffff; streams whose literal-width context changes (type id declared again with another width, declared after first use, selector redefined); distinct non-trivial = distinct responses",
                    trusted=["hand model Parser.lean + differential harness", "translators"])


def replay(ctx, path):
    r = json.load(open(path))
    req = (r.get("witness") or {}).get("request")
    if not req:
        return run(ctx)
    with C.Lock():
        C.translate_all(ctx)
        C.build_harness(ctx, bins=("impl",))
    hist = (r.get("witness") or {}).get("history") or []     # requests answered before it by the same process
    a, b = C.run_impl(ctx, hist + [req])[-1], C.run_driver(ctx, hist + [req])[-1]
    print("request:       ", req[:400])
    print("implementation:", a[:400])
    print("model:         ", b[:400])
    return 1 if C.canon(a) != C.canon(b) or a.startswith("panic") else 0
