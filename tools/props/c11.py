"""C11 — decoder consumes exactly what it returns and honours limits."""
import json
import os
import random
import checklib as C

MODULE = "Rspirv.Props.C11"
THEOREMS = ["Rspirv.Props.C11.word_spec", "Rspirv.Props.C11.word_fail_offset", "Rspirv.Props.C11.word_never_panics",
            "Rspirv.Props.C11.word_frame", "Rspirv.Props.C11.words_spec", "Rspirv.Props.C11.bit64_spec",
            "Rspirv.Props.C11.enum_spec", "Rspirv.Props.C11.mask_spec", "Rspirv.Props.C11.string_spec",
            "Rspirv.Props.C11.string_frame", "Rspirv.Props.C11.limit_reached", "Rspirv.Props.C11.step_frame",
            "Rspirv.Props.C11.C11_run", "Rspirv.Props.C11.C11_limit", "Rspirv.Props.C11.C11_clear"]
USIZE_MAX = (1 << 64) - 1


def hexs(b):
    return bytes(b).hex() if b else "-"


def _pinned():
    """method -> (is_mask, declared values | union of declared bits) from the pinned snapshots (not from the working tree)"""
    global _PIN
    if _PIN is None:
        sp = json.load(open(os.path.join(C.VERIF, "reference", "pinned-spirv.json")))
        dec = json.load(open(os.path.join(C.VERIF, "reference", "pinned-T.json")))["decode"]
        en = {e["name"]: {v for _, v in e["decl"]} for e in sp["enums"]}
        mk = {}
        for m in sp["masks"]:
            u = 0
            for _, v in m["consts"]:
                u |= v
            mk[m["name"]] = u
        _PIN = {}
        for m in dec:
            if m["mask"] and m["type"] in mk:
                _PIN[m["method"]] = (True, mk[m["type"]])
            elif not m["mask"] and m["type"] in en:
                _PIN[m["method"]] = (False, en[m["type"]])
    return _PIN


_PIN = None


def oracle(req, resp):
    """C11 read off the implementation's answers alone (scripts carry an `off` after every request)."""
    if resp.startswith("panic"):
        return "panicked: " + resp[6:80]
    if not resp.startswith("ok"):
        return "call failed: " + resp
    toks = req.split(" ")
    data = bytes.fromhex(toks[1]) if toks[1] != "-" else b""
    ops = toks[2:]
    outs = resp.split(" ")[1:]
    if len(outs) != len(ops) + 1:
        return "response length"
    off = 0
    lim_end = None
    prev = None
    for op, out in zip(ops, outs):
        if op == "off":
            o = int(out[4:])
            if o < off or o > len(data) or o % 4:
                return f"offset {o} after {prev}: not monotone / outside the buffer / not word aligned"
            if lim_end is not None and o > lim_end:
                return f"offset {o} passed the limit end {lim_end}"
            if prev is not None:
                pop, pout, poff = prev
                if pop in ("w", "id", "b32", "x"):
                    if pout.startswith("ok:"):
                        if o != poff + 4 or int(pout[3:]) != int.from_bytes(data[poff:poff + 4], "little"):
                            return f"word at {poff}: returned {pout}, offset {o}"
                    elif o != poff or not pout.endswith(f":{poff}"):
                        return f"failed word at {poff} moved the offset to {o} or reports another offset ({pout})"
                if pop == "s" and pout.startswith("ok:s"):
                    s = bytes.fromhex(pout[4:]) if pout[4:] != "-" else b""
                    nul = data.find(b"\0", poff)
                    if nul < 0 or data[poff:nul] != s or o != poff + 4 * ((nul - poff) // 4 + 1):
                        return f"string at {poff}: returned {pout}, offset {o}"
                    try:
                        s.decode("utf-8")
                    except UnicodeDecodeError:
                        return "string is not valid UTF-8"
                if pop.startswith("e:") and pop[2:] in _pinned():
                    # a typed request returns the enumeration value found at the current offset (and only a declared one)
                    word = int.from_bytes(data[poff:poff + 4], "little")
                    is_mask, decl = _pinned()[pop[2:]]
                    if pout.startswith("ok:"):
                        if int(pout[3:]) != word or o != poff + 4:
                            return f"typed request {pop[2:]} at {poff}: word {word}, returned {pout}, offset {o}"
                        if (word & ~decl) if is_mask else (word not in decl):
                            return f"typed request {pop[2:]} accepted the undeclared value {word}"
                    elif "Unknown" in pout and len(data) >= poff + 4 and (not (word & ~decl) if is_mask else (word in decl)):
                        return f"typed request {pop[2:]} rejected the declared value {word} ({pout})"
                if pop == "b64" and pout.startswith("ok:"):
                    if int(pout[3:]) != int.from_bytes(data[poff:poff + 8], "little") or o != poff + 8:
                        return f"bit64 at {poff}"
                if pop == "reached" and lim_end is not None:
                    pass
            off = o
            prev = None
            continue
        if op.startswith("lim:"):
            lim_end = off + 4 * int(op[4:])
        elif op == "clr":
            lim_end = None
        prev = (op, out, off)
    return None


def gen(ctx, methods):
    rnd = random.Random(ctx.seed)
    reqs = []
    N = 1500 if ctx.tier == "quick" else 30000
    typed = [m["method"] for m in methods]
    for i in range(N):
        n = rnd.choice([0, 1, 2, 3, 4, 5, 7, 8, 9, 11, 12, 13, 16, 17, 20, 24, 31, 32, 40])
        style = rnd.randrange(4)
        if style == 0:
            b = [rnd.randrange(256) for _ in range(n)]
        elif style == 1:      # text with NULs placed around word boundaries
            b = [rnd.choice(b"abcxyz\xc3\xa9") for _ in range(n)]
            for _ in range(rnd.randrange(0, 4)):
                if n:
                    p = rnd.choice([0, 3, 4, 5, 7, 8, 11, 12, n - 1, n - 2, rnd.randrange(n)])
                    if 0 <= p < n:
                        b[p] = 0
        elif style == 2:      # small numbers (enumerant-like words)
            b = []
            for _ in range(n // 4):
                b += list(int(rnd.choice([0, 1, 2, 3, 5, 14, 15, 64, 4444, 5000, 65536, 0x7fffffff, 0xffffffff, rnd.randrange(1 << 16)])).to_bytes(4, "little"))
            b += [rnd.randrange(256) for _ in range(n % 4)]
        else:                 # invalid UTF-8 material
            b = [rnd.choice([0x61, 0x80, 0xc0, 0xc3, 0xe0, 0xed, 0xa0, 0xf0, 0xf4, 0x90, 0xff, 0]) for _ in range(n)]
        ops = []
        for _ in range(rnd.randrange(1, 9)):
            r = rnd.random()
            if r < 0.22:
                op = "w"
            elif r < 0.42:
                op = "s"
            elif r < 0.58:
                rem = max(0, n // 4)
                op = "lim:" + str(rnd.choice([0, 1, 2, 3, rem, rem + 1, max(0, rem - 1), 1 << 30, 1 << 62, (1 << 62) + 1, USIZE_MAX, USIZE_MAX - 1]))
            elif r < 0.64:
                op = "clr"
            elif r < 0.70:
                op = "b64"
            elif r < 0.76:
                op = "ws:" + str(rnd.choice([0, 1, 2, 5, 5, 1 << 61, 1 << 62, 1 << 63, USIZE_MAX, USIZE_MAX // 2]))
            elif r < 0.90:
                op = "e:" + (typed[i % len(typed)] if rnd.random() < 0.5 else rnd.choice(typed))
            elif r < 0.94:
                op = rnd.choice(["id", "b32", "x"])
            else:
                op = rnd.choice(["has", "reached"])
            ops += [op, "off"]
        reqs.append(f"dec {hexs(b)} " + " ".join(ops))
    # systematic: every request kind (and every ordered pair) right after every small limit, on buffers with room to spare -
    # the places where "at most n further words" is decided
    kinds = ["w", "b64", "s", "ws:1", "ws:2", "ws:3", "id", "e:" + typed[0], "e:" + typed[len(typed) // 2]]
    bufs = [[rnd.randrange(1, 256) for _ in range(20)], list(b"ab\0cdefg\0\0\0hijklmnop\0"), [0] * 16, [rnd.randrange(256) for _ in range(9)]]
    for b in bufs:
        for lim in (0, 1, 2, 3):
            for k1 in kinds:
                reqs.append(f"dec {hexs(b)} lim:{lim} {k1} off reached off")
                for k2 in kinds:
                    reqs.append(f"dec {hexs(b)} w off lim:{lim} {k1} off {k2} off reached off")
    # long strings and large buffers: lengths around 2^6 .. 2^12, 2^16 and 2^17 bytes (block sizes, narrow counters): the string rules do
    # not depend on how long the string is or how far into the buffer it starts
    far = []
    lens = [62, 63, 64, 65, 66, 127, 128, 129, 255, 256, 257, 1023, 1024, 1025, 4095, 4096, 4097, 65527, 65528, 65531, 65532, 65533, 65535, 65536, 65537, 131072, 262131]
    for L in lens:
        body = [97 + ((i * 7 + i // 26) % 26) for i in range(L)]
        need = L // 4 + 1
        for lead in (0, 4, 65536):
            if lead == 65536 and L not in (64, 65532, 65536):
                continue
            b = [1] * lead + body + [0] + [7] * (3 - L % 4) + [9, 9, 9, 9]
            pre = " ".join(["ws:%d off" % (lead // 4)] if lead else [])
            pre = (pre + " ") if pre else ""
            # (requests that first read 16384 words are judged on the implementation alone: the model walks a list per word)
            dst = far if lead == 65536 else reqs
            dst.append(f"dec {hexs(b)} {pre}s off w off")
            for lim in (need - 1, need, need + 1, USIZE_MAX):
                dst.append(f"dec {hexs(b)} {pre}lim:{lim} s off reached off w off")
        # unterminated: the whole rest is scanned and the request fails without moving
        reqs.append(f"dec {hexs(body)} s off w off")
    # systematic: every typed request on every declared enumerant / every declared bit and their neighbours (the values where
    # "returns the enumeration value found at the current offset" is decided per row of the generated conversion)
    for m, (is_mask, decl) in _pinned().items():
        if is_mask:
            vals = {0, decl, 0xffffffff, 1 << 31} | {1 << k for k in range(32)} | {decl & ~(1 << k) for k in range(32) if decl >> k & 1}
        else:
            vals = set()
            for v in decl:
                vals |= {v, v + 1, max(0, v - 1)}
        for v in sorted(vals):
            reqs.append(f"dec {hexs(list(int(v).to_bytes(4, 'little')))} e:{m} off")
    ctx.data["c11_far"] = far
    return reqs


def run(ctx):
    with C.Lock():
        T, fails = C.translate_all(ctx)
        hok, herr = C.build_harness(ctx, bins=("impl",))
        have = C.need(ctx, "header", "decode")
        failing = C.prove(ctx, MODULE, THEOREMS, extra_targets=["driver"],
                          files=["Rspirv/Props/C11.lean", "Rspirv/Model/Decoder.lean"]) if have else []
    for n, e in failing:
        ctx.issue(f"theorem:{n}", f"Lean obligation no longer checks: {e['msg'][:300]}", witness=e)
    if not hok:
        ctx.issue("harness-build", "the harness no longer builds against the working tree: " + herr[-400:])
        return C.finish(ctx)
    if not have or any(n == "<build>" for n, _ in failing):
        return C.finish(ctx)
    corpus = []
    cdir = os.path.join(C.VERIF, "corpus", "C11")
    for f in sorted(os.listdir(cdir)):
        corpus += [l.strip() for l in open(os.path.join(cdir, f)) if l.strip()]
    # corpus scripts get an `off` after every request so the oracle can read them
    def with_offs(r):
        t = r.split(" ")
        out = t[:2]
        for op in t[2:]:
            out.append(op)
            if op != "off":
                out.append("off")
        return " ".join(out)
    reqs = [with_offs(r) for r in corpus] + gen(ctx, T["decode"])
    far = ctx.data.get("c11_far") or []
    found_far = C.oracle_search(ctx, far, oracle, "dec-far")
    ctx.oblige(f"oracle:strings that start 65536 bytes into the buffer ({len(far)} scripts, implementation only)", not found_far)
    impl, model = C.differential(ctx, reqs, "dec", oracle=oracle, keep=2)
    kinds = {}
    for r, a in zip(reqs, impl):
        for t in a.split(" ")[1:]:
            k = t.split(":")[1] if t.startswith("err:") else t.split(":")[0]
            kinds[k] = kinds.get(k, 0) + 1
        ctx.distinct.add(a)
    ctx.coverage["response_token_kinds"] = dict(sorted(kinds.items(), key=lambda kv: -kv[1])[:25])
    ctx.coverage["typed_methods_exercised"] = len({t[2:] for r in reqs for t in r.split(" ") if t.startswith("e:")})
    ctx.samples = [{"request": reqs[i], "implementation": impl[i]} for i in (0, 1, len(reqs) // 2, len(reqs) - 1)]
    ctx.assumptions += ["slices are at most isize::MAX bytes (hypothesis `Small`)",
                        "u32::from_le_bytes, str::from_utf8 (hand model validUtf8, fuzzed through the `s` request with invalid UTF-8 material)",
                        "hand model Rspirv/Model/Decoder.lean (statement by statement, explicit panic sites) tied by the `dec` channel",
                        "translator decode_operand.py for the 56 generated typed requests"]
    return C.finish(ctx, level="proof", checker_cmd="lake build Rspirv.Props.C11 + #print axioms",
                    rule="corpus (the three pre-fix panics first), then seeded buffers of every length mod 4 (random, text with NULs at word/limit boundaries, enumerant-like words, invalid UTF-8) x scripts of 1-8 requests with limits 0,1,remaining+-1,2^62,usize::MAX; strings of 62..262 131 bytes with limits need-1/need/need+1/usize::MAX (at offset 65 536: implementation only); every typed request on every declared enumerant, every declared bit and their neighbours; distinct non-trivial = distinct response lines",
                    trusted=["hand model Decoder.lean + differential harness (chan/dec.rs)", "translator decode_operand.py"])


def replay(ctx, path):
    r = json.load(open(path))
    req = (r.get("witness") or {}).get("request")
    if not req:
        return run(ctx)
    with C.Lock():
        C.translate_all(ctx)
        C.build_harness(ctx, bins=("impl",))
    hist = (r.get("witness") or {}).get("history") or []     # requests answered before it by the same process
    a, b = C.run_impl(ctx, hist + [req])[-1], C.run_driver(ctx, hist + [req])[-1]
    print("request:       ", req)
    print("implementation:", a)
    print("model:         ", b)
    print("oracle:        ", oracle(req, a))
    return 1 if (C.canon(a) != C.canon(b) or oracle(req, a)) else 0
