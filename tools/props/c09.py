"""C09 — grammar tables are total, unique and match the pinned grammar."""
import json
import os
import checklib as C
from props import common

MODULE = "Rspirv.Props.C09"
THEOREMS = ["Rspirv.Props.C09.tables_ok", "Rspirv.Props.C09.C09_core", "Rspirv.Props.C09.C09_get",
            "Rspirv.Props.C09.C09_glsl", "Rspirv.Props.C09.C09_opencl", "Rspirv.Props.C09.C09_wf",
            "Rspirv.Props.C09.C09_pinned"]


def entry_wf(ops):
    kinds = [k for k, _ in ops]
    rest = kinds
    if rest[:1] == ["IdResultType"]:
        if ops[0][1] != "One":
            return "result type not required"
        rest = rest[1:]
        if rest[:1] == ["IdResult"]:
            rest = rest[1:]
    elif rest[:1] == ["IdResult"]:
        rest = rest[1:]
    if "IdResultType" in rest or "IdResult" in rest:
        return "result type / result id not leading"
    seen_opt = False
    for i, (k, q) in enumerate(ops):
        if q == "One" and seen_opt:
            return f"required operand {i} after an optional one"
        if q != "One":
            seen_opt = True
        if q == "ZeroOrMore" and i != len(ops) - 1:
            return f"variadic operand {i} is not last"
    return None


def rows_equal(a, b):
    return (a["name"], a["caps"], a["exts"], [tuple(o) for o in a["ops"]]) == (b["name"], b["caps"], b["exts"], [tuple(o) for o in b["ops"]])


def run(ctx):
    probes = []
    T, ext = common.stage_translate_and_extract(ctx)
    have = C.need(ctx, "header", "core", "glsl", "opencl")
    failing = []
    if have:
        with C.Lock():
            failing = C.prove(ctx, MODULE, THEOREMS, extra_targets=["driver"],
                              files=["Rspirv/Props/C09.lean", "Rspirv/Generic/Table.lean", "Rspirv/Generic/Sort.lean"])
    pinned = json.load(open(os.path.join(C.VERIF, "reference", "pinned-grammar.json")))
    if have:
        kinds, core = T["core"]
        opv = C.op_values(T["header"])
        tables = {"core": core, "glsl": T["glsl"], "opencl": T["opencl"]}
        diag = []
        # python re-evaluation of the table checks -> witnesses
        for tn, rows in tables.items():
            nums = {}
            for r in rows:
                n = opv[r["name"]] if tn == "core" else r["opcode"]
                if n in nums:
                    diag.append((f"C09:{tn}:duplicate-opcode:{n}", f"two entries share opcode {n}: {nums[n]} and {r['name']}", {"table": tn, "number": n}))
                nums[n] = r["name"]
                w = entry_wf(r["ops"])
                if w:
                    diag.append((f"C09:{tn}:{r['name']}:ill-formed", w, {"table": tn, "entry": r}))
            en = {"core": "Op", "glsl": "GLOp", "opencl": "CLOp"}[tn]
            decl = T["header"]["enum_by_name"][en]["decl"]
            for nm, v in decl:
                if nums.get(v) != nm:
                    diag.append((f"C09:{tn}:{nm}:no-entry", f"{en}::{nm} = {v} has no table entry of that name/number", {"table": tn, "number": v}))
            for v, nm in nums.items():
                if (nm, v) not in decl:
                    diag.append((f"C09:{tn}:{nm}:undeclared", f"table entry {nm} = {v} is not a declared {en}", {"table": tn, "number": v}))
            prow = {r["name"]: r for r in pinned[tn]}
            for r in rows:
                p = prow.get(r["name"])
                if p is None or not rows_equal(r, p) or (tn != "core" and p["opcode"] != r["opcode"]):
                    diag.append((f"C09:{tn}:{r['name']}:differs-from-pinned", "operand kinds / quantifiers / capabilities / extensions differ from the pinned release snapshot",
                                 {"table": tn, "current": r, "pinned": p}))
            for nm in set(prow) - {r["name"] for r in rows}:
                diag.append((f"C09:{tn}:{nm}:missing-vs-pinned", "entry of the pinned release is gone", {"table": tn, "pinned": prow[nm]}))
        if kinds != pinned["kinds"]:
            diag.append(("C09:kinds:differs-from-pinned", "OperandKind list differs", {"current": kinds, "pinned": pinned["kinds"]}))
        if failing:
            for n, e in failing:
                ctx.log(f"obligation failed: {n}: {e['msg'][:160]}")
            if not diag:
                for n, e in failing:
                    ctx.issue(f"theorem:{n}", f"Lean obligation no longer checks: {e['msg'][:300]}", witness=e)
        for key, what, w in diag[:25]:
            ctx.issue(key, what, witness=w, found_input=True)
        # translator self-validation: the extractor reads the same tables through iter()
        if ext is not None:
            agree = True
            for tn, rows in tables.items():
                er = ext[tn]
                mine = [(r["name"], opv[r["name"]] if tn == "core" else r["opcode"], r["caps"], r["exts"], [tuple(o) for o in r["ops"]]) for r in rows]
                theirs = [(r["name"], r["opcode"], r["caps"], r["exts"], [tuple(o) for o in r["ops"]]) for r in er]
                if mine != theirs:
                    agree = False
                    i = next((i for i, (a, b) in enumerate(zip(mine, theirs)) if a != b), min(len(mine), len(theirs)))
                    ctx.issue(f"translate:{tn}-table-vs-iter", "translator and the table's public iter() disagree",
                              witness={"row": i, "translator": mine[i] if i < len(mine) else None, "iter": theirs[i] if i < len(theirs) else None})
            ctx.oblige("translator==iter() on the three tables", agree)
    # correspondence on lookup_opcode / get over the whole domain
    if ext is not None and have and not any(n == "<build>" for n, _ in failing):
        reqs = [f"lookup core {n}" for n in range(65536)] + [f"lookup glsl {n}" for n in range(4096)] + [f"lookup opencl {n}" for n in range(4096)]
        model = C.run_driver(ctx, reqs)
        ctx.evaluations += len(reqs)
        bad = []
        for n in range(65536):
            impl = ext["lookup"].get(n)
            m = model[n].split(" ")
            ms = (m[4], int(m[5])) if m[3] == "some" else None
            if impl != ms:
                bad.append(("core", n, impl, ms))
            if impl:
                ctx.distinct.add(("core", n))
        for j, tn in enumerate(("glsl", "opencl")):
            for n in range(4096):
                impl = ext["lookup_" + tn].get(n)
                m = model[65536 + j * 4096 + n].split(" ")
                ms = (m[4], int(m[5])) if m[3] == "some" else None
                if impl != ms:
                    bad.append((tn, n, impl, ms))
                if impl:
                    ctx.distinct.add((tn, n))
        for far in ext["lookup_far"]:
            if far[1] != "false" or far[2] != "false":
                bad.append(("ext-far", far[0], far, None))
        getbad = [(o, r) for o, r in ext["get"].items() if r[0] == "PANIC" or int(r[1]) != o]
        # the extended tables' get(): on every value of GLOp / CLOp the entry with that number and (by the enumeration's Debug name) that name
        for tn, key, lk in (("glsl", "get_glsl", "lookup_glsl"), ("opencl", "get_opencl", "lookup_opencl")):
            declared = {e["opcode"]: e["name"] for e in ext[tn]}
            for n, r in sorted(ext[key].items()):
                if r[0] == "PANIC" or int(r[1]) != n or declared.get(n) != r[0]:
                    getbad.append((f"{tn}:{n}", r))
            if set(ext[key]) != set(declared):
                getbad.append((f"{tn}:domain", (sorted(set(declared) ^ set(ext[key]))[:5], "-")))
        # lookups must not depend on earlier lookups (the exhaustive sweep above is only meaningful for a function of the argument alone)
        for imp in ext["impure"][:10]:
            ctx.issue(f"C09:lookup-history:{imp[0]}:{imp[1]}:{imp[2]}", f"{imp[0]}({imp[2]}) asked {imp[1]} answers {imp[3]}, the first sweep answered {imp[4]}: "
                      "the lookup depends on earlier lookups, so a number can come back with an entry that is not its own",
                      witness={"function": imp[0], "number": int(imp[2]), "history": imp[1], "answer": imp[3], "first_answer": imp[4]}, found_input=True, kind="oracle")
        ctx.oblige("oracle:lookup_opcode answers do not depend on earlier lookups (each number twice in a row, descending, after a hit, after a miss)", not ext["impure"])
        for tn, n, impl, ms in bad[:10]:
            ctx.issue(f"correspondence:lookup:{tn}:{n}", "lookup_opcode disagrees with the model (first entry with that opcode)",
                      witness={"table": tn, "number": n, "implementation": impl, "model": ms}, found_input=True, kind="correspondence")
        for o, r in getbad[:10]:
            ctx.issue(f"C09:get:{o}", "InstructionTable::get fails or returns another opcode's entry",
                      witness={"opcode": o, "result": r}, found_input=True, kind="oracle")
        ctx.oblige("correspondence:lookup_opcode on 65536+2*4096 numbers", not bad)
        ctx.oblige("oracle:get(op) for every opcode of the core table and every value of GLOp / CLOp", not getbad)
        ctx.coverage["exhaustive"] = True
        ctx.samples = [model[3], model[9], model[65536 + 81], model[65536 + 4096 + 204]]
    elif ext is None:
        ctx.issue("harness-build", "the harness no longer builds against the working tree: " + ctx.data.get("harness_error", "")[-400:])
    ctx.assumptions += ["reference for the pinned release = committed snapshot reference/pinned-grammar.json (DESIGN §7)",
                        "inst!/ext_inst! macro expansion validated by comparing with iter() on every run",
                        "extended-instruction lookups probed on 0..4095 and on every number below 256 combined with every single higher bit and five high halves (6406 far values), not on all 2^32 numbers (the theorem covers all)"]
    return C.finish(ctx, level="proof", checker_cmd="lake build Rspirv.Props.C09 + #print axioms",
                    rule="lookup_opcode on every 16-bit number (core) and 0..4095 (GLSL, OpenCL), get() on every opcode; every number asked twice in a row, in descending order, after a hit and after a miss (answers must equal the first sweep); distinct non-trivial = numbers with an entry",
                    trusted=["translator grammar_tables.py", "extractor"])


def replay(ctx, path):
    r = json.load(open(path))
    print(json.dumps(r, indent=1)[:2000])
    return run(ctx)
