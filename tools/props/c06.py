"""C06 — every module built with the Builder survives assemble-then-load unchanged."""
import json
import random
import checklib as C
import buildgen
from props import common, c06diag

MODULE = "Rspirv.Props.C06"
THEOREMS = ["Rspirv.Props.C06.methods_ok", "Rspirv.Props.C06.wrappers_ok", "Rspirv.Props.C06.walk_sound",
            "Rspirv.Props.C06.C06_methods", "Rspirv.Props.C06.C06_terminators", "Rspirv.Props.C06.terminators_covered"]
NEEDS = ("header", "core", "decode", "operand_enum", "asm_arms", "parse_operand", "operands", "builder", "traversals")


def run(ctx):
    T, ext = common.stage_translate_and_extract(ctx)
    with C.Lock():
        hok, herr = C.build_harness(ctx, bins=("impl",))
        have = C.need(ctx, *NEEDS)
        failing = C.prove(ctx, MODULE, THEOREMS, extra_targets=["driver"],
                          files=["Rspirv/Props/C06.lean", "Rspirv/Generic/Method.lean"]) if have else []
    if not hok or ext is None:
        ctx.issue("harness-build", "the harness no longer builds against the working tree: " + (herr or ctx.data.get("harness_error", ""))[-400:])
        return C.finish(ctx)
    broken = (not have) or any(n == "<build>" for n, _ in failing)
    known = common.known("C06")
    # -- proof side: diagnosis of the method table
    if have:
        diag = c06diag.diagnose(T, ext)
        for name, why in diag:
            ctx.issue(f"C06:method:{name}", f"Builder::{name}: {why}", witness={"method": name, "reason": why,
                      "replay": f"buildrt {name}/... (call with distinct sentinel arguments)"}, found_input=True, kind="oracle")
        explained = bool(diag)
        for n, e in failing:
            ctx.log(f"obligation failed: {n}: {e['msg'][:120]}")
            if not explained or all(f"C06:method:{nm}" in known for nm, _ in diag):
                ctx.issue(f"theorem:{n}", f"Lean obligation no longer checks: {e['msg'][:300]}", witness=e)
    if broken:
        T = C.load_pinned_T()
    rnd = random.Random(ctx.seed)
    g = buildgen.BuildGen(T, rnd)
    from props import c12 as c12mod
    c12mod.Sim.block_methods = {m["name"] for m in g.methods if m["sink"][0] == "block"}
    skip = {k.split(":")[2] for k in known if k.startswith("C06:method:")}
    skip |= {"type_struct_continued_intel"}
    reqs = []
    # every generated method at least once, alone in a minimal complete history
    for m in g.methods:
        if m["name"] in skip:
            continue
        for rep in range(1 if ctx.tier == "quick" else 4):
            sink = m["sink"][0]
            has_ip = any(t == ("insert_point",) for _, t in m["params"])
            # terminators are inserted at the end (an insert_<terminator> elsewhere asks for a block whose terminator
            # is not last: outside ArgsConform); block instructions at the beginning
            c = g.call(m, ip="E" if (not has_ip or sink == "end_block") else "B")
            if m["opname"] in ("TypeInt", "TypeFloat"):
                parts = c.split("/"); parts[2 if m["name"].endswith("_id") else 1] = "32"; c = "/".join(parts)
            if sink in ("section", "dedup"):
                calls = [c]
            elif sink == "block":
                calls = ["begin_function/1/-/0/2", "begin_block/-", c, "ret", "end_function"]
            else:
                calls = ["begin_function/1/-/0/2", "begin_block/-", "nop", c, "end_function"]
            reqs.append("buildrt " + " ".join(calls))
    n_single = len(reqs)
    for _ in range(300 if ctx.tier == "quick" else 5000):
        reqs.append("buildrt " + " ".join(g.history(size=rnd.choice([0.5, 1, 2]), skip=skip)))

    def oracle(req, resp):
        if resp.startswith("panic"):
            return "panicked: " + resp[6:80]
        if resp.startswith("bad-request"):
            return None
        parts = resp.split(" | ")
        if len(parts) < 3:
            return "malformed response"
        outs = parts[0].split(" ")[1:]
        if any(o.startswith("err") for o in outs):
            return None      # not a complete/legal history (generator slip): not judged
        from props.c12 import Sim
        sim = Sim()
        for c in req.split(" ")[1:]:
            sim.expect(c)
        if sim.sf is not None or sim.sb is not None:
            return None      # incomplete history (e.g. produced by shrinking): outside the property
        if parts[1] != "same":
            return "built module differs from its assemble-then-load image: " + parts[1][:160]
        built = parts[2]
        # bound above every id used as a result id
        hdr = built.split("h:")[1].split(" ")[0].split(",")
        bound = int(hdr[3])
        for tok in built.replace("|", " ").split(" "):
            f = tok.split(":", 1)[-1].split(";")
            if len(f) == 4 and f[2].isdigit() and int(f[2]) >= bound:
                return f"header bound {bound} does not exceed the result id {f[2]}"
        sv = [c for c in req.split(" ") if c.startswith("set_version/")]
        if sv:
            maj, mi = sv[-1].split("/")[1:]
            if int(hdr[1]) != (int(maj) << 16 | int(mi) << 8):
                return "version set on the builder is not the header's version"
        return None

    if broken:
        if C.oracle_search(ctx, reqs, oracle, "buildrt"):
            ctx.issues = [i for i in ctx.issues if i.found_input]
        return C.finish(ctx)
    impl, model = C.differential(ctx, reqs, "buildrt", oracle=oracle)
    judged = sum(1 for a in impl if " | same | " in a)
    ctx.coverage["methods_called_alone"] = n_single
    ctx.coverage["histories_judged_same"] = judged
    ctx.coverage["histories_with_generator_slips"] = sum(1 for a in impl if any(o.startswith("err") for o in a.split(" | ")[0].split(" ")[1:]))
    meths = set()
    for r in reqs:
        for c in r.split(" ")[1:]:
            meths.add(c.split("/")[0])
        ctx.distinct.add(r[:400])
    ctx.coverage["distinct_methods_exercised"] = len(meths)
    ctx.samples = [{"request": reqs[i][:200], "implementation": impl[i][:160]} for i in (5, n_single + 3, len(reqs) - 1)]
    ctx.assumptions += ["ArgsConform: arguments conform to the grammar (optional operands as a trailing run, parameters only on the last parameterised operand of a call, literal widths consistent with tracked types, OpSwitch selectors untracked); histories complete; no begin_block_no_label (known finding)",
                        "end-to-end equality is decided by the differential on complete histories (C06_partial): the Lean theorems cover the per-method grammar/sink agreement, C05 the loader, C12/C13 the builder invariants"]
    return C.finish(ctx, level="proof", checker_cmd="lake build Rspirv.Props.C06 (merge-walk table check over all generated method specs) + #print axioms",
                    rule="every generated instruction-emitting method called once in a minimal complete history with grammar-conforming arguments, plus seeded complete histories over all methods; distinct non-trivial = distinct histories",
                    trusted=["translator builder.py", "hand models + differential harness (chan/build.rs buildrt)"])


def replay(ctx, path):
    r = json.load(open(path))
    req = (r.get("witness") or {}).get("request")
    if not req:
        return run(ctx)
    with C.Lock():
        C.translate_all(ctx)
        C.build_harness(ctx, bins=("impl",))
    a, b = C.run_impl(ctx, [req])[0], C.run_driver(ctx, [req])[0]
    print("request:", req[:300]); print("implementation:", a[:400]); print("model:", b[:400])
    return 1 if C.canon(a) != C.canon(b) or " | differ" in a else 0
