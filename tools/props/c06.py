"""C06 — every module built with the Builder survives assemble-then-load unchanged."""
import json
from collections import Counter
import random
import checklib as C
import buildgen
from props import common, c06diag

MODULE = "Rspirv.Props.C06Emit"
THEOREMS = ["Rspirv.Props.C06.methods_ok", "Rspirv.Props.C06.wrappers_ok", "Rspirv.Props.C06.walk_sound",
            "Rspirv.Props.C06.C06_methods", "Rspirv.Props.C06.C06_terminators", "Rspirv.Props.C06.terminators_covered"] + \
           ["Rspirv.Props.Reload." + n for n in ("run_fn", "run_sects", "load_canon")] + \
           ["Rspirv.Props.RoundTrip." + n for n in ("insts_asm", "streamWords_bytes", "C03_accept_header", "loadBytes_of_trace",
                                                    "assemble_load")] + \
           ["Rspirv.Props.C06Round." + n for n in ("updBlock_last", "insertAt_mem", "binv_insert", "step_binv", "run_binv",
                                                   "C06_canon", "step_hdr", "run_hdr", "finish_hdr")] + \
           ["Rspirv.Props.C06End." + n for n in ("struct_ok", "default_version_normal", "reflect_keys", "classify_row",
                                                 "method_plain", "hand_entry", "hand_plain", "C06_roundtrip", "C06_scope")] + \
           ["Rspirv.Props.C06Round.plainRunB_sound", "Rspirv.Props.RoundTrip.grammarStreamB_sound"] + \
           ["Rspirv.Props.C06Typed." + n for n in ("loopT_indep", "instT_indep", "typed_track", "typedAll_stream",
                                                   "C06_roundtrip_typed", "many_loopT", "groups_loopT", "call_typed",
                                                   "collect_flatten")] + \
           ["Rspirv.Props.C06Emit." + n for n in ("adds_push", "updBlock_adds", "insertIntoBlock_adds", "step_mem", "run_all",
                                                  "C06_typed_history", "assemble_wordsOk", "C06_typed_history'")] + \
           ["Rspirv.Props.C02Typed.typed_spec", "Rspirv.Props.C02TypedInst.typedStream_grammar"]
NEEDS = ("header", "core", "decode", "operand_enum", "asm_arms", "parse_operand", "operands", "builder", "traversals")


def run(ctx):
    T, ext = common.stage_translate_and_extract(ctx)
    with C.Lock():
        hok, herr = C.build_harness(ctx, bins=("impl",))
        have = C.need(ctx, *NEEDS)
        failing = C.prove(ctx, MODULE, THEOREMS, extra_targets=["driver"],
                          files=["Rspirv/Props/C06.lean", "Rspirv/Generic/Method.lean", "Rspirv/Props/Reload.lean", "Rspirv/Props/RoundTrip.lean",
                                 "Rspirv/Props/C06Round.lean", "Rspirv/Props/C06End.lean", "Rspirv/Props/C06Typed.lean", "Rspirv/Props/C06Emit.lean", "Rspirv/Props/C02Typed.lean", "Rspirv/Props/C02TypedInst.lean", "Rspirv/Model/Typed.lean", "Rspirv/Model/Builder.lean",
                                 "Rspirv/Model/BuilderHand.lean", "Rspirv/Instances.lean"]) if have else []
    if not hok or ext is None:
        ctx.issue("harness-build", "the harness no longer builds against the working tree: " + (herr or ctx.data.get("harness_error", ""))[-400:])
        return C.finish(ctx)
    broken = (not have) or any(n == "<build>" for n, _ in failing)
    known = common.known("C06")
    # -- proof side: diagnosis of the method table
    if have:
        diag = c06diag.diagnose(T, ext)
        for name, why in diag:
            ctx.issue(f"C06:method:{name}", f"Builder::{name}: {why}", witness={"method": name, "reason": why,
                      "replay": f"buildrt {name}/... (call with distinct sentinel arguments)"}, found_input=True, kind="oracle")
        # "the emitted instruction has the method's opcode": the method is named after the opcode it emits (snake case of the
        # specification name; `insert_` prefix for the form with an insertion point, `_id` suffix for type methods with an explicit id)
        import re as _re
        exceptions = {"Return": "ret", "ReturnValue": "ret_value", "ConvertFToBF16INTEL": "convert_f_to_bf16intel"}
        bad_names = []
        for m in T["builder"]:
            if m["kind"] != "emit":
                continue
            base = m["name"][7:] if m["name"].startswith("insert_") else m["name"]
            if base.endswith("_id") and m["opname"].startswith("Type"):
                base = base[:-3]
            want = exceptions.get(m["opname"]) or _re.sub(r"(?<=[a-z0-9])([A-Z])|(?<=[A-Z])([A-Z])(?=[a-z])",
                                                          lambda x: "_" + (x.group(1) or x.group(2)), m["opname"]).lower()
            if base != want:
                bad_names.append((m["name"], m["opname"]))
        ctx.oblige("method names: every generated instruction-emitting method emits the opcode it is named after", not bad_names)
        for name, opname in bad_names:
            ctx.issue(f"C06:method-opcode:{name}", f"Builder::{name} emits Op{opname}, not the opcode it is named after",
                      witness={"method": name, "emits": opname, "replay": f"buildrt {name}/... (any arguments): the instruction's opcode is Op{opname}"},
                      found_input=True, kind="oracle")
        common.wrapper_forwarding(ctx, T)
        explained = bool(diag)
        for n, e in failing:
            ctx.log(f"obligation failed: {n}: {e['msg'][:120]}")
            if not explained or all(f"C06:method:{nm}" in known for nm, _ in diag):
                ctx.issue(f"theorem:{n}", f"Lean obligation no longer checks: {e['msg'][:300]}", witness=e)
    if broken:
        T = C.load_pinned_T()
    rnd = random.Random(ctx.seed)
    g = buildgen.BuildGen(T, rnd)
    from props import c12 as c12mod
    c12mod.Sim.block_methods = {m["name"]: False for m in g.methods if m["sink"][0] == "block"}
    skip = {k.split(":")[2] for k in known if k.startswith("C06:method:")}
    skip |= {"type_struct_continued_intel"}
    reqs = []
    # every generated method at least once, alone in a minimal complete history
    for m in g.methods:
        if m["name"] in skip:
            continue
        for rep in range(1 if ctx.tier == "quick" else 4):
            sink = m["sink"][0]
            has_ip = any(t == ("insert_point",) for _, t in m["params"])
            # terminators are inserted at the end (an insert_<terminator> elsewhere asks for a block whose terminator
            # is not last: outside ArgsConform); block instructions at the beginning
            c = g.call(m, ip="E" if (not has_ip or sink == "end_block") else "B")
            if m["opname"] in ("TypeInt", "TypeFloat"):
                parts = c.split("/"); parts[2 if m["name"].endswith("_id") else 1] = "32"; c = "/".join(parts)
            if sink in ("section", "dedup"):
                calls = [c]
            elif sink == "block":
                calls = ["begin_function/1/-/0/2", "begin_block/-", c, "ret", "end_function"]
            else:
                calls = ["begin_function/1/-/0/2", "begin_block/-", "nop", c, "end_function"]
            reqs.append("buildrt " + " ".join(calls))
    # the wrappers `x(args) = x_id(None, args)` (generated for every type method): the callee's call without its id argument
    by_name = {m["name"]: m for m in g.methods}
    for w in (T["builder"] if "builder" in T else []):
        if w.get("kind") != "wrapper" or w["name"] in skip or w["callee"] in skip or w["callee"] not in by_name:
            continue
        callee = by_name[w["callee"]]
        parts = g.call(callee).split("/")
        idpos = [k for k, (pn, _) in enumerate(callee["params"]) if pn == "result_id"]
        if idpos:
            del parts[1 + idpos[0]]
        if callee["opname"] in ("TypeInt", "TypeFloat"):
            parts[1] = "32"
        reqs.append("buildrt " + "/".join([w["name"]] + parts[1:]))
    # the 64-bit constant methods, typed by a 64-bit type declared before them (ids: 1 type, 2, 3 constants, 4 type, 5 constant)
    reqs.append("buildrt type_int/64/0 constant_bit64/1/18446744073709551615 spec_constant_bit64/1/4294967296 type_float/64 constant_bit64/4/4607182418800017408")
    reqs.append("buildrt type_int/64/1 spec_constant_bit64/1/9223372036854775808 begin_function/1/-/0/2 begin_block/- ret end_function")
    # OpSwitch over a computed selector whose type is tracked: 64-bit case literals (two words each) resp. 32-bit ones
    l64, l32 = g.vix["LiteralBit64"], g.vix["LiteralBit32"]
    reqs.append(f"buildrt type_int/64/0 begin_function/1/-/0/2 begin_block/- i_add/1/-/7/8 switch/4/9/{l64}:Q5=10,{l64}:Q18446744073709551615=11 end_function")
    reqs.append(f"buildrt type_int/64/1 begin_function/1/-/0/2 function_parameter/1 begin_block/- switch/3/9/{l64}:Q4294967296=10 end_function")
    reqs.append(f"buildrt type_int/32/0 begin_function/1/-/0/2 begin_block/- i_add/1/-/7/8 switch/4/9/{l32}:5=10,{l32}:4294967295=11,{l32}:0=12 end_function")
    reqs.append(f"buildrt type_int/16/0 begin_function/1/-/0/2 begin_block/- undef/1/- switch/4/9/{l32}:65535=10 end_function")
    # every supported literal width as the type of constants, spec constants and a switch selector (ids: type 1, constants 2 and 3,
    # function 4, label 5, selector 6)
    for w, sign in ((8, 0), (8, 1), (16, 1), (32, 0)):
        top = (1 << w) - 1
        reqs.append(f"buildrt type_int/{w}/{sign} constant_bit32/1/{top} spec_constant_bit32/1/1 begin_function/1/-/0/2 begin_block/- undef/1/- switch/6/9/{l32}:{top}=10,{l32}:0=11 end_function")
    for w in (16, 32):
        reqs.append(f"buildrt type_float/{w}/- constant_bit32/1/1065353216 spec_constant_bit32/1/0 begin_function/1/-/0/2 begin_block/- ret end_function")
    # functions and blocks built out of order: all functions begun first, then completed in another order through select_function; blocks
    # left open, other blocks begun, and the open ones terminated later through select_block. Every history is complete (each block
    # terminated, each function ended), so the built module must reload unchanged
    import itertools
    terms = ["ret", "kill", "unreachable", "branch/9", "ret_value/8"]
    for nf in (2, 3):
        for order in itertools.permutations(range(nf)):
            for variant in range(3):
                calls = []
                for f in range(nf):
                    calls += ["begin_function/1/-/0/2"] + (["function_parameter/1"] if (f + variant) % 2 else []) + ["select_function/-"]
                for f in order:
                    calls.append(f"select_function/{f}")
                    nb = 1 + (f + variant) % 3
                    if variant == 2:
                        # open all blocks first (deselecting each), then terminate them in reverse order
                        for b in range(nb):
                            calls += ["begin_block/-", "nop", "select_block/-"]
                        for b in reversed(range(nb)):
                            calls += [f"select_block/{b}", "i_add/1/-/7/8", terms[(b + f) % len(terms)]]
                    else:
                        for b in range(nb):
                            calls += ["begin_block/-", "nop", terms[(b + f + variant) % len(terms)]]
                    calls.append("end_function")
                reqs.append("buildrt " + " ".join(calls))
    n_single = len(reqs)
    for _ in range(300 if ctx.tier == "quick" else 5000):
        reqs.append("buildrt " + " ".join(g.history(size=rnd.choice([0.5, 1, 2]), skip=skip)))

    def oracle(req, resp):
        if resp.startswith("panic"):
            return "panicked: " + resp[6:80]
        if resp.startswith("bad-request"):
            return None
        parts = resp.split(" | ")
        if len(parts) < 3:
            return "malformed response"
        outs = parts[0].split(" ")[1:]
        if any(o.startswith("err") for o in outs):
            return None      # not a complete/legal history (generator slip): not judged
        from props.c12 import Sim
        sim = Sim()
        for c in req.split(" ")[1:]:
            sim.expect(c)
        if sim.sf is not None or sim.sb is not None:
            return None      # incomplete history (e.g. produced by shrinking): outside the property
        if parts[1] != "same":
            return "built module differs from its assemble-then-load image: " + parts[1][:160]
        built = parts[2]
        # bound above every id used as a result id
        hdr = built.split("h:")[1].split(" ")[0].split(",")
        bound = int(hdr[3])
        for tok in built.replace("|", " ").split(" "):
            f = tok.split(":", 1)[-1].split(";")
            if len(f) == 4 and f[2].isdigit() and int(f[2]) >= bound:
                return f"header bound {bound} does not exceed the result id {f[2]}"
        sv = [c for c in req.split(" ") if c.startswith("set_version/")]
        if sv:
            maj, mi = sv[-1].split("/")[1:]
            if int(hdr[1]) != (int(maj) << 16 | int(mi) << 8):
                return "version set on the builder is not the header's version"
        return None

    if broken:
        if C.oracle_search(ctx, reqs, oracle, "buildrt"):
            ctx.issues = [i for i in ctx.issues if i.found_input]
        return C.finish(ctx)
    impl, model = C.differential(ctx, reqs, "buildrt", oracle=oracle)
    judged = sum(1 for a in impl if " | same | " in a)
    # scope of the end-to-end theorem: the driver evaluates the executable forms of the hypotheses of C06_scope
    # (plain history, complete, grammar stream, 32-bit words) on every history; inside the scope the theorem says "same"
    hyp = C.run_driver(ctx, ["buildhyp" + r[len("buildrt"):] for r in reqs])
    in_scope = 0
    flags = {"plain": 0, "complete": 0, "grammar": 0, "words32": 0}
    for r, a, hy in zip(reqs, impl, hyp):
        f = dict(x.split("=") for x in hy.split(" ")[1:]) if hy.startswith("ok ") else {}
        for k in flags:
            flags[k] += f.get(k) == "1"
        if all(f.get(k) == "1" for k in flags):
            in_scope += 1
            if " | same | " not in a:
                ctx.issue(f"oracle:theorem-scope:{r[:120]}", "history inside the scope of C06_scope (plain, complete, grammar stream) but the implementation's assemble-then-load image differs",
                          witness={"request": r, "implementation": a, "hypotheses": hy}, found_input=True, kind="oracle")
    ctx.oblige(f"oracle:theorem-scope ({in_scope} of {len(reqs)} histories satisfy the hypotheses of C06_scope; all of them reload unchanged)",
               in_scope > len(reqs) // 2 and not any(i.key.startswith("oracle:theorem-scope") for i in ctx.issues))
    ctx.coverage["histories_in_theorem_scope"] = in_scope
    outside = Counter()
    for r, hy in zip(reqs, hyp):
        if "plain=0" in hy:
            calls = r.split(" ")[1:]
            pre = C.run_driver(ctx, ["buildhyp " + " ".join(calls[:k]) for k in range(1, len(calls) + 1)])
            first = next((calls[k] for k, x in enumerate(pre) if "plain=0" in x), "?")
            outside[first.split("/")[0] + ("@" + first.split("/")[1] if first.split("/")[0].startswith("insert_") else "")] += 1
    ctx.coverage["first_non_plain_call"] = dict(outside.most_common(12))
    ctx.coverage["hypothesis_counts"] = flags
    ctx.coverage["methods_called_alone"] = n_single
    ctx.coverage["histories_judged_same"] = judged
    ctx.coverage["histories_with_generator_slips"] = sum(1 for a in impl if any(o.startswith("err") for o in a.split(" | ")[0].split(" ")[1:]))
    meths = set()
    for r in reqs:
        for c in r.split(" ")[1:]:
            meths.add(c.split("/")[0])
        ctx.distinct.add(r[:400])
    ctx.coverage["distinct_methods_exercised"] = len(meths)
    ctx.samples = [{"request": reqs[i][:200], "implementation": impl[i][:160]} for i in (5, n_single + 3, len(reqs) - 1)]
    ctx.assumptions += ["ArgsConform: arguments conform to the grammar (optional operands as a trailing run, parameters only on the last parameterised operand of a call, literal widths consistent with tracked types, OpSwitch selectors untracked); histories complete; no begin_block_no_label (known finding)",
                        "C06_roundtrip / C06_scope: for complete plain histories (no select_function/select_block/pop_instruction/raw insertion, terminators appended at the end, end_function only with no open block) whose module is a stream of instructions of the grammar, load_bytes(assemble(module)) = Ok(module) is a theorem; 'instruction of the grammar' is defined through the recogniser Spec.inst (C03: what the parser accepts); the other histories are decided by the differential only"]
    return C.finish(ctx, level="proof", checker_cmd="lake build Rspirv.Props.C06Emit (method table merge-walk, Builder invariant, canonical reload, end-to-end theorem, typed arguments) + #print axioms",
                    rule="every generated instruction-emitting method called once in a minimal complete history with grammar-conforming arguments, plus seeded complete histories over all methods; functions and blocks completed out of order through select_function / select_block (all permutations for 2 and 3 functions); distinct non-trivial = distinct histories",
                    trusted=["translator builder.py", "hand models + differential harness (chan/build.rs buildrt)"])


def replay(ctx, path):
    r = json.load(open(path))
    req = (r.get("witness") or {}).get("request")
    if not req:
        return run(ctx)
    with C.Lock():
        C.translate_all(ctx)
        C.build_harness(ctx, bins=("impl",))
    hist = (r.get("witness") or {}).get("history") or []     # requests answered before it by the same process
    a, b = C.run_impl(ctx, hist + [req])[-1], C.run_driver(ctx, hist + [req])[-1]
    print("request:", req[:300]); print("implementation:", a[:400]); print("model:", b[:400])
    return 1 if C.canon(a) != C.canon(b) or " | differ" in a else 0
