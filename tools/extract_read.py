"""Parse the extractor's line output into a dict."""


def parse(text):
    d = {"core": [], "glsl": [], "opencl": [], "lookup": {}, "get": {}, "get_glsl": {}, "get_opencl": {}, "lookup_glsl": {}, "lookup_opencl": {},
         "lookup_far": [], "reflect": [], "generator_from": [], "version_bad": [], "version_of": [],
         "probes": [], "header_new": None, "version_checked": None, "impure": []}

    def lst(s):
        return [] if s == "-" else s.split(",")

    for line in text.splitlines():
        p = line.split(" ")
        k = p[0]
        if k in ("core", "glsl", "opencl"):
            ops = [tuple(x.split(":")) for x in lst(p[5])]
            d[k].append({"name": p[1], "opcode": int(p[2]), "caps": lst(p[3]), "exts": lst(p[4]), "ops": ops})
        elif k in ("lookup", "lookup_glsl", "lookup_opencl"):
            d[k][int(p[1])] = (p[2], int(p[3]))
        elif k == "get":
            d["get"][int(p[1])] = (p[2], p[3])
        elif k in ("get_glsl", "get_opencl"):
            d[k][int(p[1])] = (p[2], p[3])
        elif k == "impure":
            d["impure"].append(p[1:])
        elif k == "lookup_far":
            d["lookup_far"].append((int(p[1]), p[2], p[3]))
        elif k == "reflect":
            d["reflect"].append((int(p[1]), p[2]))
        elif k == "generator_from":
            d["generator_from"].append((int(p[1]), p[2]))
        elif k == "version_bad":
            d["version_bad"].append(line)
        elif k == "version_of":
            d["version_of"].append(tuple(int(x) for x in p[1:]))
        elif k == "version_checked":
            d["version_checked"] = (int(p[1]), int(p[2]))
        elif k == "header_new":
            d["header_new"] = [int(x) for x in p[1:]]
        elif k in ("enum", "str", "alias", "mask", "maskall", "maskconst"):
            d["probes"].append(line)
        elif line:
            raise ValueError("unexpected extractor line: " + line)
    return d
