"""Type-directed canonicalisation of the `Debug` text of rspirv's structured representation into the generic form the
Lean lift model prints (`Name{field=value,..}` with numeric enumerants / mask bits, `tN` tokens, `s<hex>` strings).
The field types come from the translated declarations of sr/autogen_{ops,types,instructions}.rs."""
import re
import disread


class P:
    def __init__(self, s):
        self.s, self.i = s, 0

    def ws(self):
        while self.i < len(self.s) and self.s[self.i] == " ":
            self.i += 1

    def lit(self, t):
        self.ws()
        if not self.s.startswith(t, self.i):
            raise ValueError(f"expected {t!r} at {self.s[self.i:self.i + 30]!r}")
        self.i += len(t)

    def at(self, t):
        self.ws()
        return self.s.startswith(t, self.i)

    def opt(self, t):
        if self.at(t):
            self.i += len(t)
            return True
        return False

    def ident(self):
        self.ws()
        m = re.compile(r"[A-Za-z_][A-Za-z0-9_]*").match(self.s, self.i)
        if not m:
            raise ValueError(f"identifier expected at {self.s[self.i:self.i + 30]!r}")
        self.i = m.end()
        return m.group(0)

    def number_text(self):
        self.ws()
        m = re.compile(r"-?(inf|NaN|[0-9][0-9a-fA-Fx_.e+-]*)").match(self.s, self.i)
        if not m:
            raise ValueError(f"number expected at {self.s[self.i:self.i + 30]!r}")
        self.i = m.end()
        return m.group(0)

    def string(self):
        self.ws()
        import props.c07 as c07          # same un-escaping as the disassembly comparison
        b, j = c07.unescape_quoted(self.s, self.i)
        self.i = j
        return b


class Canon:
    def __init__(self, T):
        hdr = T["header"]
        self.enum_names = {}
        for e in hdr["enums"]:
            d = {}
            for n, v in e["decl"]:
                d.setdefault(n, v)
            for a, t in e["aliases"]:
                d.setdefault(a, dict(e["decl"])[t])
            self.enum_names[e["name"]] = d
        self.mask_consts = {m["name"]: dict(m["consts"]) for m in hdr["masks"]}
        _, decls = T["lift"]
        self.decl = {}
        for en in ("Op", "Branch", "Terminator", "Type"):
            self.decl[en] = {v: fs for v, fs in decls[en]}
        self.structs = dict(decls["structs"])

    # ---- values by declared type (type = token string of the declaration)
    def value(self, p, ty):
        ty = ty.strip()
        if ty in ("u32", "spirv :: Word", "u64", "i32"):
            return str(int(p.number_text()))
        if ty == "bool":
            return "1" if p.ident() == "true" else "0"
        if ty == "String":
            return "s" + (p.string().hex() or "-")
        if ty.startswith("Token <"):
            p.lit("Token("); n = p.number_text(); p.lit(")")
            return "t" + n
        if ty == "StructMember":
            p.lit("StructMember {"); p.lit("token:"); p.lit("Token("); n = p.number_text(); p.lit(")"); p.lit(",")
            p.lit("decorations:"); p.lit("["); p.lit("]"); p.lit("}")
            return "m" + n
        if ty == "Jump":
            p.lit("Jump {"); p.lit("block:"); p.lit("Token("); n = p.number_text(); p.lit(")"); p.lit(",")
            p.lit("arguments:"); p.lit("["); p.lit("]"); p.lit("}")
            return "j" + n
        if ty.startswith("Option <"):
            inner = ty[len("Option <"):].rstrip()[:-1]
            if p.opt("None"):
                return "-"
            p.lit("Some("); v = self.value(p, inner); p.lit(")")
            return "?" + v
        if ty.startswith("Vec <"):
            inner = ty[len("Vec <"):].rstrip()[:-1]
            p.lit("[")
            out = []
            while not p.at("]"):
                out.append(self.value(p, inner))
                if not p.opt(","):
                    break
            p.lit("]")
            return "[" + ";".join(out) + "]"
        if ty.startswith("("):
            parts = self.split_tuple(ty)
            p.lit("(")
            out = []
            for k, t in enumerate(parts):
                out.append(self.value(p, t))
                if k + 1 < len(parts):
                    p.lit(",")
            p.lit(")")
            return "(" + ";".join(out) + ")"
        if ty.startswith("spirv ::"):
            name = ty.split("::")[1].strip()
            if name in self.mask_consts:
                p.lit(name + "(")
                v = 0
                self_ws = p.ws()
                j = p.s.index(")", p.i)
                inner = p.s[p.i:j]
                p.i = j + 1
                for part in inner.split("|"):
                    part = part.strip()
                    if not part:
                        continue
                    v |= int(part, 16) if part.startswith("0x") else self.mask_consts[name][part]
                return str(v)
            nm = p.ident()
            return str(self.enum_names[name][nm])
        raise ValueError("unhandled field type " + ty)

    @staticmethod
    def split_tuple(ty):
        inner = ty.strip()[1:-1]
        parts, depth, cur = [], 0, []
        for tok in inner.split(" "):
            if tok in ("<", "("):
                depth += 1
            elif tok in (">", ")"):
                depth -= 1
            if tok == "," and depth == 0:
                parts.append(" ".join(cur)); cur = []
            else:
                cur.append(tok)
        if cur:
            parts.append(" ".join(cur))
        return parts

    def node(self, p, en):
        """a value of one of the generated enums: `V` or `V { f: v, .. }`"""
        v = p.ident()
        fields = self.decl[en].get(v)
        if fields is None and v not in self.decl[en]:
            raise ValueError(f"{en}::{v} is not declared")
        out = []
        if fields:
            p.lit("{")
            for k, (fname, fty) in enumerate(fields):
                p.lit(fname + ":")
                out.append(f"{fname}={self.value(p, fty)}")
                if k + 1 < len(fields):
                    p.lit(",")
            p.lit("}")
        return v + "{" + ",".join(out) + "}"

    def struct(self, p, name):
        p.lit(name)
        fields = self.structs[name]
        out = []
        if fields:
            p.lit("{")
            for k, (fname, fty) in enumerate(fields):
                p.lit(fname + ":")
                out.append(f"{fname}={self.value(p, fty)}")
                if k + 1 < len(fields):
                    p.lit(",")
            p.lit("}")
        return name + "{" + ",".join(out) + "}"

    def constant(self, p):
        v = p.ident()
        if v in ("Null",):
            return "Null{}"
        if v == "Bool":
            p.lit("("); b = p.ident(); p.lit(")")
            return "Bool{0=%d}" % (1 if b == "true" else 0)
        if v in ("Int", "UInt"):
            p.lit("("); n = int(p.number_text()); p.lit(")")
            return "%s{0=%d}" % (v, n & 0xffffffff)
        if v == "Float":
            p.lit("("); t = p.number_text(); p.lit(")")
            bits = disread.f32_bits(t)
            return "Float{0=%s}" % ("NaN" if bits is None else bits)
        if v == "Composite":
            p.lit("("); x = self.value(p, "Vec < Token < Constant > >"); p.lit(")")
            return "Composite{0=%s}" % x
        if v == "Sampler":
            p.lit("{"); p.lit("addressing_mode:"); a = self.value(p, "spirv :: SamplerAddressingMode"); p.lit(",")
            p.lit("normalized:"); n = self.value(p, "bool"); p.lit(",")
            p.lit("filter_mode:"); f = self.value(p, "spirv :: SamplerFilterMode"); p.lit("}")
            return "Sampler{addressing_mode=%s,normalized=%s,filter_mode=%s}" % (a, n, f)
        raise ValueError("unhandled constant " + v)

    def terminator(self, p):
        if p.opt("Branch("):
            n = self.node(p, "Branch")
            p.lit(")")
            return n
        return self.node(p, "Terminator")

    def storage(self, p, item):
        p.lit("Storage {"); p.lit("data:"); p.lit("[")
        out = []
        while not p.at("]"):
            out.append(item(p))
            if not p.opt(","):
                break
        p.lit("]")
        if p.opt(","):
            # further (private, bookkeeping) fields of `Storage` are no part of the lifted module's content: skip them,
            # so that a representation change of the container that keeps `data` is not reported as a C18 difference
            depth = 0
            while p.i < len(p.s):
                ch = p.s[p.i]
                if ch in "{[(":
                    depth += 1
                elif ch in "}])":
                    if depth == 0:
                        break
                    depth -= 1
                p.i += 1
        p.lit("}")
        return out

    def module(self, resp):
        """implementation response of the `lift` channel -> the model's canonical line"""
        if not resp.startswith("ok "):
            return resp
        parts = resp.split(" §§ ")
        out = [parts[0]]
        p = P(parts[1][len("caps="):])
        out.append("caps=" + self.value(p, "Vec < spirv :: Capability >"))
        p = P(parts[2][len("mm="):])
        out.append("mm=" + self.struct(p, "MemoryModel"))
        p = P(parts[3][len("T="):])
        out.append("T " + " ".join(self.storage(p, lambda q: self.node(q, "Type"))))
        p = P(parts[4][len("C="):])
        out.append("C " + " ".join(self.storage(p, self.constant)))
        p = P(parts[5][len("O="):])
        out.append("O " + " ".join(self.storage(p, lambda q: self.node(q, "Op"))))
        fns = []
        for f in parts[6:]:
            p = P(f)
            p.lit("F ctl="); ctl = self.value(p, "spirv :: FunctionControl")
            p.lit("res="); res = self.value(p, "Token < Type >")
            p.lit("start="); st = self.value(p, "Token < Block >")
            p.lit("blocks=")

            def block(q):
                q.lit("Block {"); q.lit("arguments:"); a = self.value(q, "Vec < Token < Type > >"); q.lit(",")
                q.lit("ops:"); q.lit("["); q.lit("]"); q.lit(",")
                q.lit("terminator:"); t = self.terminator(q); q.lit("}")
                return f"B args={a} term={t}"
            bl = self.storage(p, block)
            fns.append(f"F ctl={ctl} res={res} start={st} " + " ".join(bl))
        out.append(" ".join(fns))
        return " | ".join(out)
