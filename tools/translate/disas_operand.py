"""Strict translator for rspirv/binary/autogen_disas_operand.rs: per mask the (flag, printed name) list in order, and
for the hand-written dispatcher `impl Disassemble for dr::Operand` in disassemble.rs the list of variants it forwards."""
from rusttok import tokenize, Cur, TranslateError
from translate.traversals import find_fn, find_impl

FILE = "rspirv/binary/autogen_disas_operand.rs"


def parse(text):
    c = Cur(tokenize(text, FILE), FILE)
    out = []
    while not c.eof():
        c.seq("impl Disassemble for spirv ::"); ty = c.ident(); c.item = ty
        c.seq("{ fn disassemble ( & self ) -> String { if self . is_empty ( ) { return"); empty = c.string()
        c.seq(". to_string ( ) ; } let mut bits = vec ! [ ] ;")
        rows = []
        while c.at_id("if"):
            c.seq("if self . contains ( spirv ::")
            if c.ident() != ty: c.fail("flag of another type")
            c.p("::"); flag = c.ident(); c.seq(") { bits . push ("); nm = c.string(); c.seq(") }")
            rows.append((flag, nm))
        c.seq("bits . join ("); sep = c.string(); c.seq(") } }")
        out.append({"type": ty, "empty": empty, "sep": sep, "rows": rows})
    return out


def parse_dispatch(text):
    """impl Disassemble for dr::Operand: (id variants, forwarded variants)"""
    file = "rspirv/binary/disassemble.rs"
    toks = tokenize(text, file)
    j = find_impl(toks, file, "Disassemble", "Operand")
    c, _ = find_fn(toks, file, "disassemble", after=j)
    c.item = "impl Disassemble for dr::Operand"
    c.seq("match * self {")
    ids = []
    while True:
        c.seq("dr :: Operand ::"); ids.append(c.ident()); c.seq("( v )")
        if not c.opt_p("|"): break
    c.seq("=> { format ! ("); f = c.string(); c.seq(", v ) }")
    if f != "%{}": c.fail("unexpected id format")
    c.opt_p(",")
    fwd = []
    while not c.at_p("_"):
        c.seq("dr :: Operand ::"); fwd.append(c.ident()); c.seq("( v ) => v . disassemble ( )"); c.opt_p(",")
    c.seq("_ => format ! ("); f2 = c.string(); c.seq(", self )"); c.opt_p(","); c.p("}")
    if f2 != "{}": c.fail("unexpected fallback format")
    if not c.eof(): c.fail("trailing tokens")
    return ids, fwd
