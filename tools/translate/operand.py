"""Strict reading of the `dr::Operand` enum declaration (dr/autogen_operand.rs, first item) and of the
`impl Assemble for dr::Operand` match arms (binary/assemble.rs)."""
from rusttok import tokenize, Cur, TranslateError
from translate.traversals import find_fn, find_impl

F1 = "rspirv/dr/autogen_operand.rs"
F2 = "rspirv/binary/assemble.rs"


def parse_enum(text):
    """variants: [(name, payload)] payload in {'spirv::<T>', 'word', 'u32', 'u64', 'op', 'string'}; returns (variants, index of
    the first token after the enum)"""
    toks = tokenize(text, F1)
    c = Cur(toks, F1, "enum Operand")
    c.skip_attrs()
    c.seq("pub enum Operand {")
    out = []
    while not c.at_p("}"):
        v = c.ident(); c.p("(")
        if c.at_id("spirv"):
            c.seq("spirv ::"); t = c.ident()
            pay = "word" if t == "Word" else ("op" if t == "Op" else "spirv::" + t)
        else:
            t = c.ident()
            if t not in ("u32", "u64", "String"): c.fail(f"unexpected payload type {t}")
            pay = {"u32": "u32", "u64": "u64", "String": "string"}[t]
        c.p(")")
        out.append((v, pay))
        if not c.opt_p(","):
            break
    c.p("}")
    return out, toks, c.i


def parse_assemble_arms(text):
    """variant -> 'bits' | 'as_u32' | 'raw' | 'lohi' | 'string'"""
    toks = tokenize(text, F2)
    j = find_impl(toks, F2, "Assemble", "Operand")
    c, _ = find_fn(toks, F2, "assemble_into", after=j)
    c.item = "impl Assemble for Operand"
    c.seq("match * self {")
    arms = {}
    while not c.at_p("}"):
        names = []
        binder_ref = False
        while True:
            c.seq("Self ::"); n = c.ident(); c.p("(")
            binder_ref = c.opt_kw("ref") or binder_ref
            c.kw("v"); c.p(")")
            names.append(n)
            if not c.opt_p("|"):
                break
        c.p("=>")
        c.item = "impl Assemble for Operand::" + names[0]
        if c.at_id("assemble_str"):
            c.seq("assemble_str ( v , result )"); kind = "string"
        else:
            c.seq("result .")
            m = c.ident()
            if m == "push":
                c.p("("); c.kw("v")
                if c.opt_p("."):
                    c.seq("bits ( ) )"); kind = "bits"
                elif c.opt_kw("as"):
                    c.seq("u32 )"); kind = "as_u32"
                else:
                    c.p(")"); kind = "raw"
            elif m == "extend":
                c.seq("( [ v as u32 , ( v > > 32 ) as u32 ] )"); kind = "lohi"
            else:
                c.fail("unexpected result method")
        c.opt_p(",")
        for n in names:
            if n in arms: c.fail("duplicate arm " + n)
            arms[n] = kind
    c.p("}")
    if not c.eof(): c.fail("trailing tokens after the match")
    return arms
