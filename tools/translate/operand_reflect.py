"""Strict translator for everything after the enum in rspirv/dr/autogen_operand.rs:
From impls, Display arms, unwrap_* accessors, id_ref_any(_mut), required_capabilities, required_extensions,
additional_operands (grouped form)."""
from rusttok import tokenize, Cur, TranslateError
from translate.operand import parse_enum

FILE = "rspirv/dr/autogen_operand.rs"


def _type(c):
    """spirv::T | u32 | u64 | String | &str"""
    if c.at_id("spirv"):
        c.seq("spirv ::"); return "spirv::" + c.ident()
    if c.opt_p("&"):
        c.kw("str"); return "&str"
    return c.ident()


def _flag_or(c, ty):
    """s::T::A | s::T::B ... -> [A, B]"""
    out = []
    while True:
        c.seq("s ::")
        if c.ident() != ty: c.fail("flag of another type")
        c.p("::"); out.append(c.ident())
        if not c.opt_p("|"):
            break
    return out


def _caps(c):
    c.p("&", "[")
    out = []
    while not c.at_p("]"):
        c.seq("spirv :: Capability ::"); out.append(c.ident())
        if not c.opt_p(","): break
    c.p("]")
    return out


def _strs(c):
    c.p("&", "[")
    out = []
    while not c.at_p("]"):
        out.append(c.string())
        if not c.opt_p(","): break
    c.p("]")
    return out


def _logical_operand(c):
    c.seq("crate :: grammar :: LogicalOperand { kind : crate :: grammar :: OperandKind ::"); k = c.ident()
    c.seq(", quantifier : crate :: grammar :: OperandQuantifier ::"); q = c.ident(); c.p("}")
    return (k, q)


def _lo_list(c, close):
    out = []
    while not c.at_p(close):
        out.append(_logical_operand(c))
        if not c.opt_p(","): break
    return out


def parse_required(c, fname, item_parser, item_vec):
    """required_capabilities / required_extensions: per variant mask form [(flags, items)] or enum form [(enumerants, items)]"""
    c.item = fname
    c.seq("use spirv as s ; match self {")
    out = {}
    while not c.at_p("_"):
        c.seq("Self ::"); v = c.ident(); c.item = f"{fname}::{v}"; c.seq("( v ) =>")
        if c.at_p("{"):
            c.seq("{ let mut result = vec ! [ ] ;")
            rows = []
            while c.at_id("if"):
                c.seq("if v . intersects (")
                flags = _flag_or(c, v)
                c.seq(") { result . extend_from_slice (")
                items = item_parser(c)
                c.seq(") } ;")
                rows.append((flags, items))
            c.seq("result }")
            out[v] = ("mask", rows)
        else:
            c.seq("match v {")
            rows = []
            while not c.at_p("}"):
                ens = _flag_or(c, v)
                c.p("=>")
                braced = c.opt_p("{")
                items = item_vec(c)
                if braced: c.p("}")
                c.opt_p(",")
                rows.append((ens, items))
            c.p("}")
            out[v] = ("enum", rows)
        c.opt_p(",")
    c.seq("_ => vec ! [ ]"); c.opt_p(","); c.p("}")
    return out


def _vec_caps(c):
    c.kw("vec"); c.p("!", "[")
    out = []
    while not c.at_p("]"):
        c.seq("spirv :: Capability ::"); out.append(c.ident())
        if not c.opt_p(","): break
    c.p("]")
    return out


def _vec_strs(c):
    c.kw("vec"); c.p("!", "[")
    out = []
    while not c.at_p("]"):
        out.append(c.string())
        if not c.opt_p(","): break
    c.p("]")
    return out


def parse(text):
    variants, toks, i = parse_enum(text)
    c = Cur(toks, FILE, "after enum")
    c.i = i
    R = {"from": [], "display": [], "unwrap": [], "id_ref_any": None, "id_ref_any_mut": None}
    # From impls
    while c.at_id("impl") and c.at_id("From", 1):
        c.seq("impl From <"); t = _type(c); c.item = f"From<{t}>"
        c.seq("> for Operand { fn from ( o :")
        if _type(c) != t: c.fail("argument type differs from the impl's type")
        c.seq(") -> Self { Self ::"); v = c.ident(); c.seq("( o ) } }")
        R["from"].append((t, v))
    # Display
    c.item = "Display"
    c.seq("impl fmt :: Display for Operand { fn fmt ( & self , f : & mut fmt :: Formatter ) -> fmt :: Result { match * self {")
    while not c.at_p("}"):
        c.seq("Operand ::"); v = c.ident(); c.seq("( ref v ) => write ! ( f ,"); fmt = c.string(); c.p(",")
        if c.opt_p("&"):
            # `&format!("{:?}", v)[3..]` : Debug name with its first three characters stripped (Dim)
            c.seq("format ! ("); inner = c.string(); c.seq(", v ) [ 3 .. ] )")
            if fmt != "{}" or inner != "{:?}": c.fail("unexpected format")
            fmt = "{:?}[3..]"
        else:
            c.seq("v )")
        c.opt_p(",")
        R["display"].append((v, fmt))
    c.seq("} } }")
    c.item = "impl Operand"
    c.seq("impl Operand {")
    while c.at_id("pub") and c.peek(2)[0] == "id" and c.peek(2)[1].startswith("unwrap_"):
        c.kw("pub", "fn"); fn = c.ident(); c.item = fn
        c.seq("( & self ) ->"); rt = _type(c); c.p("{")
        c.kw("match"); c.opt_p("*"); c.kw("self"); c.p("{")
        c.seq("Self ::"); v = c.ident(); c.seq("( v ) => v , ref other => panic ! (")
        msg = c.string(); c.seq(", other ) } }")
        if msg != f"Expected Operand::{v}, got {{}} instead":
            c.fail("unexpected panic message")
        R["unwrap"].append((fn, rt, v))
    for name, mut in (("id_ref_any", False), ("id_ref_any_mut", True)):
        c.item = name
        c.kw("pub", "fn")
        if c.ident() != name: c.fail("expected " + name)
        if mut:
            c.seq("( & mut self ) -> Option < & mut spirv :: Word > { match self {")
        else:
            c.seq("( & self ) -> Option < spirv :: Word > { match * self {")
        vs = []
        while True:
            c.seq("Self ::"); vs.append(c.ident()); c.seq("( v )")
            if not c.opt_p("|"): break
        c.seq("=> Some ( v ) , _ => None"); c.opt_p(","); c.seq("} }")
        R[name] = vs
    c.seq("pub fn required_capabilities ( & self ) -> Vec < spirv :: Capability > {")
    R["required_capabilities"] = parse_required(c, "required_capabilities", _caps, _vec_caps)
    c.p("}")
    c.seq("pub fn required_extensions ( & self ) -> Vec < &")
    if c.next() != ("life", "static"): c.fail("'static")
    c.seq("str > {")
    R["required_extensions"] = parse_required(c, "required_extensions", _strs, _vec_strs)
    c.p("}")
    # additional_operands
    c.item = "additional_operands"
    c.seq("pub fn additional_operands ( & self ) -> Vec < crate :: grammar :: LogicalOperand > { use spirv as s ; match self {")
    add = {}
    while not c.at_p("_"):
        c.seq("Self ::"); v = c.ident(); c.item = f"additional_operands::{v}"; c.seq("( v ) =>")
        if c.at_p("{"):
            c.seq("{ let mut result = vec ! [ ] ;")
            groups = []
            while c.at_id("result") and c.at_p(".", 1) and c.at_id("extend", 2):
                c.seq("result . extend ( [")
                flags = []
                while not c.at_p("]"):
                    c.seq("s ::")
                    if c.ident() != v: c.fail("flag of another type")
                    c.p("::"); flags.append(c.ident())
                    if not c.opt_p(","): break
                c.seq("] . iter ( ) . filter ( | arg | v . contains ( * * arg ) ) . flat_map ( | _ | { [")
                los = _lo_list(c, "]")
                c.seq("] . iter ( ) . cloned ( ) } ) ) ;")
                groups.append((flags, los))
            c.seq("result }")
            add[v] = ("mask", groups)
        else:
            c.seq("match v {")
            rows = []
            while not c.at_p("_"):
                ens = _flag_or(c, v)
                c.p("=>")
                braced = c.opt_p("{")
                c.kw("vec"); c.p("!", "[")
                los = _lo_list(c, "]")
                c.p("]")
                if braced: c.p("}")
                c.opt_p(",")
                rows.append((ens, los))
            c.seq("_ => vec ! [ ]"); c.opt_p(","); c.p("}")
            add[v] = ("enum", rows)
        c.opt_p(",")
    c.seq("_ => vec ! [ ]"); c.opt_p(","); c.seq("} } }")
    if not c.eof():
        c.fail("trailing tokens")
    R["additional_operands"] = add
    R["variants"] = variants
    return R
