"""Strict reading of the six traversal chains of rspirv/dr/constructs.rs and the assembly orders of
rspirv/binary/assemble.rs (hand-written but tabular) as lists of field names."""
from rusttok import tokenize, Cur, TranslateError

SECTIONS = ["capabilities", "extensions", "ext_inst_imports", "memory_model", "entry_points", "execution_modes",
            "debug_string_source", "debug_names", "debug_module_processed", "annotations", "types_global_values"]


def find_fn(toks, file, name, after=0):
    """cursor positioned on the body tokens of `fn name` (first occurrence at or after token index `after`)."""
    for i in range(after, len(toks) - 1):
        if toks[i] == ("id", "fn") and toks[i + 1] == ("id", name):
            c = Cur(toks, file, name)
            c.i = i + 2
            # skip signature up to the body's opening brace (generics / where clauses contain no braces here)
            while not c.at_p("{"):
                c.next()
            body = c.group("{", "}")
            return Cur(body, file, name), c.i
    raise TranslateError(file, name, "function not found")


def find_impl(toks, file, trait, ty):
    for i in range(len(toks) - 6):
        if toks[i] == ("id", "impl") and toks[i + 1] == ("id", trait) and toks[i + 2] == ("id", "for"):
            # `dr::Module` or `Module`
            j = i + 3
            if toks[j] == ("id", "dr") and toks[j + 1] == ("p", "::"):
                j += 2
            if toks[j] == ("id", ty):
                return j
    raise TranslateError(file, f"impl {trait} for {ty}", "impl not found")


def chain(c, mut):
    """self.A.iter[_mut]() (.chain(&[mut] self.B))*  [.chain(self.functions.iter[_mut]().flat_map(|f| f.all_inst_iter[_mut]()))]"""
    it = "iter_mut" if mut else "iter"
    c.kw("self"); c.p("."); first = c.ident(); c.p("."); c.kw(it); c.p("(", ")")
    fields, tail = [first], None
    while c.opt_p("."):
        c.kw("chain"); c.p("(")
        if c.at_p("&"):
            c.p("&")
            if mut:
                c.kw("mut")
            c.kw("self"); c.p("."); fields.append(c.ident()); c.p(")")
        else:
            c.kw("self"); c.p("."); c.kw("functions"); c.p("."); c.kw(it); c.p("(", ")", ".")
            c.kw("flat_map"); c.p("(", "|"); v = c.ident(); c.p("|")
            if c.ident() != v: c.fail("closure variable")
            c.p("."); c.kw("all_inst_iter_mut" if mut else "all_inst_iter"); c.p("(", ")"); c.opt_p(",")
            c.p(")"); c.opt_p(",")
            c.p(")")
            tail = "functions"
    if not c.eof():
        c.fail("trailing tokens in iterator chain")
    return fields, tail


def fn_chain(c, mut):
    it = "iter_mut" if mut else "iter"
    pieces = []
    c.kw("self"); c.p("."); pieces.append(c.ident()); c.p("."); c.kw(it); c.p("(", ")")
    while c.opt_p("."):
        c.kw("chain"); c.p("(")
        c.kw("self"); c.p("."); f = c.ident(); c.p("."); c.kw(it); c.p("(", ")")
        if c.opt_p("."):
            c.kw("flat_map"); c.p("(", "|"); v = c.ident(); c.p("|")
            if c.ident() != v: c.fail("closure variable")
            c.p("."); b1 = c.ident(); c.p("."); c.kw(it); c.p("(", ")", "."); c.kw("chain"); c.p("(")
            if c.ident() != v: c.fail("closure variable")
            c.p("."); b2 = c.ident(); c.p("."); c.kw(it); c.p("(", ")", ")"); c.opt_p(",")
            c.p(")")
            pieces.append((f, [b1, b2]))
        else:
            pieces.append(f)
        c.opt_p(",")
        c.p(")")
    if not c.eof():
        c.fail("trailing tokens in iterator chain")
    return pieces


def asm_stmts(c):
    """sequence of: `if let Some(ref x) = self.F { x.assemble_into(result); }` -> ('opt', F);
    `for x in &self.F { x.assemble_into(result); }` -> ('each', F);
    `for x in self.global_inst_iter() { .. }` -> ('call', 'global_inst_iter')."""
    out = []
    while not c.eof():
        if c.opt_kw("if"):
            c.kw("let", "Some"); c.p("("); c.kw("ref"); v = c.ident(); c.p(")", "="); c.kw("self"); c.p("."); f = c.ident()
            c.p("{")
            if c.ident() != v: c.fail("binder")
            c.p("."); c.kw("assemble_into"); c.p("("); c.kw("result"); c.p(")", ";", "}")
            out.append(("opt", f))
        elif c.opt_kw("for"):
            v = c.ident(); c.kw("in")
            if c.opt_p("&"):
                c.kw("self"); c.p("."); f = c.ident(); kind = "each"
            else:
                c.kw("self"); c.p("."); f = c.ident(); c.p("(", ")"); kind = "call"
            c.p("{")
            if c.ident() != v: c.fail("binder")
            c.p("."); c.kw("assemble_into"); c.p("("); c.kw("result"); c.p(")", ";", "}")
            out.append((kind, f))
        else:
            c.fail("unexpected statement in assemble_into")
    return out


def inst_stmts(c):
    """`impl Assemble for dr::Instruction`, statement by statement, as a small program over the output buffer:
    ('letStart',) `let start = result.len();`  ('pushOpcode',) `result.push(self.class.opcode as u32);`
    ('optPush', field) `if let Some(r) = self.F { result.push(r); }`  ('eachOperand',) the operand loop
    ('letEnd',) `let end = result.len() - start;`  ('patch', shift) `result[start] |= (end as u32) << 16;`
    (`<<` is lexed as two `<` tokens). Any other statement is refused."""
    out = []
    while not c.eof():
        if c.opt_kw("let"):
            v = c.ident(); c.p("="); c.kw("result"); c.p("."); c.kw("len"); c.p("(", ")")
            if v == "start":
                c.p(";"); out.append(("letStart",))
            elif v == "end":
                c.p("-"); c.kw("start"); c.p(";"); out.append(("letEnd",))
            else:
                c.fail("unexpected binding")
        elif c.opt_kw("if"):
            c.kw("let", "Some"); c.p("("); v = c.ident(); c.p(")", "="); c.kw("self"); c.p("."); f = c.ident()
            c.p("{"); c.kw("result"); c.p("."); c.kw("push"); c.p("(")
            if c.ident() != v: c.fail("binder")
            c.p(")", ";", "}")
            out.append(("optPush", f))
        elif c.opt_kw("for"):
            v = c.ident(); c.kw("in"); c.p("&"); c.kw("self"); c.p("."); c.kw("operands"); c.p("{")
            if c.ident() != v: c.fail("binder")
            c.p("."); c.kw("assemble_into"); c.p("("); c.kw("result"); c.p(")", ";", "}")
            out.append(("eachOperand",))
        elif c.at_id("result") and c.at_p(".", 1):
            c.seq("result . push ( self . class . opcode as u32 ) ;")
            out.append(("pushOpcode",))
        elif c.at_id("result") and c.at_p("[", 1):
            c.seq("result [ start ] |= ( end as u32 ) < <"); sh = c.num(); c.p(";")
            out.append(("patch", sh))
        else:
            c.fail("unexpected statement in Instruction::assemble_into")
    return out


def parse(constructs_text, assemble_text):
    f1, f2 = "rspirv/dr/constructs.rs", "rspirv/binary/assemble.rs"
    t1, t2 = tokenize(constructs_text, f1), tokenize(assemble_text, f2)
    R = {}
    for name, mut in (("global_inst_iter", False), ("global_inst_iter_mut", True), ("all_inst_iter", False), ("all_inst_iter_mut", True)):
        c, end = find_fn(t1, f1, name)
        R[name] = chain(c, mut)
    # Function::all_inst_iter is the second `fn all_inst_iter` of the file
    _, e1 = find_fn(t1, f1, "all_inst_iter")
    c, _ = find_fn(t1, f1, "all_inst_iter", after=e1)
    R["fn_all_inst_iter"] = fn_chain(c, False)
    _, e2 = find_fn(t1, f1, "all_inst_iter_mut")
    c, _ = find_fn(t1, f1, "all_inst_iter_mut", after=e2)
    R["fn_all_inst_iter_mut"] = fn_chain(c, True)
    for ty in ("Block", "Function", "Module"):
        j = find_impl(t2, f2, "Assemble", ty)
        c, _ = find_fn(t2, f2, "assemble_into", after=j)
        c.item = f"impl Assemble for {ty}"
        R["asm_" + ty] = asm_stmts(c)
    j = find_impl(t2, f2, "Assemble", "Instruction")
    c, _ = find_fn(t2, f2, "assemble_into", after=j)
    c.item = "impl Assemble for dr::Instruction"
    R["asm_Instruction"] = inst_stmts(c)
    # fn assemble_str(s: &str, result: &mut Vec<u32>): statement by statement (chunk size and array length are data)
    c, _ = find_fn(t2, f2, "assemble_str")
    c.item = "fn assemble_str"
    c.seq("let chunks = s . as_bytes ( ) . chunks_exact ("); n1 = c.num(); c.seq(") ;")
    c.seq("let remainder = chunks . remainder ( ) ;")
    c.seq("let mut last = [ 0 ;"); n2 = c.num(); c.seq("] ;")
    c.seq("last [ .. remainder . len ( ) ] . copy_from_slice ( remainder ) ;")
    c.seq("result . extend ( chunks . map ( | chunk | u32 :: from_le_bytes ( chunk . try_into ( ) . unwrap ( ) ) ) ) ;")
    c.seq("result . push ( u32 :: from_le_bytes ( last ) ) ;")
    if not c.eof(): c.fail("trailing statements in assemble_str")
    R["asm_str"] = [("chunksExact", n1), ("remainder", 0), ("lastZero", n2), ("copyRemainder", 0), ("extendChunksLE", 0), ("pushLastLE", 0)]
    # the default method `Assemble::assemble`: a fresh vector handed to assemble_into
    for i in range(len(t2) - 1):
        if t2[i] == ("id", "fn") and t2[i + 1] == ("id", "assemble"):
            c = Cur(t2, f2, "Assemble::assemble"); c.i = i + 2
            while not c.at_p("{"):
                c.next()
            c = Cur(c.group("{", "}"), f2, "Assemble::assemble")
            c.seq("let mut v = vec ! [ ] ; self . assemble_into ( & mut v ) ; v")
            if not c.eof(): c.fail("trailing tokens")
            break
    else:
        raise TranslateError(f2, "Assemble::assemble", "default method not found")
    # header: result.extend([self.magic_number, self.version, self.generator, self.bound, self.reserved_word])
    j = find_impl(t2, f2, "Assemble", "ModuleHeader")
    c, _ = find_fn(t2, f2, "assemble_into", after=j)
    c.item = "impl Assemble for ModuleHeader"
    c.kw("result"); c.p("."); c.kw("extend"); c.p("(", "[")
    hdr = []
    while not c.at_p("]"):
        c.kw("self"); c.p("."); hdr.append(c.ident())
        if not c.opt_p(","): break
    c.p("]", ")"); c.opt_p(";")
    if not c.eof(): c.fail("trailing tokens")
    R["asm_header"] = hdr
    return R
