"""Strict translator for rspirv/lift/autogen_context.rs (every token) and for the field declarations of
rspirv/sr/autogen_ops.rs, autogen_types.rs, autogen_instructions.rs.

Per arm / function: opcode, constructor path, and the fields in the order of the struct literal, each with
  mode:  req (`(...).ok_or(Missing)?`) | opt | list (`while let Some(item) = match operands.next()`) | pairs
  variant(s) of dr::Operand it accepts, and the value transform:
  copy (`*value`), clone (`value.clone()`), type_token (`self.types.lookup_token`), const_token, member
  (`StructMember::new(self.types.lookup_token(..))`), jump (`self.lookup_jump`).
"""
from rusttok import tokenize, Cur, TranslateError

FILE = "rspirv/lift/autogen_context.rs"


def _transform(c, var):
    """the expression built from the bound variable `var` (value / first / second)"""
    if c.opt_p("*"):
        if c.ident() != var: c.fail("unexpected binding")
        return "copy"
    if c.at_id(var):
        c.ident()
        if c.at_p("."):
            c.seq(". clone ( )")
            return "clone"
        return "copy"
    if c.at_id("StructMember"):
        c.seq("StructMember :: new ( self . types . lookup_token ( *")
        if c.ident() != var: c.fail("unexpected binding")
        c.seq(") )")
        return "member"
    c.kw("self"); c.p(".")
    what = c.ident()
    if what == "lookup_jump":
        c.p("(")
        c.opt_p("*")
        if c.ident() != var: c.fail("unexpected binding")
        c.p(")")
        return "jump"
    if what not in ("types", "constants"): c.fail("unexpected storage " + what)
    c.seq(". lookup_token (")
    c.opt_p("*")
    if c.ident() != var: c.fail("unexpected binding")
    c.p(")")
    return "type_token" if what == "types" else "const_token"


def _single_match(c):
    """match operands.next() { Some(dr::Operand::V(value)) => Some(T), Some(_) => return Err(WrongType), None => None }"""
    c.seq("match operands . next ( ) { Some ( dr :: Operand ::"); v = c.ident()
    c.seq("( value ) ) =>")
    if c.at_p("{") and c.at_id("Some", 1):
        # rustfmt wrapped the arm body in a block
        c.p("{"); c.seq("Some (")
        t = _transform(c, "value")
        c.seq(") }"); c.opt_p(",")
        c.seq("Some ( _ ) => return Err ( OperandError :: WrongType . into ( ) ) , None => None")
        c.opt_p(","); c.p("}")
        return v, t
    if c.at_p("{"):
        # the value followed by every remaining operand, which must all be ids (image operands)
        c.seq("{ let operands = operands . map ( | op | match * op { dr :: Operand :: IdRef ( second ) => Ok ( second ) , "
              "_ => Err ( OperandError :: WrongType ) } ) . collect :: < Result < Vec < _ > , _ > > ( ) ? ; "
              "Some ( ( * value , operands ) ) }")
        t = "with_rest_ids"
        c.opt_p(",")
        c.seq("Some ( _ ) => return Err ( OperandError :: WrongType . into ( ) ) , None => None")
        c.opt_p(","); c.p("}")
        return v, t
    c.seq("Some (")
    t = _transform(c, "value")
    c.seq(") , Some ( _ ) => return Err ( OperandError :: WrongType . into ( ) ) , None => None")
    c.opt_p(","); c.p("}")
    return v, t


def _field_value(c):
    if c.at_p("("):
        c.p("(")
        v, t = _single_match(c)
        c.seq(") . ok_or ( OperandError :: Missing ) ?")
        return {"mode": "req", "variants": [v], "transforms": [t]}
    if c.at_id("match"):
        v, t = _single_match(c)
        return {"mode": "opt", "variants": [v], "transforms": [t]}
    c.seq("{ let mut vec = Vec :: new ( ) ; while let Some ( item ) =")
    if c.at_id("match") and c.at_p("(", 1):
        c.seq("match ( operands . next ( ) , operands . next ( ) ) { ( Some ( & dr :: Operand ::"); v1 = c.ident()
        c.seq("( first ) ) , Some ( & dr :: Operand ::"); v2 = c.ident()
        c.seq("( second ) )"); c.opt_p(","); c.p(")")
        # the arm body is either `Some((first, second))` or wrapped in a block by rustfmt
        c.p("=>")
        braced = c.opt_p("{")
        c.seq("Some ( (")
        t1 = _transform(c, "first"); c.p(",")
        t2 = _transform(c, "second")
        c.seq(") )")
        if braced: c.p("}")
        c.opt_p(",")
        c.seq("( None , None ) => None , _ => return Err ( OperandError :: WrongType . into ( ) )"); c.opt_p(","); c.p("}")
        res = {"mode": "pairs", "variants": [v1, v2], "transforms": [t1, t2]}
    else:
        v, t = _single_match(c)
        res = {"mode": "list", "variants": [v], "transforms": [t]}
    c.seq("{ vec . push ( item ) ; } vec }")
    return res


def _ctor(c):
    """Ok(<path> { fields }) or Ok(<path>)  -> (path, fields)"""
    c.seq("Ok (")
    path = [c.ident()]
    while c.opt_p("::"):
        path.append(c.ident())
    fields = []
    if c.opt_p("{"):
        while not c.at_p("}"):
            name = c.ident(); c.p(":")
            f = _field_value(c)
            f["name"] = name
            fields.append(f)
            if not c.opt_p(","): break
        c.p("}")
    c.p(")")
    return "::".join(path), fields


def _match_fn(c, name, ret_tokens, fallback):
    """pub fn <name>(&mut self, raw: &dr::Instruction) -> Result<..> { let mut operands = ..; match raw.class.opcode as u32 { arms } }"""
    c.item = name
    c.seq("( & mut self , raw : & dr :: Instruction"); c.opt_p(","); c.seq(") -> Result <")
    c.seq(ret_tokens); c.seq(", InstructionError > {")
    c.seq("let mut operands = raw . operands . iter ( ) ; match raw . class . opcode as u32 {")
    arms = []
    while not c.at_p("_"):
        op = c.num("u32"); c.item = f"{name}:{op}"; c.p("=>")
        path, fields = _ctor(c)
        c.opt_p(",")
        arms.append({"opcode": op, "ctor": path, "fields": fields})
    c.p("_"); c.p("=>")
    c.seq(fallback); c.opt_p(","); c.seq("} }")
    return arms


def parse(text):
    c = Cur(tokenize(text, FILE), FILE)
    c.seq("impl LiftContext {")
    R = {}
    c.kw("pub", "fn")
    if c.ident() != "lift_branch": c.fail("expected lift_branch")
    R["lift_branch"] = _match_fn(c, "lift_branch", "ops :: Branch", "Err ( InstructionError :: WrongOpcode )")
    c.kw("pub", "fn")
    if c.ident() != "lift_terminator": c.fail("expected lift_terminator")
    R["lift_terminator"] = _match_fn(c, "lift_terminator", "ops :: Terminator",
                                     "self . lift_branch ( raw ) . map ( ops :: Terminator :: Branch )")
    c.skip_attrs()
    c.kw("pub", "fn")
    if c.ident() != "lift_op": c.fail("expected lift_op")
    R["lift_op"] = _match_fn(c, "lift_op", "ops :: Op", "Err ( InstructionError :: WrongOpcode )")
    c.skip_attrs()
    c.kw("pub", "fn")
    if c.ident() != "lift_type": c.fail("expected lift_type")
    R["lift_type"] = _match_fn(c, "lift_type", "Type", "Err ( InstructionError :: WrongOpcode )")
    single = {}
    while not c.at_p("}"):
        c.skip_attrs()
        c.kw("pub", "fn"); name = c.ident(); c.item = name
        c.seq("( & mut self , raw : & dr :: Instruction"); c.opt_p(","); c.seq(") -> Result < instructions ::"); ty = c.ident()
        c.seq(", InstructionError > { if raw . class . opcode as u32 !="); op = c.num("u32")
        c.seq("{ return Err ( InstructionError :: WrongOpcode ) ; }")
        if c.at_id("let"):
            c.seq("let mut operands = raw . operands . iter ( ) ;")
        path, fields = _ctor(c)
        c.p("}")
        if path != "instructions::" + ty: c.fail("constructs a different type than it returns")
        single[name] = {"opcode": op, "ctor": path, "fields": fields}
    c.p("}")
    if not c.eof(): c.fail("trailing tokens")
    R["single"] = single
    return R


def _type_str(c):
    """a field type up to the next top-level `,` or `}`: returned as a token string"""
    out, depth = [], 0
    while True:
        t = c.peek()
        if t[0] == "p" and t[1] in ("<", "("):
            depth += 1
        elif t[0] == "p" and t[1] in (">", ")"):
            depth -= 1
        elif t[0] == "p" and t[1] in (",", "}") and depth == 0:
            break
        out.append(str(t[1])); c.next()
    return " ".join(out)


def parse_enum_decl(text, file, enum_name):
    """`pub enum <enum_name> { V, V { f: T, .. }, .. }` -> [(variant, [(field, type)])]; other items before it are skipped
    token-wise up to the enum keyword"""
    toks = tokenize(text, file)
    c = Cur(toks, file, enum_name)
    # find `pub enum <enum_name>`
    i = None
    for k in range(len(toks) - 2):
        if toks[k] == ("id", "enum") and toks[k + 1] == ("id", enum_name):
            i = k
            break
    if i is None:
        c.fail("enum not found")
    c.i = i
    c.kw("enum"); c.ident(); c.p("{")
    out = []
    while not c.at_p("}"):
        c.skip_attrs()
        v = c.ident(); c.item = f"{enum_name}::{v}"
        fields = []
        if c.opt_p("{"):
            while not c.at_p("}"):
                c.skip_attrs()
                f = c.ident(); c.p(":")
                fields.append((f, _type_str(c)))
                if not c.opt_p(","): break
            c.p("}")
        elif c.at_p("("):
            c.skip_group("(", ")")
            fields = None
        out.append((v, fields))
        if not c.opt_p(","): break
    c.p("}")
    return out


def parse_struct_decls(text, file):
    """every `pub struct Name { pub f: T, .. }` of autogen_instructions.rs"""
    toks = tokenize(text, file)
    c = Cur(toks, file, "structs")
    out = {}
    while not c.eof():
        c.skip_attrs()
        c.kw("pub", "struct"); name = c.ident(); c.item = name
        fields = []
        if c.opt_p(";"):
            out[name] = fields
            continue
        c.p("{")
        while not c.at_p("}"):
            c.skip_attrs()
            c.kw("pub"); f = c.ident(); c.p(":")
            fields.append((f, _type_str(c)))
            if not c.opt_p(","): break
        c.p("}")
        out[name] = fields
    return out
