"""Strict translator for spirv/autogen_spirv.rs -> python dict (then Lean data).

Accounts for every token of the file: constants, every `bitflags!` block, every enum declaration,
every `from_u32`, alias block and `FromStr` impl.  Anything else is a TranslateError.
"""
from rusttok import tokenize, Cur, TranslateError

FILE = "spirv/autogen_spirv.rs"


def parse(text):
    c = Cur(tokenize(text, FILE), FILE)
    out = {"consts": {}, "masks": [], "enums": [], "enum_by_name": {}}
    while not c.eof():
        c.item = "<top>"
        c.skip_attrs()
        if c.at_id("pub") and c.at_id("type", 1):
            c.seq("pub type Word = u32 ;")
        elif c.at_id("pub") and c.at_id("const", 1):
            c.kw("pub", "const")
            name = c.ident(); c.item = name
            c.p(":"); ty = c.ident(); c.p("=")
            v = c.num(); c.p(";")
            out["consts"][name] = (ty, v)
        elif c.at_id("bitflags"):
            out["masks"].append(parse_bitflags(c))
        elif c.at_id("pub") and c.at_id("enum", 1):
            e = parse_enum(c)
            out["enums"].append(e)
            out["enum_by_name"][e["name"]] = e
        elif c.at_id("impl"):
            parse_impl(c, out)
        else:
            c.fail("unexpected top-level item")
    for e in out["enums"]:
        for k in ("arms",):
            if k not in e:
                raise TranslateError(FILE, e["name"], "enum without from_u32")
    return out


def parse_bitflags(c):
    c.kw("bitflags"); c.p("!", "{")
    c.skip_attrs()
    c.kw("pub", "struct")
    name = c.ident(); c.item = "bitflags " + name
    c.p(":"); c.kw("u32"); c.p("{")
    consts = []
    while not c.at_p("}"):
        c.skip_attrs()
        c.kw("const"); n = c.ident(); c.p("="); v = c.num("u32"); c.p(";")
        consts.append((n, v))
    c.p("}", "}")
    return {"name": name, "consts": consts}


def parse_enum(c):
    c.kw("pub", "enum")
    name = c.ident(); c.item = "enum " + name
    c.p("{")
    decl = []
    while not c.at_p("}"):
        c.skip_attrs()
        n = c.ident(); c.p("="); v = c.num()
        decl.append((n, v))
        if not c.opt_p(","):
            break
    c.p("}")
    return {"name": name, "decl": decl, "aliases": [], "fromstr": None}


def parse_impl(c, out):
    c.kw("impl")
    if c.at_id("core"):
        c.seq("core :: str :: FromStr for")
        name = c.ident(); c.item = "FromStr for " + name
        e = out["enum_by_name"].get(name) or c.fail("FromStr for unknown enum")
        c.seq("{ type Err = ( ) ; fn from_str ( s : & str ) -> Result < Self , Self :: Err > { Ok ( match s {")
        rows = []
        while not c.at_p("_"):
            s = c.string(); c.p("=>")
            if c.opt_p("{"):      # rustfmt wraps long arms in a block
                c.seq("Self ::"); v = c.ident(); c.p("}"); c.opt_p(",")
            else:
                c.seq("Self ::"); v = c.ident(); c.opt_p(",")
            rows.append((s, v))
        c.seq("_ => return Err ( ( ) )"); c.opt_p(","); c.seq("} ) } }")
        if e["fromstr"] is not None:
            c.fail("duplicate FromStr")
        e["fromstr"] = rows
        return
    name = c.ident(); c.item = "impl " + name
    e = out["enum_by_name"].get(name) or c.fail("impl for unknown enum")
    c.p("{")
    if c.at_p("}"):
        c.p("}")
        return
    if c.at_id("pub") and c.at_id("fn", 1):
        c.item = name + "::from_u32"
        c.seq("pub fn from_u32 ( n : u32 ) -> Option < Self > { Some ( match n {")
        arms = []
        while not c.at_p("_"):
            lo = c.num()
            if c.opt_p("..="):
                hi = c.num(); c.p("=>")
                c.seq("unsafe { core :: mem :: transmute :: < u32 ,"); t = c.ident()
                if t != name: c.fail("transmute to a different type")
                c.seq("> ( n ) }")
                arms.append(("range", lo, hi))
            else:
                c.p("=>")
                if c.at_id("unsafe"):
                    c.seq("unsafe { core :: mem :: transmute :: < u32 ,"); t = c.ident()
                    if t != name: c.fail("transmute to a different type")
                    c.seq("> ("); k = c.num(); c.seq(") }")
                    arms.append(("lit", lo, k))
                else:
                    c.seq("Self ::"); v = c.ident()
                    arms.append(("named", lo, v))
            c.opt_p(",")
        c.seq("_ => return None"); c.opt_p(","); c.seq("} ) } }")
        if "arms" in e: c.fail("duplicate from_u32")
        e["arms"] = arms
        return
    # alias block
    c.item = name + " aliases"
    while not c.at_p("}"):
        c.kw("pub", "const"); a = c.ident(); c.p(":")
        t = c.ident()
        if t not in ("Self", name): c.fail("alias of a different type")
        c.p("=")
        t2 = c.ident()
        if t2 not in ("Self", name): c.fail("alias target of a different type")
        c.p("::"); v = c.ident(); c.p(";")
        e["aliases"].append((a, v))
    c.p("}")
