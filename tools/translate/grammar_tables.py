"""Strict translator for rspirv/grammar/autogen_table.rs, autogen_glsl_std_450.rs, autogen_opencl_std_100.rs."""
from rusttok import tokenize, Cur, TranslateError

QUANTS = ("One", "ZeroOrOne", "ZeroOrMore")


def _ident_list(c):
    c.p("[")
    xs = []
    while not c.at_p("]"):
        xs.append(c.ident())
        if not c.opt_p(","):
            break
    c.p("]")
    return xs


def _str_list(c):
    c.p("[")
    xs = []
    while not c.at_p("]"):
        xs.append(c.string())
        if not c.opt_p(","):
            break
    c.p("]")
    return xs


def _operands(c):
    c.p("[")
    ops = []
    while not c.at_p("]"):
        c.p("("); k = c.ident(); c.p(","); q = c.ident(); c.p(")")
        if q not in QUANTS:
            c.fail(f"unknown quantifier {q}")
        ops.append((k, q))
        if not c.opt_p(","):
            break
    c.p("]")
    return ops


def parse_core(text):
    file = "rspirv/grammar/autogen_table.rs"
    c = Cur(tokenize(text, file), file)
    c.skip_attrs()
    c.item = "OperandKind"
    c.seq("pub enum OperandKind {")
    kinds = []
    while not c.at_p("}"):
        kinds.append(c.ident())
        if not c.opt_p(","):
            break
    c.p("}")
    c.item = "INSTRUCTION_TABLE"
    c.skip_attrs()
    c.seq("static INSTRUCTION_TABLE : & [ Instruction <"); 
    if c.next() != ("life", "static"): c.fail("expected 'static")
    c.seq("> ] = & [")
    rows = []
    while not c.at_p("]"):
        c.kw("inst"); c.p("!", "(")
        name = c.ident(); c.item = "inst!(" + name + ")"
        c.p(","); caps = _ident_list(c); c.p(","); exts = _str_list(c); c.p(","); ops = _operands(c)
        c.opt_p(",")
        c.p(")")
        rows.append({"name": name, "caps": caps, "exts": exts, "ops": ops})
        if not c.opt_p(","):
            break
    c.p("]", ";")
    if not c.eof():
        c.fail("trailing tokens after the table")
    for r in rows:
        for k, _ in r["ops"]:
            if k not in kinds:
                raise TranslateError(file, r["name"], f"unknown operand kind {k}")
    return kinds, rows


def parse_ext(text, file, static_name):
    c = Cur(tokenize(text, file), file)
    c.item = static_name
    c.skip_attrs()
    c.kw("static"); n = c.ident()
    if n != static_name: c.fail("unexpected table name")
    c.seq(": & [ ExtendedInstruction <")
    if c.next() != ("life", "static"): c.fail("expected 'static")
    c.seq("> ] = & [")
    rows = []
    while not c.at_p("]"):
        c.kw("ext_inst"); c.p("!", "(")
        name = c.ident(); c.item = "ext_inst!(" + name + ")"
        c.p(","); opcode = c.num("u32")
        c.p(","); caps = _ident_list(c); c.p(","); exts = _str_list(c); c.p(","); ops = _operands(c)
        c.opt_p(",")
        c.p(")")
        rows.append({"name": name, "opcode": opcode, "caps": caps, "exts": exts, "ops": ops})
        if not c.opt_p(","):
            break
    c.p("]", ";")
    if not c.eof():
        c.fail("trailing tokens after the table")
    return rows


# The two macros and the lookup functions of syntax.rs are hand-written; the translator's reading of
# `inst!(Name, ..)` as (opname = "Name", opcode = spirv::Op::Name) is validated on every run by the
# extractor, which reads the same tables through their public iter() and must agree row for row.
