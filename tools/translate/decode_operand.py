"""Strict translator for rspirv/binary/autogen_decode_operand.rs: per generated Decoder method, the spirv type,
whether it goes through from_u32 (enum) or from_bits (mask), and the error variant."""
from rusttok import tokenize, Cur, TranslateError

FILE = "rspirv/binary/autogen_decode_operand.rs"


def parse(text):
    c = Cur(tokenize(text, FILE), FILE)
    c.kw("impl", "Decoder"); c.p("<")
    if c.next() != ("life", "_"): c.fail("expected '_")
    c.p(">", "{")
    out = []
    while not c.at_p("}"):
        c.skip_attrs()
        c.kw("pub", "fn"); name = c.ident(); c.item = name
        c.seq("( & mut self ) -> Result < spirv ::"); ty = c.ident(); c.seq("> {")
        c.seq("if let Ok ( word ) = self . word ( ) {")
        c.seq("spirv ::")
        if c.ident() != ty: c.fail("decodes a different type than it returns")
        c.p("::"); conv = c.ident()
        if conv not in ("from_u32", "from_bits"): c.fail(f"unexpected conversion {conv}")
        c.seq("( word ) . ok_or ( Error ::"); err = c.ident()
        c.seq("( self . offset - WORD_NUM_BYTES , word"); c.opt_p(","); c.p(")"); c.opt_p(","); c.p(")")
        c.seq("} else { Err ( Error :: StreamExpected ( self . offset ) ) } }")
        out.append({"method": name, "type": ty, "mask": conv == "from_bits", "error": err})
    c.p("}")
    if not c.eof(): c.fail("trailing tokens")
    return out
