"""Strict translator for rspirv/binary/autogen_parse_operand.rs.

parse_operand: kind -> ('elems', [(Variant, method)...]) | ('with_params', (Variant, method), args_fn) | ('panic',)
parse_<kind>_arguments: mask form  [(FLAG, [(Variant, method)...])...]   (`if x.contains(spirv::K::FLAG)`)
                        enum form  [(Enumerant, [(Variant, method)...])...] + default []  (first matching arm)
"""
from rusttok import tokenize, Cur, TranslateError

FILE = "rspirv/binary/autogen_parse_operand.rs"


def elem(c):
    c.seq("dr :: Operand ::"); v = c.ident(); c.seq("( self . decoder ."); m = c.ident(); c.seq("( ) ? )")
    return (v, m)


def vec_elems(c):
    c.kw("vec"); c.p("!", "[")
    es = []
    while not c.at_p("]"):
        es.append(elem(c))
        if not c.opt_p(","):
            break
    c.p("]")
    return es


def parse(text):
    c = Cur(tokenize(text, FILE), FILE)
    c.kw("impl", "Parser"); c.p("<")
    if c.next() != ("life", "_"): c.fail("'_")
    c.p(",")
    if c.next() != ("life", "_"): c.fail("'_")
    c.p(">", "{")
    c.item = "parse_operand"
    c.seq("fn parse_operand ( & mut self , kind : GOpKind ) -> Result < Vec < dr :: Operand > > { Ok ( match kind {")
    kinds = {}
    while not c.at_p("}"):
        c.seq("GOpKind ::"); k = c.ident(); c.item = "parse_operand::" + k; c.p("=>")
        if k in kinds: c.fail("duplicate arm")
        if c.at_id("panic"):
            c.kw("panic"); c.p("!", "(", ")")
            kinds[k] = ("panic",)
        elif c.at_id("vec"):
            kinds[k] = ("elems", vec_elems(c))
        else:
            c.p("{")
            if c.at_id("vec"):
                kinds[k] = ("elems", vec_elems(c))
            else:
                c.seq("let val = self . decoder ."); m = c.ident(); c.seq("( ) ? ;")
                c.seq("let mut ops = vec ! [ dr :: Operand ::"); v = c.ident(); c.seq("( val ) ] ;")
                c.seq("ops . append ( & mut self ."); fn = c.ident(); c.seq("( val ) ? ) ; ops")
                kinds[k] = ("with_params", (v, m), fn)
            c.p("}")
        c.opt_p(",")
    c.seq("} ) }")
    fns = {}
    while not c.at_p("}"):
        c.skip_attrs()
        c.kw("fn"); fn = c.ident(); c.item = fn
        c.seq("( & mut self ,"); arg = c.ident(); c.seq(": spirv ::"); ty = c.ident()
        c.seq(") -> Result < Vec < dr :: Operand > > {")
        if c.at_id("let"):
            c.seq("let mut params = vec ! [ ] ;")
            rows = []
            while c.at_id("if"):
                c.kw("if")
                if c.ident() != arg: c.fail("tests a different variable")
                c.seq(". contains ( spirv ::")
                if c.ident() != ty: c.fail("flag of a different mask type")
                c.p("::"); flag = c.ident(); c.seq(") {")
                c.seq("params . append ( & mut"); es = vec_elems(c); c.seq(") ; }")
                rows.append((flag, es))
            c.seq("Ok ( params ) }")
            fns[fn] = ("mask", ty, rows)
        else:
            c.seq("Ok ( match"); 
            if c.ident() != arg: c.fail("matches a different variable")
            c.p("{")
            rows = []
            while not c.at_p("_"):
                c.seq("spirv ::")
                if c.ident() != ty: c.fail("enumerant of a different type")
                c.p("::"); en = c.ident(); c.p("=>")
                if c.opt_p("{"):
                    es = vec_elems(c); c.p("}")
                else:
                    es = vec_elems(c)
                c.opt_p(",")
                rows.append((en, es))
            c.seq("_ => vec ! [ ]"); c.opt_p(","); c.seq("} ) }")
            fns[fn] = ("enum", ty, rows)
    c.p("}")
    if not c.eof(): c.fail("trailing tokens")
    for k, a in kinds.items():
        if a[0] == "with_params" and a[2] not in fns:
            raise TranslateError(FILE, k, f"calls unknown {a[2]}")
    return kinds, fns
