"""Strict translator for the generated Builder methods (rspirv/dr/build/autogen_{type,constant,annotation,debug,
terminator,norm_insts}.rs). Every method body must be one of the statement templates autogen/src/dr.rs emits."""
from rusttok import tokenize, Cur, TranslateError

FILES = ["autogen_type.rs", "autogen_constant.rs", "autogen_annotation.rs", "autogen_debug.rs", "autogen_terminator.rs",
         "autogen_norm_insts.rs"]
SECTIONS = ["capabilities", "extensions", "ext_inst_imports", "memory_model", "entry_points", "execution_modes",
            "debug_string_source", "debug_names", "debug_module_processed", "annotations", "types_global_values"]


def ptype(c):
    """parameter type shape"""
    if c.opt_kw("InsertPoint"):
        return ("insert_point",)
    if c.opt_kw("u32"):
        return ("u32",)
    if c.at_id("spirv"):
        c.seq("spirv ::"); t = c.ident()
        return ("word",) if t == "Word" else ("spirv", t)
    if c.opt_kw("Option"):
        c.p("<"); inner = ptype(c); c.p(">")
        return ("opt", inner)
    if c.opt_kw("impl"):
        k = c.ident()
        if k == "Into":
            c.seq("< String >")
            return ("string",)
        if k == "IntoIterator":
            c.seq("< Item =")
            if c.opt_p("("):
                a = itype(c); c.p(","); b = itype(c); c.p(")")
                it = ("pair", a, b)
            else:
                it = itype(c)
            c.p(">")
            return ("iter", it)
        c.fail("unexpected impl bound")
    c.fail("unexpected parameter type")


def itype(c):
    if c.opt_kw("u32"):
        return ("u32",)
    if c.at_id("spirv"):
        c.seq("spirv ::"); t = c.ident()
        return ("word",) if t == "Word" else ("spirv", t)
    if c.at_id("dr"):
        c.seq("dr :: Operand")
        return ("operand",)
    c.fail("unexpected iterator item type")


def operand_elem(c):
    """dr::Operand::V(x) | dr::Operand::V(x.into()) -> (V, param)"""
    c.seq("dr :: Operand ::"); v = c.ident(); c.p("("); p = c.ident()
    if c.opt_p("."):
        c.seq("into ( )")
    c.p(")")
    return (v, p)


def opt_word(c):
    """None | Some(x) | x  -> ('none',) | ('some', x) | ('var', x)"""
    if c.opt_kw("None"):
        return ("none",)
    if c.opt_kw("Some"):
        c.p("("); x = c.ident(); c.p(")")
        return ("some", x)
    return ("var", c.ident())


def parse_method(c, file):
    c.skip_attrs()
    c.kw("pub", "fn"); name = c.ident(); c.item = name
    c.seq("( & mut self")
    params = []
    while c.opt_p(","):
        pn = c.ident(); c.p(":"); params.append((pn, ptype(c)))
    c.p(")")
    ret = "none"
    if c.opt_p("->"):
        if c.opt_kw("BuildResult"):
            c.p("<")
            if c.opt_p("("):
                c.p(")"); ret = "result_unit"
            else:
                c.seq("spirv :: Word"); ret = "result_id"
            c.p(">")
        else:
            c.seq("spirv :: Word"); ret = "id"
    c.p("{")
    m = {"name": name, "params": params, "ret": ret, "file": file}
    # A. wrapper:  self.<name>_id(None, args...)
    if c.at_id("self") and c.at_p(".", 1) and c.peek(2)[0] == "id" and c.at_p("(", 3):
        c.kw("self"); c.p("."); callee = c.ident(); c.p("("); c.kw("None")
        args = []
        while c.opt_p(","):
            args.append(c.ident())
        c.p(")", "}")
        m.update(kind="wrapper", callee=callee, args=args)
        return m
    m["kind"] = "emit"
    idrule = None
    # B. id allocation
    if c.at_id("let") and c.at_id("id", 1):
        c.seq("let id = self . id ( ) ;"); idrule = ("fresh", "id")
    elif c.at_id("let") and c.at_id("_id", 1):
        c.seq("let _id ="); pn = c.ident(); c.seq(". unwrap_or_else ( || self . id ( ) ) ;")
        idrule = ("param_or_fresh", pn)
    c.skip_attrs()
    # C. instruction
    c.seq("let mut inst = dr :: Instruction :: new ( spirv :: Op ::"); m["opname"] = c.ident(); c.p(",")
    rt = opt_word(c); c.p(","); rid = opt_word(c); c.p(",")
    c.kw("vec"); c.p("!", "[")
    init = []
    while not c.at_p("]"):
        init.append(operand_elem(c))
        if not c.opt_p(","):
            break
    c.p("]", ")", ";")
    m["rtype"] = rt
    m["rid_expr"] = rid
    m["init"] = init
    # D. extras
    extras = []
    while True:
        if c.at_id("if") and c.at_id("let", 1) and c.at_id("Some", 2) and c.at_id("v", 4):
            c.seq("if let Some ( v ) ="); p = c.ident(); c.seq("{ inst . operands . push ( dr :: Operand ::"); v = c.ident()
            c.p("(")
            c.kw("v")
            into = False
            if c.opt_p("."):
                c.seq("into ( )"); into = True
            c.seq(") ) ; }")
            extras.append(("opt", v, p))
        elif c.at_id("inst") and c.at_id("operands", 2) and c.at_id("extend", 4):
            c.seq("inst . operands . extend (")
            p = c.ident()
            if c.opt_p("."):
                c.seq("into_iter ( ) . map ( dr :: Operand ::"); v = c.ident(); c.seq(") ) ;")
                extras.append(("many", v, p))
            else:
                c.seq(") ;")
                extras.append(("raw", p))
        elif c.at_id("for"):
            c.seq("for v in"); p = c.ident(); c.p("{")
            parts = []
            for _ in range(2):
                c.seq("inst . operands . push (")
                if c.at_id("v"):
                    c.kw("v"); c.p("."); idx = c.num(); c.seq(") ;")
                    parts.append(("raw", idx))
                else:
                    c.seq("dr :: Operand ::"); v = c.ident(); c.seq("( v ."); idx = c.num(); c.seq(") ) ;")
                    parts.append((v, idx))
            c.p("}")
            extras.append(("pairs", parts, p))
        else:
            break
    m["extras"] = extras
    # E. sink
    if c.at_id("if"):
        c.seq("if let Some ( result_id ) = result_id { self . module . types_global_values . push ( inst ) ; result_id }")
        c.seq("else if let Some ( id ) = self . dedup_insert_type ( & inst ) { id }")
        c.seq("else { let new_id = self . id ( ) ; inst . result_id = Some ( new_id ) ;")
        c.seq("self . module . types_global_values . push ( inst ) ; new_id }")
        m["sink"] = ("dedup",)
        idrule = ("dedup", "result_id")
        tail = "id"
    else:
        c.kw("self"); c.p(".")
        w = c.ident()
        if w == "module":
            c.p("."); sec = c.ident()
            if sec not in SECTIONS: c.fail("unknown section " + sec)
            c.seq(". push ( inst ) ;")
            m["sink"] = ("section", sec)
            tail = None
            if c.at_id("id"):
                c.kw("id"); tail = "id"
        elif w == "insert_into_block":
            c.p("(")
            if c.opt_kw("InsertPoint"):
                c.seq(":: End"); at_end = True
            else:
                c.kw("insert_point"); at_end = False
            c.seq(", inst ) ? ;")
            m["sink"] = ("block", at_end)
            c.kw("Ok"); c.p("(")
            if c.opt_p("("):
                c.p(")"); tail = "ok_unit"
            else:
                c.kw("_id"); tail = "ok_id"
            c.p(")")
        elif w == "end_block":
            c.seq("( inst )"); m["sink"] = ("end_block", True); tail = "passthrough"
        elif w == "insert_end_block":
            c.seq("( insert_point , inst )"); m["sink"] = ("end_block", False); tail = "passthrough"
        else:
            c.fail("unexpected sink")
    c.p("}")
    m["idrule"] = idrule
    m["tail"] = tail
    # consistency of the pieces the template leaves open
    if rid[0] == "some":
        if idrule is None or rid[1] != {"fresh": "id", "param_or_fresh": "_id"}.get(idrule[0]):
            raise TranslateError(file, name, "result id expression does not name the allocated id")
    if rid[0] == "var" and not (m["sink"] == ("dedup",) and rid[1] == "result_id"):
        raise TranslateError(file, name, "unexpected result id expression")
    if idrule and idrule[0] in ("fresh", "param_or_fresh") and rid[0] != "some":
        raise TranslateError(file, name, "allocated id is not used as the result id")
    want = {"id": ("id",), "ok_id": ("result_id",), "ok_unit": ("result_unit",), "passthrough": ("result_unit",), None: ("none",)}[tail]
    if ret not in want:
        raise TranslateError(file, name, f"return type {ret} does not fit the body ({tail})")
    if (m["sink"][0] in ("block", "end_block") and not m["sink"][1]) != any(t == ("insert_point",) for _, t in params):
        raise TranslateError(file, name, "insert_point parameter and sink disagree")
    return m


def parse_file(text, file):
    c = Cur(tokenize(text, file), file)
    c.skip_attrs()
    c.kw("impl", "Builder"); c.p("{")
    out = []
    while not c.at_p("}"):
        out.append(parse_method(c, file))
    c.p("}")
    if not c.eof():
        c.fail("trailing tokens")
    return out


def parse_all(read):
    out = []
    for f in FILES:
        path = "rspirv/dr/build/" + f
        out += parse_file(read(path), path)
    return out
