"""Generator of modules in the subset the lifter handles (C18): declared-before-use scalar / vector / matrix / pointer /
array / struct / function types, 32-bit constants and composites, functions whose blocks hold result-producing
instructions, phis and non-switch terminators. Instructions are produced from the *lift* field tables, so that every
operand position is exercised with distinct values (a field fed from the wrong position shows)."""
import instgen
from instgen import Inst, Op

PARAM_FN = {"ImageOperands": "parse_image_operands_arguments", "LoopControl": "parse_loop_control_arguments",
            "MemoryAccess": "parse_memory_access_arguments", "TensorAddressingOperands": "parse_tensor_addressing_operands_arguments",
            "ExecutionMode": "parse_execution_mode_arguments", "Decoration": "parse_decoration_arguments"}


class LiftGen:
    def __init__(self, T, rnd, specclass):
        self.T, self.rnd = T, rnd
        self.g = instgen.Gen(T, rnd)
        block_names = {r["name"] for r in instgen.ModuleGen(self.g, specclass).block_ops}
        hdr = T["header"]
        self.enums = {e["name"]: e for e in hdr["enums"]}
        self.masks = {m["name"]: m for m in hdr["masks"]}
        self.vix = self.g.vix
        self.payload = dict(T["operand_enum"])
        self.pk, self.pf = T["parse_operand"]
        R, _ = T["lift"]
        self.R = R
        kinds, core = T["core"]
        self.by_opcode = {self.g.opv[r["name"]]: r for r in core}
        ctx = ("LiteralContextDependentNumber", "PairLiteralIntegerIdRef", "LiteralSpecConstantOpInteger")
        self.op_arms = [a for a in R["lift_op"]
                        if a["opcode"] in self.by_opcode
                        and any(k == "IdResult" for k, _ in self.by_opcode[a["opcode"]]["ops"])
                        and not any(k in ctx for k, _ in self.by_opcode[a["opcode"]]["ops"])
                        and self.by_opcode[a["opcode"]]["name"] in block_names]
        self.cursor = {}
        self.arm_cursor = 0
        self.counter = 100

    def distinct(self):
        self.counter += 1
        return self.counter

    def plain_values(self, ty):
        """values of an enum / mask type that carry no parameters"""
        if ty in self.masks:
            consts = dict(self.masks[ty]["consts"])
            bits = sorted({b for b in consts.values() if b and b & (b - 1) == 0})
            if ty in PARAM_FN:
                rows = self.pf[PARAM_FN[ty]][2]
                withp = {consts[f] for f, _ in rows}
                bits = [b for b in bits if b not in withp]
            vals = [0] + bits + ([bits[0] | bits[-1]] if len(bits) > 1 else [])
            return vals
        e = self.enums[ty]
        vals = sorted({v for _, v in e["decl"]})
        if ty in PARAM_FN:
            rows = self.pf[PARAM_FN[ty]][2]
            by = dict(e["decl"])
            for a, t in e["aliases"]:
                by[a] = by[t]
            withp = {by[n] for n, _ in rows}
            vals = [v for v in vals if v not in withp]
        return vals

    def operand(self, variant, transform, env):
        vi = self.vix[variant]
        if transform in ("type_token", "member"):
            return Op("w", vi, self.rnd.choice(env["types"]))
        if transform == "const_token":
            return Op("w", vi, self.rnd.choice(env["consts"])) if env["consts"] else None
        if transform == "jump":
            return None
        pl = self.payload[variant]
        if pl == "word":
            return Op("w", vi, self.distinct())
        if pl == "u32":
            return Op("w", vi, self.distinct())
        if pl == "u64":
            return None
        if pl == "string":
            return Op("s", vi, list(self.rnd.choice([b"a", b"main", b"xyz12"])))
        if pl == "op":
            return None
        ty = pl[7:]
        vals = self.plain_values(ty)
        if not vals:
            return None
        c = self.cursor.get(ty, 0)
        self.cursor[ty] = c + 1
        return Op("w", vi, vals[c % len(vals)])

    def from_fields(self, arm, env, rtype, rid):
        """an instruction whose operands are laid out field by field; None if a field cannot be produced here"""
        ops = []
        fields = arm["fields"]
        absent = False
        for f in fields:
            if f["mode"] == "req":
                if f["transforms"][0] == "with_rest_ids":
                    return None
                o = self.operand(f["variants"][0], f["transforms"][0], env)
                if o is None:
                    return None
                ops.append(o)
            elif f["mode"] == "opt":
                if absent or self.rnd.random() < 0.4:
                    absent = True
                    continue
                if f["transforms"][0] == "with_rest_ids":
                    o = self.operand(f["variants"][0], "copy", env)
                    if o is None:
                        return None
                    ops.append(o)
                    absent = True          # image operands swallow the rest; ids only when the mask has parameters: none here
                    continue
                o = self.operand(f["variants"][0], f["transforms"][0], env)
                if o is None:
                    return None
                ops.append(o)
            elif f["mode"] == "list":
                if absent:
                    continue
                for _ in range(self.rnd.choice([0, 1, 3])):
                    o = self.operand(f["variants"][0], f["transforms"][0], env)
                    if o is None:
                        return None
                    ops.append(o)
            else:
                if absent:
                    continue
                for _ in range(self.rnd.choice([0, 1, 2])):
                    a = self.operand(f["variants"][0], f["transforms"][0], env)
                    b = self.operand(f["variants"][1], f["transforms"][1], env)
                    if a is None or b is None:
                        return None
                    ops += [a, b]
        e = self.by_opcode[arm["opcode"]]
        return Inst(arm["opcode"], e["name"], rtype, rid, ops)

    def module(self, nops=6):
        """(instructions, expectation) where expectation describes what C18 demands of the lifted module"""
        g, rnd = self.g, self.rnd
        E = {r["name"]: r for r in g.core}
        lit, idr = self.vix["LiteralBit32"], self.vix["IdRef"]
        nid = [0]
        # half of the modules number their declarations in increasing order (what the Builder produces); the others take their ids from a
        # shuffled pool, so a smaller id is declared after a larger one and uses refer to ids above and below (ids reserved up front,
        # hand-numbered modules, binaries of other tools): nothing in C18 depends on the numbering
        pool = None
        if rnd.random() < 0.5:
            pool = list(range(1, 600)) + [2047, 2048, 4095, 4096, 7000, 7999]
            rnd.shuffle(pool)

        def fresh():
            nid[0] += 1
            return pool[nid[0] - 1] if pool is not None and nid[0] <= len(pool) else (nid[0] if pool is None else 600 + nid[0])
        insts = []
        caps = [rnd.choice([0, 1, 2, 3, 4, 5, 6]) for _ in range(rnd.randrange(0, 4))]
        for c in caps:
            insts.append(Inst(g.opv["Capability"], "Capability", None, None, [Op("w", self.vix["Capability"], c)]))
        am, mm = rnd.choice([0, 1, 2]), rnd.choice([0, 1, 2])
        insts.append(Inst(g.opv["MemoryModel"], "MemoryModel", None, None,
                          [Op("w", self.vix["AddressingModel"], am), Op("w", self.vix["MemoryModel"], mm)]))
        types, type_kind = [], {}
        texp = []

        def ty(name, ops, kind):
            rid = fresh()
            insts.append(Inst(g.opv[name], name, None, rid, ops))
            types.append(rid); type_kind[rid] = kind
            texp.append(name[4:])
            return rid
        tvoid = ty("TypeVoid", [], "void")
        tbool = ty("TypeBool", [], "bool")
        tint = ty("TypeInt", [Op("w", lit, 32), Op("w", lit, 1)], "int")
        tuint = ty("TypeInt", [Op("w", lit, 32), Op("w", lit, 0)], "uint")
        tfloat = ty("TypeFloat", [Op("w", lit, 32)], "float")
        tvec = ty("TypeVector", [Op("w", idr, tfloat), Op("w", lit, rnd.choice([2, 3, 4]))], "vec")
        if rnd.random() < 0.7:
            ty("TypeMatrix", [Op("w", idr, tvec), Op("w", lit, rnd.choice([2, 3]))], "mat")
        if rnd.random() < 0.7:
            ty("TypePointer", [Op("w", self.vix["StorageClass"], rnd.choice([0, 1, 7])), Op("w", idr, rnd.choice(types))], "ptr")
        consts, cexp = [], []

        def const(t, v, want):
            rid = fresh()
            insts.append(Inst(g.opv["Constant"], "Constant", t, rid, [Op("w", lit, v)]))
            consts.append(rid); cexp.append(want)
            return rid
        const(tint, 0xffffffff, "Int{0=4294967295}")
        clen = const(tuint, rnd.choice([2, 3, 7]), None)
        cexp[-1] = "UInt{0=%d}" % insts[-1].ops[0].value
        fv = rnd.choice([0x3f800000, 0x40490fdb, 0])
        const(tfloat, fv, "Float{0=%d}" % fv)
        if rnd.random() < 0.6:
            rid = fresh()
            insts.append(Inst(g.opv["ConstantTrue"], "ConstantTrue", tbool, rid, []))
            consts.append(rid); cexp.append("Bool{0=1}")
        # equal values declared more than once: every declaration is a constant of its own
        for _ in range(rnd.randrange(0, 3)):
            which = rnd.randrange(4)
            if which == 0:
                const(tuint, insts[-1].ops[0].value if insts[-1].name == "Constant" and insts[-1].rtype == tuint else 7, None)
                cexp[-1] = "UInt{0=%d}" % insts[-1].ops[0].value
                const(tuint, insts[-1].ops[0].value, "UInt{0=%d}" % insts[-1].ops[0].value)
            elif which == 1:
                for _ in range(2):
                    rid = fresh()
                    insts.append(Inst(g.opv["ConstantTrue"], "ConstantTrue", tbool, rid, []))
                    consts.append(rid); cexp.append("Bool{0=1}")
            elif which == 2:
                for t in (tint, tfloat):
                    rid = fresh()
                    insts.append(Inst(g.opv["ConstantNull"], "ConstantNull", t, rid, []))
                    consts.append(rid); cexp.append("Null{}")
            else:
                const(tint, 5, "Int{0=5}")
                const(tint, 5, "Int{0=5}")
        if rnd.random() < 0.7:
            ty("TypeArray", [Op("w", idr, rnd.choice(types)), Op("w", idr, clen)], "arr")
        if rnd.random() < 0.7:
            ty("TypeStruct", [Op("w", idr, rnd.choice(types)) for _ in range(rnd.randrange(0, 3))], "struct")
        if rnd.random() < 0.6:
            # (the composite's type is any declared composite type — vector, matrix, array, struct: the lifted constant does not depend on it)
            members = [rnd.choice(consts) for _ in range(rnd.randrange(1, 4))]
            rid = fresh()
            insts.append(Inst(g.opv["ConstantComposite"], "ConstantComposite", rnd.choice([t_ for t_ in types if type_kind[t_] in ("vec", "mat", "arr", "struct")]), rid, [Op("w", idr, m) for m in members]))
            cexp.append("Composite{0=[%s]}" % ";".join("t%d" % consts.index(m) for m in members))
            consts.append(rid)
            # constants declared *after* a composite (declaration order is the order of the lifted constants whatever their form),
            # a composite of a composite, and a type that refers to such a late constant
            if rnd.random() < 0.7:
                late = const(tuint, rnd.choice([3, 5, 9]), None)
                cexp[-1] = "UInt{0=%d}" % insts[-1].ops[0].value
                if rnd.random() < 0.5:
                    const(tfloat, 0x40000000, "Float{0=%d}" % 0x40000000)
                members = [rnd.choice(consts) for _ in range(rnd.randrange(1, 4))]
                rid = fresh()
                insts.append(Inst(g.opv["ConstantComposite"], "ConstantComposite", rnd.choice([t_ for t_ in types if type_kind[t_] in ("vec", "mat", "arr", "struct")]), rid, [Op("w", idr, m) for m in members]))
                cexp.append("Composite{0=[%s]}" % ";".join("t%d" % consts.index(m) for m in members))
                consts.append(rid)
                if rnd.random() < 0.7:
                    ty("TypeArray", [Op("w", idr, rnd.choice(types)), Op("w", idr, late)], "arr")
        tfn = ty("TypeFunction", [Op("w", idr, tvoid)], "fn")
        env = {"types": types, "consts": consts}
        tok = {t: k for k, t in enumerate(types)}
        fexp, oexp = [], []
        nid[0] = max(nid[0], 60)
        for fi in range(rnd.randrange(0, 3)):
            ctl = rnd.choice([0, 1, 2, 4, 8, 5])
            fret = rnd.choice(types)
            insts.append(Inst(g.opv["Function"], "Function", fret, fresh(), [Op("w", self.vix["FunctionControl"], ctl), Op("w", idr, tfn)]))
            blocks = []
            for bi in range(rnd.randrange(1, 4)):
                insts.append(Inst(g.opv["Label"], "Label", None, fresh(), []))
                args = []
                # zero to three phis, with line information in front of, between or behind them (OpLine may appear anywhere in a block and is
                # skipped by the lifter; every phi contributes one block argument, in order)
                for _ in range(rnd.choice([0, 0, 1, 1, 2, 3])):
                    if rnd.random() < 0.3:
                        insts.append(Inst(g.opv["Line"], "Line", None, None, [Op("w", idr, 1), Op("w", lit, 2), Op("w", lit, 3)]))
                    pt = rnd.choice(types)
                    insts.append(Inst(g.opv["Phi"], "Phi", pt, fresh(), [Op("w", idr, 9000 + rnd.randrange(9)), Op("w", idr, 9100)]))
                    args.append("t%d" % tok[pt])
                for _ in range(rnd.randrange(0, nops)):
                    # sweep: every arm of lift_op in turn (every run covers the whole table), then random ones
                    if self.arm_cursor < len(self.op_arms):
                        arm = self.op_arms[self.arm_cursor]
                        self.arm_cursor += 1
                    else:
                        arm = rnd.choice(self.op_arms)
                    e = self.by_opcode[arm["opcode"]]
                    has_rt = any(k == "IdResultType" for k, _ in e["ops"])
                    i = self.from_fields(arm, env, rnd.choice(types) if has_rt else None, fresh())
                    if i is None:
                        continue
                    insts.append(i)
                    oexp.append((arm, i, tok))
                    if rnd.random() < 0.1:
                        insts.append(Inst(g.opv["Line"], "Line", None, None, [Op("w", idr, 1), Op("w", lit, 2), Op("w", lit, 3)]))
                # every non-switch terminator the lifter has an arm for (lift_branch and the three arms only lift_terminator has)
                t = rnd.choice(["Return", "Kill", "Unreachable", "ReturnValue", "Branch", "BranchConditional", "TerminateInvocation",
                                "IgnoreIntersectionKHR", "TerminateRayKHR", "EmitMeshTasksEXT"])
                if t == "EmitMeshTasksEXT":
                    tops = [Op("w", idr, self.distinct()) for _ in range(rnd.choice([3, 4]))]
                elif t == "ReturnValue":
                    tops = [Op("w", idr, self.distinct())]
                elif t == "Branch":
                    tops = [Op("w", idr, self.distinct())]
                elif t == "BranchConditional":
                    tops = [Op("w", idr, self.distinct()), Op("w", idr, self.distinct()), Op("w", idr, self.distinct())]
                else:
                    tops = []
                insts.append(Inst(g.opv[t], t, None, None, tops))
                blocks.append((args, t, [o.value for o in tops]))
            insts.append(Inst(g.opv["FunctionEnd"], "FunctionEnd", None, None, []))
            fexp.append((ctl, tok[fret], blocks))
        exp = {"caps": caps, "mm": (am, mm), "types": texp, "consts": cexp, "ops": oexp, "functions": fexp}
        return insts, exp
