"""Generator of complete, grammar-conforming Builder call histories from the translated method signatures.

Call text: `name/arg/arg/...` (see harness chan/build.rs). Arguments conform to the grammar: optional operands only as
a trailing run, parameterised mask/enum values carry their parameters in `additional_params` (only the last
parameterised operand of a call may take parameters), literal widths consistent with the parser's type tracking
(64-bit types are only used where a 64-bit literal is passed).
"""

PARAMETERISED = {"ImageOperands", "LoopControl", "MemoryAccess", "TensorAddressingOperands", "ExecutionMode", "Decoration"}
ARGS_FN = {"ImageOperands": "parse_image_operands_arguments", "LoopControl": "parse_loop_control_arguments",
           "MemoryAccess": "parse_memory_access_arguments", "TensorAddressingOperands": "parse_tensor_addressing_operands_arguments",
           "ExecutionMode": "parse_execution_mode_arguments", "Decoration": "parse_decoration_arguments"}


class BuildGen:
    def __init__(self, T, rnd):
        self.T, self.rnd = T, rnd
        hdr = T["header"]
        self.enums = {e["name"]: e for e in hdr["enums"]}
        self.masks = {m["name"]: m for m in hdr["masks"]}
        self.vix = {v: i for i, (v, _) in enumerate(T["operand_enum"])}
        self.pk, self.pfns = T["parse_operand"]
        self.dec = {m["method"]: m for m in T["decode"]}
        self.methods = [m for m in T["builder"] if m["kind"] == "emit"]
        self.by_sink = {}
        for m in self.methods:
            self.by_sink.setdefault(m["sink"][0], []).append(m)
        self.enum_cursor = {}

    # ---- values
    def some_id(self):
        return self.rnd.randrange(1, 40)

    def enum_value(self, ty, allow_params=True):
        e = self.enums[ty]
        vals = [v for _, v in e["decl"]]
        if not allow_params and ty in PARAMETERISED:
            rows = self.pfns[ARGS_FN[ty]][2]
            byname = dict(e["decl"])
            for a, t in e["aliases"]:
                byname[a] = byname[t]
            withp = {byname[n] for n, _ in rows}
            vals = [v for v in vals if v not in withp]
        c = self.enum_cursor.get(ty, 0)
        self.enum_cursor[ty] = c + 1
        return vals[c % len(vals)]

    def mask_value(self, ty, allow_params=True):
        consts = dict(self.masks[ty]["consts"])
        bits = [v for v in consts.values() if v]
        if not allow_params and ty in PARAMETERISED:
            rows = self.pfns[ARGS_FN[ty]][2]
            withp = {consts[f] for f, _ in rows}
            bits = [b for b in bits if b not in withp]
        v = 0
        for b in bits:
            if self.rnd.random() < 0.3:
                v |= b
        return v

    def elem_operand(self, variant, method):
        vi = self.vix[variant]
        if method == "id":
            return f"{vi}:{self.some_id()}"
        if method in ("bit32", "ext_inst_integer"):
            return f"{vi}:{self.rnd.choice([0, 1, 7, 4294967295])}"
        if method == "string":
            return f"{vi}:S{self.rnd.choice([b'a', b'main', b'abcd']).hex()}"
        d = self.dec[method]
        if d["mask"]:
            return f"{vi}:{self.mask_value(d['type'], allow_params=False)}"
        return f"{vi}:{self.enum_value(d['type'], allow_params=False)}"

    def params_for(self, ty, value):
        """generic operands the parser expects after `value` of a parameterised kind"""
        form, _, rows = self.pfns[ARGS_FN[ty]]
        out = []
        if form == "mask":
            consts = dict(self.masks[ty]["consts"])
            for flag, es in rows:
                if value & consts[flag] == consts[flag]:
                    out += [self.elem_operand(v, m) for v, m in es]
        else:
            e = self.enums[ty]
            byname = dict(e["decl"])
            for a, t in e["aliases"]:
                byname[a] = byname[t]
            for en, es in rows:
                if byname[en] == value:
                    out += [self.elem_operand(v, m) for v, m in es]
                    break
        return out

    # ---- one call of a generated method
    def call(self, m, ip="E", rid="-"):
        rnd = self.rnd
        # which parameters are parameterised values, and which is the last one
        ptys = {}
        for pn, t in m["params"]:
            base = t[1] if t[0] == "opt" else t
            if base[0] == "spirv" and base[1] in PARAMETERISED:
                ptys[pn] = base[1]
        last_param = None
        slots = [("one", v, p) for v, p in m["init"]] + [tuple(x) for x in m["extras"]]
        order = [s[2] if s[0] in ("one", "opt", "many", "pairs") else s[1] for s in slots]
        for pn in order:
            if pn in ptys:
                last_param = pn
        absent = False          # once an optional operand is absent everything after it must be absent
        args = {}
        extra = []
        types = dict(m["params"])
        for s in slots:
            kind = s[0]
            pn = s[2] if kind != "raw" else s[1]
            t = types[pn]
            if kind == "raw":
                args[pn] = ",".join(extra) if extra and not absent_for_raw else "-"
                continue
            if kind == "one":
                args[pn] = self.value(t, pn, ptys, last_param, extra)
            elif kind == "opt":
                if absent or rnd.random() < 0.4:
                    args[pn] = "-"; absent = True
                else:
                    args[pn] = self.value(t[1], pn, ptys, last_param, extra)
            elif kind == "many":
                n = 0 if absent else rnd.choice([0, 1, 3])
                it = t[1]
                args[pn] = ",".join(str(self.some_id() if it[0] == "word" else rnd.choice([0, 1, 5])) for _ in range(n)) or "-"
            elif kind == "pairs":
                n = 0 if absent else rnd.choice([0, 1, 2])
                it = t[1]
                items = []
                for _ in range(n):
                    a = f"{self.vix['LiteralBit32']}:{rnd.randrange(100)}" if it[1][0] == "operand" else str(self.some_id())
                    b = str(rnd.randrange(8)) if it[2][0] == "u32" else str(self.some_id())
                    items.append(f"{a}={b}")
                args[pn] = ",".join(items) or "-"
            absent_for_raw = absent and pn == last_param and args[pn] == "-"
        out = []
        for pn, t in m["params"]:
            if t == ("insert_point",):
                out.append(ip)
            elif pn == "result_type" and pn not in args:
                out.append(str(self.some_id()))
            elif pn == "result_id" and pn not in args:
                out.append(rid)
            elif pn in args:
                out.append(args[pn])
            else:
                out.append("-" if t[0] in ("opt", "iter") else str(self.some_id()))
        # additional_params may have been computed after the raw slot was visited: patch it
        for i, (pn, t) in enumerate(m["params"]):
            if t == ("iter", ("operand",)) and pn == "additional_params":
                out[i] = ",".join(extra) if extra else "-"
        return m["name"] + "".join("/" + a for a in out)

    def value(self, t, pn, ptys, last_param, extra):
        rnd = self.rnd
        if t[0] == "word":
            # selectors of OpSwitch must stay untracked (their case literals are passed as 32-bit operands)
            return str(900 + rnd.randrange(20)) if pn == "selector" else str(self.some_id())
        if t[0] == "u32":
            return str(rnd.choice([0, 1, 2, 3, 32, 4294967295]))
        if t[0] == "string":
            return rnd.choice([b"a", b"main", b"abcd", b"GLSL.std.450", "é".encode()]).hex()
        if t[0] == "spirv":
            ty = t[1]
            allow = (pn == last_param)
            if ty in self.masks:
                v = self.mask_value(ty, allow_params=allow)
            elif ty == "Op":
                v = rnd.choice([0, 1, 41, 42])        # nested opcodes without further operands: Nop, Undef, ConstantTrue/False
            else:
                v = self.enum_value(ty, allow_params=allow)
            if allow and ty in PARAMETERISED:
                extra += self.params_for(ty, v)
            return str(v)
        raise ValueError(t)

    # ---- complete histories
    def history(self, size=1.0, skip=()):
        rnd = self.rnd
        calls = []
        n = lambda k: rnd.randrange(0, max(1, int(k * size)) + 1)
        if rnd.random() < 0.5:
            calls.append("set_version/%d/%d" % (rnd.choice([1, 1, 2, 0, 16, 255]), rnd.choice([rnd.randrange(7), 15, 16, 17, 128, 255])))
        sect = [m for m in self.by_sink.get("section", []) if m["name"] not in skip]
        dedup = [m for m in self.by_sink.get("dedup", []) if m["name"] not in skip]
        block = [m for m in self.by_sink.get("block", []) if m["name"] not in skip and m["opname"] not in ("Phi",)]
        term = [m for m in self.by_sink.get("end_block", []) if m["name"] not in skip]

        def module_level():
            r = rnd.random()
            if r < 0.35 and dedup:
                m = rnd.choice(dedup)
                c = self.call(m)
                # 64-bit numeric types would change the width of literals typed by their id: keep widths <= 32
                if m["opname"] in ("TypeInt", "TypeFloat"):
                    parts = c.split("/")
                    parts[2] = str(rnd.choice([8, 16, 32]))
                    c = "/".join(parts)
                return c
            if r < 0.7 and sect:
                return self.call(rnd.choice(sect))
            return rnd.choice(["capability/1", "extension/61", "ext_inst_import/474c534c2e7374642e343530", "memory_model/0/1",
                               "entry_point/0/3/6d61696e/1,2", "execution_mode/3/17/1,2,3", "execution_mode_id/3/38/1,2,3",
                               "string/61", "decoration_group", "type_forward_pointer/4/7", "type_pointer/-/7/3",
                               "type_opaque/6162", "constant_bit32/%d/7" % (900 + rnd.randrange(9)),
                               "spec_constant_bit32/%d/9" % (900 + rnd.randrange(9)),
                               "variable/1/-/7/-", "undef/2/-", "line/1/2/3", "no_line"])
        def version():
            return "set_version/%d/%d" % (rnd.choice([1, 1, 2, 0, 16, 255]), rnd.choice([rnd.randrange(7), 15, 16, 17, 128, 255]))
        for _ in range(n(10)):
            calls.append(module_level())
            if rnd.random() < 0.06:
                calls.append(version())          # the version may be set again at any time: the last call counts
        for _ in range(rnd.randrange(0, 3)):
            if rnd.random() < 0.1:
                calls.append(version())
            calls.append("begin_function/%d/-/%d/%d" % (self.some_id(), rnd.choice([0, 1, 2, 4]), self.some_id()))
            for _ in range(rnd.randrange(0, 3)):
                calls.append("function_parameter/%d" % self.some_id())
            for _ in range(rnd.randrange(0, 3)):
                calls.append("begin_block/-")
                for _ in range(rnd.randrange(0, 5)):
                    r = rnd.random()
                    if r < 0.75 and block:
                        m = rnd.choice(block)
                        has_ip = any(t == ("insert_point",) for _, t in m["params"])
                        calls.append(self.call(m, ip=rnd.choice(["E", "B", "FB:0", "FE:0"]) if has_ip else "E"))
                    elif r < 0.85:
                        calls.append(rnd.choice(["variable/1/-/7/-", "undef/2/-", "line/1/2/3", "no_line", "ext_inst/1/-/2/3/58:4,58:5"]))
                    else:
                        calls.append(module_level())
                m = rnd.choice(term)
                has_ip = any(t == ("insert_point",) for _, t in m["params"])
                calls.append(self.call(m, ip="E" if not has_ip else rnd.choice(["E", "FE:0"])))
            calls.append("end_function")
            for _ in range(n(2)):
                calls.append(module_level())
        if rnd.random() < 0.15:
            calls.append(version())
        return calls
