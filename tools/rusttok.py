"""Minimal Rust tokenizer and a strict token cursor.

Tokens: ('id', s) identifiers/keywords, ('num', int, suffix), ('str', s), ('life', s), ('p', s) punctuation.
Comments and whitespace are dropped (so rustfmt line wrapping is irrelevant).  Anything the
tokenizer does not understand raises TranslateError: translators built on it account for every
token of the items they claim.
"""
import re


class TranslateError(Exception):
    def __init__(self, file, item, msg):
        super().__init__(f"{file}: {item}: {msg}")
        self.file, self.item, self.msg = file, item, msg


PUNCT = [
    "..=", "...",
    # `<<` / `>>` are deliberately lexed as two tokens each (generic brackets `Vec<Vec<T>>` vs shifts)
    "::", "->", "=>", "==", "!=", "<=", ">=", "&&", "||", "+=", "-=", "*=", "/=", "|=", "&=", "^=", "..",
    "{", "}", "(", ")", "[", "]", "<", ">", ",", ";", ":", "=", "&", "|", "!", "#", ".", "+", "-", "*", "/", "?", "@", "%", "^", "_", "$",
]
_ident = re.compile(r"[A-Za-z_][A-Za-z0-9_]*")
_num = re.compile(r"(0x[0-9a-fA-F_]+|0b[01_]+|0o[0-7_]+|[0-9][0-9_]*)(u8|u16|u32|u64|usize|i8|i16|i32|i64|isize)?")


def tokenize(text, file="<input>"):
    toks = []
    i, n = 0, len(text)
    while i < n:
        c = text[i]
        if c.isspace():
            i += 1
            continue
        if text.startswith("//", i):
            j = text.find("\n", i)
            i = n if j < 0 else j
            continue
        if text.startswith("/*", i):
            depth, j = 1, i + 2
            while j < n and depth:
                if text.startswith("/*", j):
                    depth += 1; j += 2
                elif text.startswith("*/", j):
                    depth -= 1; j += 2
                else:
                    j += 1
            i = j
            continue
        if c == '"':
            j, out = i + 1, []
            while j < n and text[j] != '"':
                if text[j] == "\\":
                    e = text[j + 1]
                    if e == "n": out.append("\n")
                    elif e == "t": out.append("\t")
                    elif e == "0": out.append("\0")
                    elif e == "\\": out.append("\\")
                    elif e == '"': out.append('"')
                    elif e == "'": out.append("'")
                    elif e == "\n":
                        j += 2
                        while j < n and text[j].isspace():
                            j += 1
                        continue
                    else:
                        raise TranslateError(file, "tokenizer", f"unsupported escape \\{e} at {j}")
                    j += 2
                else:
                    out.append(text[j]); j += 1
            toks.append(("str", "".join(out)))
            i = j + 1
            continue
        if c == "'":
            # lifetime or char literal
            m = _ident.match(text, i + 1)
            if m and not text.startswith("'", m.end()):
                toks.append(("life", m.group(0)))
                i = m.end()
                continue
            j = i + 1
            if text[j] == "\\":
                j += 2
            else:
                j += 1
            if text[j] != "'":
                raise TranslateError(file, "tokenizer", f"bad char literal at {i}")
            toks.append(("chr", text[i + 1:j]))
            i = j + 1
            continue
        m = _num.match(text, i) if c.isdigit() else None
        if m:
            toks.append(("num", int(m.group(1).replace("_", ""), 0), m.group(2) or ""))
            i = m.end()
            continue
        m = _ident.match(text, i)
        if m:
            if m.group(0) == "_":
                toks.append(("p", "_"))
            else:
                toks.append(("id", m.group(0)))
            i = m.end()
            continue
        for p in PUNCT:
            if text.startswith(p, i):
                toks.append(("p", p))
                i += len(p)
                break
        else:
            raise TranslateError(file, "tokenizer", f"unexpected character {c!r} at {i}")
    # a trailing comma before a closing delimiter cannot change meaning in the files we read (rustfmt adds them
    # when it wraps a list; none of the translated files contains a one-element tuple): drop it
    out = []
    for t in toks:
        if t[0] == "p" and t[1] in (")", "]", "}") and out and out[-1] == ("p", ","):
            out.pop()
        out.append(t)
    return out


class Cur:
    """Strict cursor over a token list."""

    def __init__(self, toks, file, item="<top>"):
        self.t, self.i, self.file, self.item = toks, 0, file, item

    def fail(self, msg):
        ctx = " ".join(_show(t) for t in self.t[max(0, self.i - 6):self.i + 6])
        raise TranslateError(self.file, self.item, f"{msg} (near: {ctx})")

    def eof(self):
        return self.i >= len(self.t)

    def peek(self, k=0):
        return self.t[self.i + k] if self.i + k < len(self.t) else ("eof",)

    def next(self):
        t = self.peek()
        if t[0] == "eof":
            self.fail("unexpected end of input")
        self.i += 1
        return t

    def at_p(self, s, k=0):
        t = self.peek(k)
        return t[0] == "p" and t[1] == s

    def at_id(self, s=None, k=0):
        t = self.peek(k)
        return t[0] == "id" and (s is None or t[1] == s)

    def p(self, *ss):
        for s in ss:
            if not self.at_p(s):
                self.fail(f"expected `{s}`")
            self.i += 1

    def kw(self, *ss):
        for s in ss:
            if not self.at_id(s):
                self.fail(f"expected `{s}`")
            self.i += 1

    def ident(self):
        t = self.next()
        if t[0] != "id":
            self.i -= 1
            self.fail("expected identifier")
        return t[1]

    def num(self, suffix=None):
        t = self.next()
        if t[0] != "num" or (suffix is not None and t[2] != suffix):
            self.i -= 1
            self.fail(f"expected number literal{'' if suffix is None else ' with suffix ' + suffix}")
        return t[1]

    def string(self):
        t = self.next()
        if t[0] != "str":
            self.i -= 1
            self.fail("expected string literal")
        return t[1]

    def opt_p(self, s):
        if self.at_p(s):
            self.i += 1
            return True
        return False

    def opt_kw(self, s):
        if self.at_id(s):
            self.i += 1
            return True
        return False

    def seq(self, spec):
        """Consume a whitespace-separated spec of punctuation / identifiers verbatim."""
        for s in spec.split():
            t = self.next()
            if t[0] == "num" and s.isdigit() and t[1] == int(s):
                continue
            if t[0] not in ("id", "p") or t[1] != s:
                self.i -= 1
                self.fail(f"expected `{s}` (template `{spec}`)")

    def skip_attrs(self):
        """Skip outer attributes `#[...]` / `#![...]` (they cannot change the meaning of the data we read)."""
        while self.at_p("#"):
            self.i += 1
            self.opt_p("!")
            self.skip_group("[", "]")

    def skip_group(self, o, c):
        self.p(o)
        depth = 1
        while depth:
            t = self.next()
            if t[0] == "p" and t[1] == o:
                depth += 1
            elif t[0] == "p" and t[1] == c:
                depth -= 1

    def group(self, o, c):
        """Return the tokens inside a balanced group and advance past it."""
        self.p(o)
        depth, start = 1, self.i
        while depth:
            t = self.next()
            if t[0] == "p" and t[1] in "([{" and len(t[1]) == 1:
                depth += 1 if t[1] == o or t[1] in "([{" else 0
            elif t[0] == "p" and t[1] in ")]}" and len(t[1]) == 1:
                depth -= 1
        return self.t[start:self.i - 1]


def _show(t):
    if t[0] == "num":
        return str(t[1]) + t[2]
    if t[0] == "str":
        return '"' + t[1] + '"'
    if t[0] == "eof":
        return "<eof>"
    return str(t[1])


def name_code(s):
    """Base-256 code of the UTF-8 bytes with a leading 1 (injective; decodable by the Lean driver)."""
    n = 1
    for b in s.encode("utf-8"):
        n = n * 256 + b
    return n
