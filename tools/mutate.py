"""Systematic corruption of well-formed SPIR-V binaries (the malformed stream of C03/C04/C20)."""
import instgen


def boundaries(words):
    """indices of instruction header words (after the 5-word module header)"""
    out, i = [], 5
    while i < len(words):
        out.append(i)
        wc = words[i] >> 16
        if wc == 0:
            break
        i += wc
    return out


def mutants(words, rnd, cap=None):
    """yield (label, bytes) for: every truncation at a word boundary and some inside words, every word substituted by a
    few hostile values, every instruction's word count corrupted, a word inserted/deleted"""
    data = instgen.to_bytes(words)
    n = len(words)
    pos = list(range(n + 1))
    if cap and len(pos) > cap:
        pos = sorted(rnd.sample(pos, cap))
    for k in pos:
        yield f"trunc@{k}", data[:4 * k]
        if k < n:
            yield f"trunc@{k}+{1 + k % 3}", data[:4 * k + 1 + k % 3]
    spos = list(range(n))
    if cap and len(spos) > cap:
        spos = sorted(rnd.sample(spos, cap))
    for k in spos:
        w = words[k]
        for v in (0, 0xffffffff, 0x00010000, (w + 0x10000) & 0xffffffff, (w - 0x10000) & 0xffffffff, w ^ 1, w ^ 0x80000000, rnd.randrange(1 << 32)):
            if v != w:
                w2 = list(words); w2[k] = v
                yield f"subst@{k}={v:#x}", instgen.to_bytes(w2)
    for b in boundaries(words):
        op = words[b] & 0xffff
        rest = n - b
        for wc in (0, 1, 2, rest + 1, rest, 0xffff, 0x7fff):
            w2 = list(words); w2[b] = (wc << 16) | op
            yield f"wc@{b}={wc}", instgen.to_bytes(w2)
        for newop in (0xfffe, 52, 43, 251, 12, 17):      # unknown, SpecConstantOp, Constant, Switch, ExtInst, Capability
            w2 = list(words); w2[b] = (words[b] & 0xffff0000) | newop
            yield f"op@{b}={newop}", instgen.to_bytes(w2)
    for k in spos[:: max(1, len(spos) // 8)]:
        w2 = list(words); del w2[k]
        yield f"del@{k}", instgen.to_bytes(w2)
        w2 = list(words); w2.insert(k, rnd.choice([0, 1, 0xffffffff, 0x00030034]))
        yield f"ins@{k}", instgen.to_bytes(w2)
