"""Grammar-directed instruction / module generator (DESIGN §4.3) working from the translated tables.

Instructions travel in the generic form  `<opcode>;<rtype|->;<rid|->;<op>,<op>,...`  with
op = `<variant>:<number>` | `<variant>:Q<u64>` | `<variant>:S<hex>`; the generator also computes the words the
SPIR-V encoding rules prescribe (its own encoder: enumerant -> number, mask -> bits, 64-bit -> low, high,
string -> NUL terminated UTF-8 zero padded), independent of rspirv's assembler and of the Lean model.
"""
import struct

MAGIC = 0x07230203


def pack_str(b):
    b = bytes(b) + b"\0"
    while len(b) % 4:
        b += b"\0"
    return list(struct.unpack("<%dI" % (len(b) // 4), b))


class Op:
    __slots__ = ("kind", "variant", "value")

    def __init__(self, kind, variant, value):
        self.kind, self.variant, self.value = kind, variant, value

    def text(self):
        if self.kind == "w":
            return f"{self.variant}:{self.value}"
        if self.kind == "q":
            return f"{self.variant}:Q{self.value}"
        return f"{self.variant}:S{bytes(self.value).hex() or '-'}"

    def words(self):
        if self.kind == "w":
            return [self.value]
        if self.kind == "q":
            return [self.value & 0xffffffff, self.value >> 32]
        return pack_str(self.value)


class Inst:
    def __init__(self, opcode, name, rtype, rid, ops):
        self.opcode, self.name, self.rtype, self.rid, self.ops = opcode, name, rtype, rid, ops

    def text(self):
        return "%d;%s;%s;%s" % (self.opcode, "-" if self.rtype is None else self.rtype, "-" if self.rid is None else self.rid,
                                ",".join(o.text() for o in self.ops) or "-")

    def body(self):
        w = []
        if self.rtype is not None:
            w.append(self.rtype)
        if self.rid is not None:
            w.append(self.rid)
        for o in self.ops:
            w += o.words()
        return w

    def words(self):
        b = self.body()
        return [((len(b) + 1) << 16) | self.opcode] + b


def some_version(rnd):
    """a version word 0x00MMmm00: the released versions 1.0-1.6 most of the time, otherwise any major / minor byte"""
    if rnd.random() < 0.6:
        return 0x00010000 | (rnd.randrange(7) << 8)
    return (rnd.choice([0, 1, 2, 15, 16, 127, 128, 255, rnd.randrange(256)]) << 16) | (rnd.choice([0, 7, 15, 16, 17, 31, 32, 128, 255, rnd.randrange(256)]) << 8)


def header(version=0x00010600, bound=100, generator=0x000f0000, schema=0):
    return [MAGIC, version, generator, bound, schema]


def to_bytes(words):
    return b"".join(struct.pack("<I", w & 0xffffffff) for w in words)


STRINGS = [b"", b"a", b"ab", b"abc", b"main", b"hello", b"GLSL.std.450", b"OpenCL.std", "é".encode(), "日本語".encode(),
           b"x y", b'q"uote', b"back\\slash", b"tab\there", "𝄞clef".encode(), b"seven77", b"eight888"]


# lengths around the powers of two up to 4096 (block sizes, small-string buffers, 8- and 12-bit counters): the rules for strings do not depend
# on how long the string is
LONG_LENGTHS = [15, 16, 17, 31, 32, 33, 62, 63, 64, 65, 66, 67, 70, 127, 128, 129, 130, 255, 256, 257, 258, 511, 512, 513, 1023, 1024, 1025,
                4095, 4096, 4097]


def long_string(n, salt=0):
    """n bytes of ASCII letters that differ from position to position (so a shifted or truncated copy is visible)"""
    return bytes(97 + ((i * 7 + i // 26 + salt) % 26) for i in range(n))


def supported(t):
    """widths parse_literal accepts (None = untracked id: one word)"""
    if t is None:
        return True
    return t[1] in ((8, 16, 32, 64) if t[0] == "int" else (16, 32, 64))


class Gen:
    def __init__(self, T, rnd):
        self.T, self.rnd = T, rnd
        hdr = T["header"]
        self.variants = [v for v, _ in T["operand_enum"]]
        self.vix = {v: i for i, v in enumerate(self.variants)}
        self.kinds, self.core = T["core"]
        self.pk, self.pfns = T["parse_operand"]
        self.dec = {m["method"]: m for m in T["decode"]}
        self.enums = {e["name"]: e for e in hdr["enums"]}
        self.masks = {m["name"]: m for m in hdr["masks"]}
        self.opv = dict(self.enums["Op"]["decl"])
        self.by_opcode = {self.opv[r["name"]]: r for r in self.core}
        self.next_id = 1
        self.enum_cursor = {}
        self.mask_cursor = {}

    # ---- ids
    def fresh(self):
        self.next_id += 1
        return self.next_id - 1

    def some_id(self):
        return self.rnd.randrange(1, max(2, self.next_id))

    # ---- element level
    def elem(self, variant, method, force=None):
        vi = self.vix[variant]
        if method in ("id",):
            return [Op("w", vi, self.some_id() if force is None else force)]
        if method in ("bit32", "ext_inst_integer"):
            return [Op("w", vi, self.rnd.choice([0, 1, 2, 7, 255, 65536, 0x7fffffff, 0xffffffff, self.rnd.randrange(1 << 32)]) if force is None else force)]
        if method == "string":
            if force is not None:
                return [Op("s", vi, force)]
            if self.rnd.random() < 0.12:
                return [Op("s", vi, list(long_string(self.rnd.choice(LONG_LENGTHS), self.rnd.randrange(26))))]
            return [Op("s", vi, list(self.rnd.choice(STRINGS)))]
        d = self.dec[method]
        if d["mask"]:
            consts = [v for _, v in self.masks[d["type"]]["consts"] if v]
            if force is None:
                # cycle through single bits, then random combinations
                c = self.mask_cursor.get(d["type"], 0)
                self.mask_cursor[d["type"]] = c + 1
                if c < len(consts):
                    v = consts[c]
                elif c == len(consts):
                    v = 0
                else:
                    v = 0
                    for b in consts:
                        if self.rnd.random() < 0.35:
                            v |= b
            else:
                v = force
            return [Op("w", vi, v)]
        vals = [v for _, v in self.enums[d["type"]]["decl"]]
        if force is None:
            c = self.enum_cursor.get(d["type"], 0)
            self.enum_cursor[d["type"]] = c + 1
            v = vals[c % len(vals)]
        else:
            v = force
        return [Op("w", vi, v)]

    def elems(self, es):
        out = []
        for v, m in es:
            out += self.elem(v, m)
        return out

    def operand(self, kind, force_value=None):
        """concrete operands of one occurrence of a (context free) logical operand kind"""
        a = self.pk[kind]
        if a[0] == "elems":
            return self.elems(a[1])
        if a[0] == "panic":
            raise ValueError("context dependent kind " + kind)
        (v, m), fn = a[1], a[2]
        first = self.elem(v, m, force_value)
        val = first[0].value
        form, ty, rows = self.pfns[fn]
        out = list(first)
        if form == "mask":
            consts = dict(self.masks[ty]["consts"])
            for flag, es in rows:
                if val & consts[flag] == consts[flag]:
                    out += self.elems(es)
        else:
            e = self.enums[ty]
            vals = dict(e["decl"])
            for al, tg in e["aliases"]:
                vals[al] = vals[tg]
            for en, es in rows:
                if vals[en] == val:
                    out += self.elems(es)
                    break
        return out

    def literal(self, width64):
        lit32 = self.vix["LiteralBit32"]
        if width64:
            return [Op("q", self.vix["LiteralBit64"], self.rnd.choice([0, 1, 1 << 32, (1 << 64) - 1, 0x8000000000000000, self.rnd.randrange(1 << 64)]))]
        return [Op("w", lit32, self.rnd.choice([0, 1, 42, 0x80000000, 0xffffffff, 0x3f800000, self.rnd.randrange(1 << 32)]))]

    # ---- instruction level
    def inst(self, entry, opt_count=None, many=None, types=None, nested_ok=True, force_kind=None):
        """an instruction conforming to `entry`. opt_count: how many of the trailing optional operands are present
        (None = random); many: repetitions of a variadic operand; types: id -> ('int'|'float', width) for context
        dependent literals."""
        rnd = self.rnd
        types = types or {}
        rtype = rid = None
        ops = []
        optional = [i for i, (_, q) in enumerate(entry["ops"]) if q == "ZeroOrOne"]
        if opt_count is None:
            opt_count = rnd.randrange(len(optional) + 1)
        present_opt = set(optional[:opt_count])
        for i, (k, q) in enumerate(entry["ops"]):
            if q == "ZeroOrOne" and i not in present_opt:
                break
            reps = 1
            if q == "ZeroOrMore":
                reps = rnd.choice([0, 1, 3]) if many is None else many
                if opt_count < len(optional):
                    reps = 0
            for _ in range(reps):
                if k == "IdResultType":
                    rtype = rnd.choice(list(types)) if (types and entry["name"] in ("Constant", "SpecConstant") and rnd.random() < 0.8) else self.some_id()
                elif k == "IdResult":
                    rid = self.fresh()
                elif k == "LiteralContextDependentNumber":
                    if not supported(types.get(rtype)):
                        rtype = 0x7ffffff0 + rnd.randrange(8)        # untracked type id: one word
                    t = types.get(rtype)
                    ops += self.literal(bool(t) and t[1] == 64)
                elif k == "PairLiteralIntegerIdRef":
                    if not supported(types.get(ops[0].value)):
                        ops[0].value = 0x7ffffff0 + rnd.randrange(8)
                    sel = ops[0].value
                    t = types.get(sel)
                    ops += self.literal(bool(t) and t[1] == 64)
                    ops += [Op("w", self.vix["IdRef"], self.some_id())]
                elif k == "LiteralSpecConstantOpInteger":
                    ops += self.spec_op()
                elif force_kind and k == force_kind[0]:
                    ops += self.operand(k, force_value=force_kind[1])
                else:
                    ops += self.operand(k)
        return Inst(self.opv[entry["name"]], entry["name"], rtype, rid, ops)

    def parameterised(self):
        """(kind, [values]) for every kind whose value decides further operands: every declared enumerant, or 0 / every
        single bit / all bits of a mask"""
        out = []
        for kind, a in self.pk.items():
            if a[0] in ("elems", "panic"):
                continue
            form, ty, _ = self.pfns[a[2]]
            if form == "mask":
                bits = sorted({v for _, v in self.masks[ty]["consts"] if v and v & (v - 1) == 0})
                allb = 0
                for b in bits:
                    allb |= b
                out.append((kind, [0] + bits + [allb]))
            else:
                out.append((kind, sorted({v for _, v in self.enums[ty]["decl"]})))
        return out

    def nestable(self):
        """opcodes OpSpecConstantOp can embed: no context dependent operand kinds"""
        return [r for r in self.core if not any(k in ("LiteralContextDependentNumber", "PairLiteralIntegerIdRef", "LiteralSpecConstantOpInteger") for k, _ in r["ops"])]

    def spec_op(self, force=None, many=None):
        """nested opcode + its operands (result type / id skipped), quantifiers honoured"""
        ok = self.nestable()
        names = ["SNegate", "IAdd", "CompositeExtract", "CompositeInsert", "VectorShuffle", "Select", "AccessChain", "Not", "UConvert", "ImageSampleImplicitLod", "Load"]
        pool = [r for r in ok if r["name"] in names]
        r = force if force is not None else self.rnd.choice(pool if self.rnd.random() < 0.8 else ok)
        out = [Op("w", self.vix["LiteralSpecConstantOpInteger"], self.opv[r["name"]])]
        stop = False
        for k, q in r["ops"]:
            if k in ("IdResultType", "IdResult"):
                continue
            if stop:
                break
            if q == "One":
                out += self.operand(k)
            elif q == "ZeroOrOne":
                if self.rnd.random() < 0.5:
                    out += self.operand(k)
                else:
                    stop = True
            else:
                for _ in range(self.rnd.choice([0, 1, 2, 4]) if many is None else many):
                    out += self.operand(k)
        return out

    def type_decl(self, kind, width, signed=0):
        rid = self.fresh()
        lit = self.vix["LiteralBit32"]
        if kind == "int":
            return Inst(self.opv["TypeInt"], "TypeInt", None, rid, [Op("w", lit, width), Op("w", lit, signed)])
        enc = [Op("w", self.vix["FPEncoding"], self.enums["FPEncoding"]["decl"][0][1])] if self.rnd.random() < 0.4 else []
        return Inst(self.opv["TypeFloat"], "TypeFloat", None, rid, [Op("w", lit, width)] + enc)

    def all_shapes(self, entry, types=None):
        """every quantifier expansion of an entry: 0..n trailing optionals, variadic 0/1/3"""
        out = []
        optional = [i for i, (_, q) in enumerate(entry["ops"]) if q == "ZeroOrOne"]
        variadic = any(q == "ZeroOrMore" for _, q in entry["ops"])
        for oc in range(len(optional) + 1):
            if variadic and oc == len(optional):
                for m in (0, 1, 3):
                    out.append(self.inst(entry, opt_count=oc, many=m, types=types))
            else:
                out.append(self.inst(entry, opt_count=oc, many=0, types=types))
        return out


# ---------------------------------------------------------------------------------------------
# modules in logical layout order

STRUCTURAL = {"Function", "FunctionParameter", "FunctionEnd", "Label", "Variable", "Undef", "Line", "NoLine",
              "Capability", "Extension", "ExtInstImport", "MemoryModel", "EntryPoint", "ExecutionMode", "ExecutionModeId",
              "Phi", "LoopMerge", "SelectionMerge", "Nop"}


class ModuleGen:
    def __init__(self, g, specclass):
        self.g = g
        sc = specclass
        names = {g.opv[r["name"]]: r["name"] for r in g.core}
        cls = {}
        for c, d in sc.items():
            for o in d["opcodes"]:
                cls[names[o]] = c
        self.cls = cls
        self.entry = {r["name"]: r for r in g.core}
        self.block_ops = [r for r in g.core if r["name"] not in STRUCTURAL and r["name"] not in cls
                          and not r["name"].startswith("Constant") and not r["name"].startswith("SpecConstant")
                          and r["name"] not in ("TypeForwardPointer",)]
        self.terminators = [r for r in g.core if cls.get(r["name"]) in ("branch", "ret", "abort")]
        self.types = [r for r in g.core if cls.get(r["name"]) == "typeDecl"]
        self.constants = [r for r in g.core if cls.get(r["name"]) == "constant"
                          and r["name"] not in ("ConstantPipeStorage", "ConstantStringAMDX", "SpecConstantStringAMDX", "ConstantFunctionPointerINTEL")]
        self.annotations = [r for r in g.core if cls.get(r["name"]) == "annotation"]

    def module(self, size=1.0, functions=None):
        """list of (section, Inst) in layout order; section in {cap, ext, imp, mm, ep, em, dbg1, dbg2, dbg3, ann, tgv,
        fn:<i>:def|param|end, fn:<i>:blk:<j>:label|inst}"""
        g, rnd = self.g, self.g.rnd
        g.next_id = 1
        E = self.entry
        n = lambda k: rnd.randrange(0, max(1, int(k * size)) + 1)
        types = {}
        typeops = {r["name"] for r in self.types}

        class Out(list):
            def append(self2, item):
                sec, i = item
                # mirror of binary::tracker::TypeTracker::track
                if i.rid is not None:
                    if i.name in typeops:
                        if i.name == "TypeInt":
                            types[i.rid] = ("int", i.ops[0].value)
                        elif i.name == "TypeFloat":
                            types[i.rid] = ("float", i.ops[0].value)
                    elif i.rtype is not None and i.rtype in types:
                        types[i.rid] = types[i.rtype]
                list.append(self2, item)
        out = Out()
        for _ in range(n(2)):
            out.append(("cap", g.inst(E["Capability"])))
        for _ in range(n(1)):
            out.append(("ext", g.inst(E["Extension"])))
        for _ in range(n(2)):
            i = g.inst(E["ExtInstImport"])
            if rnd.random() < 0.7:
                i.ops[0].value = list(rnd.choice([b"GLSL.std.450", b"OpenCL.std"]))
            out.append(("imp", i))
        if rnd.random() < 0.9:
            out.append(("mm", g.inst(E["MemoryModel"])))
        for _ in range(n(1)):
            out.append(("ep", g.inst(E["EntryPoint"])))
        for _ in range(n(2)):
            out.append(("em", g.inst(E[rnd.choice(["ExecutionMode", "ExecutionModeId"])])))
        for _ in range(n(3)):
            out.append(("dbg1", g.inst(E[rnd.choice(["String", "SourceExtension", "Source", "SourceContinued"])])))
        for _ in range(n(3)):
            out.append(("dbg2", g.inst(E[rnd.choice(["Name", "MemberName"])])))
        for _ in range(n(1)):
            out.append(("dbg3", g.inst(E["ModuleProcessed"])))
        for _ in range(n(3)):
            out.append(("ann", g.inst(rnd.choice(self.annotations))))
        for _ in range(n(8)):
            r = rnd.random()
            if r < 0.25:
                d = g.type_decl(rnd.choice(["int", "float"]), rnd.choice([8, 16, 32, 64]), rnd.randrange(2))
                if d.name == "TypeFloat" and d.ops[0].value == 8:
                    d.ops[0].value = 16
                out.append(("tgv", d))
            elif r < 0.45:
                out.append(("tgv", g.inst(rnd.choice(self.types))))
            elif r < 0.8:
                out.append(("tgv", g.inst(rnd.choice(self.constants), types=types)))
            elif r < 0.9:
                out.append(("tgv", g.inst(E[rnd.choice(["Variable", "Undef"])])))
            else:
                out.append(("tgv", g.inst(E[rnd.choice(["Line", "NoLine"])])))
        nf = rnd.randrange(0, 3) if functions is None else functions
        for fi in range(nf):
            out.append((f"fn:{fi}:def", g.inst(E["Function"])))
            for _ in range(rnd.randrange(0, 3)):
                out.append((f"fn:{fi}:param", g.inst(E["FunctionParameter"])))
            for bi in range(rnd.randrange(0, 4)):
                out.append((f"fn:{fi}:blk:{bi}:label", g.inst(E["Label"])))
                for _ in range(rnd.randrange(0, 5)):
                    r = rnd.random()
                    if r < 0.7:
                        e = rnd.choice(self.block_ops)
                    elif r < 0.8:
                        e = E[rnd.choice(["Variable", "Undef", "Line", "NoLine", "Phi", "Nop"])]
                    elif r < 0.9:
                        e = E["ExtInst"]
                    else:
                        e = E[rnd.choice(["SelectionMerge", "LoopMerge"])]
                    out.append((f"fn:{fi}:blk:{bi}:inst", g.inst(e, types=types)))
                t = rnd.choice(self.terminators)
                out.append((f"fn:{fi}:blk:{bi}:inst", g.inst(t, types=types)))
            out.append((f"fn:{fi}:end", g.inst(E["FunctionEnd"])))
        return out


def module_words(insts, version=0x00010600, bound=None):
    b = bound if bound is not None else 1 + max([i.rid or 0 for _, i in insts] + [0])
    w = header(version=version, bound=b)
    for _, i in insts:
        w += i.words()
    return w
