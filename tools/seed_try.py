#!/usr/bin/env python3
"""Author-side helper (not a registered check): confirm a seeded change from a sub-agent's scratch worktree,
keep it under /verif/seeded/<id>/, run the given checks against it in /repo, and undo it.
usage: seed_try.py <worktree> <seed-id> <Cxx> [<Cxx>...]   |   seed_try.py --rerun <seed-id> <Cxx>..."""
import json
import os
import shutil
import subprocess
import sys

VERIF = "/verif"


def sh(cmd, cwd=None, env=None):
    p = subprocess.run(cmd, shell=True, cwd=cwd, capture_output=True, text=True, env=env)
    return p.returncode, p.stdout + p.stderr


def confirm(wt, sid):
    env = dict(os.environ, CARGO_TARGET_DIR=f"{wt}/target", CARGO_NET_OFFLINE="true")
    out = f"{wt}/seeded_out"
    demo = f"{wt}/rspirv/tests/seeded_demo.rs"
    res = {}
    if not os.path.exists(demo):
        shutil.copy(f"{out}/demo.rs", demo)
    # state: change applied
    sh("git checkout -- .", cwd=wt)
    rc, o = sh(f"git apply {out}/patch.diff", cwd=wt)
    assert rc == 0, o
    rc, o = sh("cargo test --offline -p rspirv --test seeded_demo 2>&1 | tail -5", cwd=wt, env=env)
    res["demo_fails_with_change"] = "FAILED" in o or "failed" in o
    os.rename(demo, demo + ".aside")
    rc, o = sh("cargo test --workspace --offline 2>&1 | grep 'test result'", cwd=wt, env=env)
    res["suite_with_change"] = o.strip().splitlines()
    res["suite_passes_with_change"] = all("0 failed" in l and "ok" in l for l in o.strip().splitlines()) and "81 passed" in o
    os.rename(demo + ".aside", demo)
    sh("git checkout -- .", cwd=wt)
    rc, o = sh("cargo test --offline -p rspirv --test seeded_demo 2>&1 | tail -5", cwd=wt, env=env)
    res["demo_passes_without_change"] = "test result: ok" in o
    return res


def run_checks(sid, props):
    d = f"{VERIF}/seeded/{sid}"
    rc, o = sh(f"git -C /repo apply {d}/patch.diff")
    assert rc == 0, o
    results = {}
    # the checks rewrite evidence/<id>.json on every run; what they write on a patched tree is not a
    # record of the unchanged tree, so the files are put back afterwards
    saved = {p: open(f"{VERIF}/evidence/{p}.json").read() for p in props if os.path.exists(f"{VERIF}/evidence/{p}.json")}
    try:
        for p in props:
            rc, o = sh(f"./check {p} --tier quick", cwd=VERIF)
            vio = [l for l in o.splitlines() if l.startswith("VIOLATION")]
            results[p] = {"exit": rc, "violations": vio[:5]}
            print(p, "exit", rc, *vio[:3], sep="\n   ")
    finally:
        sh("git -C /repo checkout -- .")
        for p, text in saved.items():
            open(f"{VERIF}/evidence/{p}.json", "w").write(text)
    return results


def main():
    if sys.argv[1] == "--rerun":
        sid, props = sys.argv[2], sys.argv[3:]
        d = f"{VERIF}/seeded/{sid}"
        meta = json.load(open(f"{d}/meta.json"))
    else:
        wt, sid, props = sys.argv[1], sys.argv[2], sys.argv[3:]
        d = f"{VERIF}/seeded/{sid}"
        res = confirm(wt, sid)
        print(res)
        if not (res["demo_fails_with_change"] and res["suite_passes_with_change"] and res["demo_passes_without_change"]):
            print("NOT CONFIRMED - not kept")
            sys.exit(1)
        os.makedirs(d, exist_ok=True)
        for f in ("patch.diff", "demo.rs"):
            shutil.copy(f"{wt}/seeded_out/{f}", f"{d}/{f}")
        meta = json.load(open(f"{wt}/seeded_out/meta.json"))
        meta["confirmed_by_author"] = res
        meta["base_commit"] = sh("git rev-parse HEAD", cwd=wt)[1].strip()
    r = run_checks(sid, props)
    meta.setdefault("checks_run", {}).update(r)
    meta["caught_by"] = sorted(set(meta.get("caught_by", [])) | {p for p, v in r.items() if v["exit"] == 1})
    json.dump(meta, open(f"{d}/meta.json", "w"), indent=1)
    # after-check: the tree must be clean again and the checks quiet
    print("caught_by:", meta["caught_by"])


if __name__ == "__main__":
    main()
