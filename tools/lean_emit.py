"""Emit Lean data files (chunked list literals so that no literal needs a raised maxRecDepth)."""
import os
from rusttok import name_code

CHUNK = 48


def write_if_changed(path, text):
    if os.path.exists(path) and open(path).read() == text:
        return False
    os.makedirs(os.path.dirname(path), exist_ok=True)
    with open(path, "w") as f:
        f.write(text)
    return True


class LeanFile:
    def __init__(self, namespace, imports, header=""):
        self.lines = [f"import {i}" for i in imports]
        self.lines.append("/- GENERATED FILE - do not edit. " + header + " -/")
        self.lines.append("set_option maxRecDepth 4096")
        self.lines.append(f"namespace {namespace}")
        self.ns = namespace

    def raw(self, s):
        self.lines.append(s)

    def list_def(self, name, ty, items):
        """def name : List ty := [...] in chunks."""
        if len(items) <= CHUNK:
            self.lines.append(f"def {name} : List ({ty}) := [" + ", ".join(items) + "]")
            return
        parts = []
        for i in range(0, len(items), CHUNK):
            pn = f"{name}_c{i // CHUNK}"
            self.lines.append(f"def {pn} : List ({ty}) := [" + ", ".join(items[i:i + CHUNK]) + "]")
            parts.append(pn)
        # balanced appends keep the term shallow
        self.lines.append(f"def {name} : List ({ty}) := List.flatten [" + ", ".join(parts) + "]")

    def text(self):
        return "\n".join(self.lines + [f"end {self.ns}", ""])


def nc(s):
    return str(name_code(s))


def pair(a, b):
    return f"({a}, {b})"


def emit_spirv_header(hdr, namespace, path, note):
    f = LeanFile(namespace, ["Rspirv.Generic.Enum"], note)
    f.raw("open Rspirv")
    for k, (ty, v) in hdr["consts"].items():
        f.raw(f"def const_{k} : Nat := {v}")
    names = []
    for e in hdr["enums"]:
        n = e["name"]
        f.list_def(f"enum_{n}_decl", "Nat × Nat", [pair(nc(a), v) for a, v in e["decl"]])
        arms = []
        for a in e["arms"]:
            if a[0] == "range":
                arms.append(f".range {a[1]} {a[2]}")
            elif a[0] == "lit":
                arms.append(f".lit {a[1]} {a[2]}")
            else:
                arms.append(f".named {a[1]} {nc(a[2])}")
        f.list_def(f"enum_{n}_arms", "Arm", arms)
        f.list_def(f"enum_{n}_aliases", "Nat × Nat", [pair(nc(a), nc(t)) for a, t in e["aliases"]])
        fs = e["fromstr"] or []
        f.list_def(f"enum_{n}_fromStr", "Nat × Nat", [pair(nc(a), nc(t)) for a, t in fs])
        f.raw(f"def enum_{n} : EnumSpec := {{ name := {nc(n)}, decl := enum_{n}_decl, arms := enum_{n}_arms, "
              f"aliases := enum_{n}_aliases, fromStr := enum_{n}_fromStr, hasFromStr := {'true' if e['fromstr'] is not None else 'false'} }}")
        names.append(f"enum_{n}")
    f.list_def("enums", "EnumSpec", names)
    mnames = []
    for m in hdr["masks"]:
        n = m["name"]
        f.list_def(f"mask_{n}_consts", "Nat × Nat", [pair(nc(a), v) for a, v in m["consts"]])
        f.raw(f"def mask_{n} : MaskSpec := {{ name := {nc(n)}, consts := mask_{n}_consts }}")
        mnames.append(f"mask_{n}")
    f.list_def("masks", "MaskSpec", mnames)
    return write_if_changed(path, f.text())


QUANT = {"One": 0, "ZeroOrOne": 1, "ZeroOrMore": 2}


def _entry(r, opcode, kinds):
    caps = "[" + ", ".join(nc(c) for c in r["caps"]) + "]"
    exts = "[" + ", ".join(nc(c) for c in r["exts"]) + "]"
    ops = "[" + ", ".join(f"({kinds.index(k)}, {QUANT[q]})" for k, q in r["ops"]) + "]"
    return f"⟨{nc(r['name'])}, {opcode}, {caps}, {exts}, {ops}⟩"


def emit_grammar(kinds, core, glsl, opencl, op_values, namespace, path, note):
    """op_values: dict Op variant/alias name -> number (resolution of `spirv::Op::$op`, re-checked in Lean
    against the spirv::Op declaration by a linear table check)."""
    f = LeanFile(namespace, ["Rspirv.Generic.Table"], note)
    f.raw("open Rspirv")
    f.list_def("kinds", "Nat", [nc(k) for k in kinds])
    for k in kinds:
        f.raw(f"def kind_{k} : Nat := {kinds.index(k)}")
    f.list_def("coreTable", "Entry", [_entry(r, op_values[r["name"]], kinds) for r in core])
    f.list_def("glslTable", "Entry", [_entry(r, r["opcode"], kinds) for r in glsl])
    f.list_def("openclTable", "Entry", [_entry(r, r["opcode"], kinds) for r in opencl])
    return write_if_changed(path, f.text())


def emit_extracted(ext, namespace, path, note):
    f = LeanFile(namespace, [], note)
    f.list_def("reflectTable", "Nat × Nat", [f"({o}, {int(b[::-1], 2)})" for o, b in ext["reflect"]])
    return write_if_changed(path, f.text())


SECTIONS = ["capabilities", "extensions", "ext_inst_imports", "memory_model", "entry_points", "execution_modes",
            "debug_string_source", "debug_names", "debug_module_processed", "annotations", "types_global_values"]
FN_PIECES = ["def", "parameters", "blocks", "end"]
BLOCK_PIECES = ["label", "instructions"]
HDR_FIELDS = ["magic_number", "version", "generator", "bound", "reserved_word"]


def emit_traversals(R, namespace, path, note):
    from rusttok import TranslateError

    def ix(names, n, what):
        if n not in names:
            raise TranslateError("rspirv/dr/constructs.rs", what, f"unknown field {n}")
        return names.index(n)

    f = LeanFile(namespace, [], note)
    for key, lean in (("global_inst_iter", "globalIter"), ("global_inst_iter_mut", "globalIterMut"),
                      ("all_inst_iter", "allIter"), ("all_inst_iter_mut", "allIterMut")):
        fields, tail = R[key]
        f.list_def(lean, "Nat", [str(ix(SECTIONS, x, key)) for x in fields])
        f.raw(f"def {lean}Tail : Bool := {'true' if tail == 'functions' else 'false'}")
    for key, lean in (("fn_all_inst_iter", "fnIter"), ("fn_all_inst_iter_mut", "fnIterMut")):
        pieces, bo = [], None
        for p in R[key]:
            if isinstance(p, tuple):
                pieces.append(str(ix(FN_PIECES, p[0], key)))
                if bo is not None:
                    raise TranslateError("rspirv/dr/constructs.rs", key, "two block chains")
                bo = [str(ix(BLOCK_PIECES, b, key)) for b in p[1]]
            else:
                pieces.append(str(ix(FN_PIECES, p, key)))
        f.list_def(lean, "Nat", pieces)
        f.list_def(lean + "Block", "Nat", bo or [])
    kinds = {("opt", "label"): 0, ("each", "instructions"): 1}
    f.list_def("asmBlock", "Nat", [str(kinds[s]) if s in kinds else _bad(s, "Block") for s in R["asm_Block"]])
    kinds = {("opt", "def"): 0, ("each", "parameters"): 1, ("each", "blocks"): 2, ("opt", "end"): 3}
    f.list_def("asmFunction", "Nat", [str(kinds[s]) if s in kinds else _bad(s, "Function") for s in R["asm_Function"]])
    kinds = {("opt", "header"): 0, ("call", "global_inst_iter"): 1, ("each", "functions"): 2}
    f.list_def("asmModule", "Nat", [str(kinds[s]) if s in kinds else _bad(s, "Module") for s in R["asm_Module"]])
    f.list_def("asmHeader", "Nat", [str(ix(HDR_FIELDS, x, "asm_header")) for x in R["asm_header"]])
    # Instruction::assemble_into as a program: 0 letStart | 1 pushOpcode | 2 optPush result_type | 3 optPush result_id |
    # 4 eachOperand | 5 letEnd | (6, shift) patch
    prog = []
    for st in R["asm_Instruction"]:
        if st[0] == "optPush":
            prog.append(f"({2 + ix(['result_type', 'result_id'], st[1], 'impl Assemble for dr::Instruction')}, 0)")
        elif st[0] == "patch":
            prog.append(f"(6, {st[1]})")
        else:
            prog.append(f"({['letStart', 'pushOpcode', None, None, 'eachOperand', 'letEnd'].index(st[0])}, 0)")
    f.list_def("asmInstruction", "Nat × Nat", prog)
    # assemble_str as a program: 0 chunksExact n | 1 remainder | 2 lastZero n | 3 copyRemainder | 4 extendChunksLE | 5 pushLastLE
    names = ["chunksExact", "remainder", "lastZero", "copyRemainder", "extendChunksLE", "pushLastLE"]
    f.list_def("asmStr", "Nat × Nat", [f"({names.index(k)}, {v})" for k, v in R["asm_str"]])
    return write_if_changed(path, f.text())


def _bad(s, ty):
    from rusttok import TranslateError
    raise TranslateError("rspirv/binary/assemble.rs", f"impl Assemble for {ty}", f"unexpected statement {s}")


def emit_decode(methods, hdr, namespace, path, note):
    """decodeMethods : (method name, index into enums or masks, isMask, error variant name)"""
    from rusttok import TranslateError
    en = [e["name"] for e in hdr["enums"]]
    mk = [m["name"] for m in hdr["masks"]]
    f = LeanFile(namespace, [], note)
    rows = []
    for m in methods:
        names = mk if m["mask"] else en
        if m["type"] not in names:
            raise TranslateError("rspirv/binary/autogen_decode_operand.rs", m["method"], f"unknown spirv type {m['type']}")
        rows.append(f"({nc(m['method'])}, {names.index(m['type'])}, {'true' if m['mask'] else 'false'}, {nc(m['error'])})")
    f.list_def("decodeMethods", "Nat × Nat × Bool × Nat", rows)
    return write_if_changed(path, f.text())


def emit_operands(T, namespace, path, note):
    """Operand variants, assemble arms, and what parse_operand does per kind, with names resolved to numbers."""
    from rusttok import TranslateError
    hdr = T["header"]
    variants = T["operand_enum"]
    arms = T["asm_arms"]
    kinds, _core = T["core"]
    pk, pfns = T["parse_operand"]
    dec = {m["method"]: m for m in T["decode"]}
    en = [e["name"] for e in hdr["enums"]]
    mk = [m["name"] for m in hdr["masks"]]
    vnames = [v for v, _ in variants]
    f = LeanFile(namespace, ["Rspirv.Generic.Grammar"], note)
    f.raw("open Rspirv")
    rows = []
    for v, pay in variants:
        if pay.startswith("spirv::"):
            t = pay[7:]
            if t in mk:
                rows.append(f"({nc(v)}, 1, {mk.index(t)})")
            elif t in en:
                rows.append(f"({nc(v)}, 0, {en.index(t)})")
            else:
                raise TranslateError("rspirv/dr/autogen_operand.rs", v, f"unknown payload type {t}")
        else:
            rows.append(f"({nc(v)}, {dict(word=2, u32=3, u64=4, op=5, string=6)[pay]}, 0)")
    f.list_def("operandVariants", "Nat × Nat × Nat", rows)
    ARM = dict(bits=0, as_u32=1, raw=2, lohi=3, string=4)
    for v in vnames:
        if v not in arms:
            raise TranslateError("rspirv/binary/assemble.rs", v, "Operand variant without an assemble arm")
    f.list_def("asmArms", "Nat", [str(ARM[arms[v]]) for v in vnames])
    for v in vnames:
        f.raw(f"def v_{v} : Nat := {vnames.index(v)}")
    opv = {}
    e = hdr["enum_by_name"]["Op"]
    opv = dict(e["decl"])
    for o in ("Constant", "SpecConstant", "Switch", "TypeInt", "TypeFloat", "SpecConstantOp", "ExtInstImport", "ExtInst",
              "Capability", "Extension", "MemoryModel", "EntryPoint", "ExecutionMode", "ExecutionModeId", "String",
              "SourceExtension", "Source", "SourceContinued", "Name", "MemberName", "ModuleProcessed", "Variable", "Undef",
              "Function", "FunctionEnd", "FunctionParameter", "Label", "Line", "NoLine", "Return", "ReturnValue", "Nop",
              "DecorationGroup", "TypeForwardPointer", "TypePointer", "TypeOpaque", "TypeVoid", "TypeBool", "TypeVector",
              "TypeFunction", "TypeStruct", "TypeArray", "TypeMatrix", "ConstantComposite", "ConstantTrue", "ConstantFalse",
              "Phi", "Branch", "BranchConditional", "Kill", "Unreachable", "ConstantSampler", "ConstantNull",
              "ConstantCompositeContinuedINTEL", "SpecConstantCompositeContinuedINTEL"):
        f.raw(f"def op_{o} : Nat := {opv[o]}")

    def elem(item, v, m):
        if v not in vnames:
            raise TranslateError("rspirv/binary/autogen_parse_operand.rs", item, f"unknown Operand variant {v}")
        vi = vnames.index(v)
        if m in ("id", "bit32", "ext_inst_integer"):
            return f"⟨{vi}, 2, 0, 0⟩"
        if m == "string":
            return f"⟨{vi}, 3, 0, 0⟩"
        if m not in dec:
            raise TranslateError("rspirv/binary/autogen_parse_operand.rs", item, f"unknown decoder method {m}")
        d = dec[m]
        names = mk if d["mask"] else en
        return f"⟨{vi}, {1 if d['mask'] else 0}, {names.index(d['type'])}, {nc(d['error'])}⟩"

    acts = []
    for k in kinds:
        if k not in pk:
            raise TranslateError("rspirv/binary/autogen_parse_operand.rs", k, "OperandKind without a parse_operand arm")
        a = pk[k]
        if a[0] == "panic":
            acts.append(".panics")
        elif a[0] == "elems":
            acts.append(".elems [" + ", ".join(elem(k, v, m) for v, m in a[1]) + "]")
        else:
            (v, m), fn = a[1], a[2]
            form, ty, rws = pfns[fn]
            if form == "mask":
                consts = dict(next(x for x in hdr["masks"] if x["name"] == ty)["consts"])
                rr = ", ".join(f"({consts[flag]}, [" + ", ".join(elem(fn, vv, mm) for vv, mm in es) + "])" for flag, es in rws)
                acts.append(f".maskParams {elem(k, v, m)} [{rr}]")
            else:
                ee = hdr["enum_by_name"][ty]
                vals = dict(ee["decl"])
                for al, tg in ee["aliases"]:
                    vals[al] = vals[tg]
                rr = ", ".join(f"({vals[en_]}, [" + ", ".join(elem(fn, vv, mm) for vv, mm in es) + "])" for en_, es in rws)
                acts.append(f".enumParams {elem(k, v, m)} [{rr}]")
    f.list_def("kindActs", "KindAct", acts)
    return write_if_changed(path, f.text())


def emit_builder(T, namespace, path, note):
    from rusttok import TranslateError
    from translate.builder import SECTIONS as BSECT
    hdr = T["header"]
    en = [e["name"] for e in hdr["enums"]]
    mk = [m["name"] for m in hdr["masks"]]
    vnames = [v for v, _ in T["operand_enum"]]
    opv = dict(hdr["enum_by_name"]["Op"]["decl"])
    for a, t in hdr["enum_by_name"]["Op"]["aliases"]:
        opv[a] = opv[t]
    FILE = "rspirv/dr/build"

    def pt(t):
        k = t[0]
        if k == "insert_point": return ".insertPoint"
        if k == "word": return ".word"
        if k == "u32": return ".u32"
        if k == "string": return ".str"
        if k == "spirv":
            if t[1] in mk: return f"(.maskT {mk.index(t[1])})"
            if t[1] in en: return f"(.enumT {en.index(t[1])})"
            raise TranslateError(FILE, t[1], "unknown spirv type in a Builder signature")
        if k == "opt": return f"(.opt {pt(t[1])})"
        if k == "iter":
            it = t[1]
            if it[0] == "word": return ".iterWord"
            if it[0] == "u32": return ".iterU32"
            if it[0] == "operand": return ".iterOperand"
            if it[0] == "pair":
                code = {"word": 0, "u32": 1, "operand": 2}
                return f"(.iterPair {code[it[1][0]]} {code[it[2][0]]})"
        raise TranslateError(FILE, str(t), "unexpected parameter type shape")

    def vi(name, v):
        if v not in vnames:
            raise TranslateError(FILE, name, f"unknown Operand variant {v}")
        return vnames.index(v)

    f = LeanFile(namespace, ["Rspirv.Generic.Method"], note)
    f.raw("open Rspirv")
    rows = []
    for m in T["builder"]:
        pidx = {pn: i for i, (pn, _) in enumerate(m["params"])}
        params = "[" + ", ".join(pt(t) for _, t in m["params"]) + "]"
        if m["kind"] == "wrapper":
            rows.append(f"⟨{nc(m['name'])}, {params}, 0, none, 0, 0, [], 0, 0, false, {nc(m['callee'])}⟩")
            continue
        if m["opname"] not in opv:
            raise TranslateError(m["file"], m["name"], f"unknown opcode {m['opname']}")

        def P(name):
            if name not in pidx:
                raise TranslateError(m["file"], m["name"], f"body uses `{name}` which is not a parameter")
            return pidx[name]
        rt = "none" if m["rtype"][0] == "none" else f"(some {P(m['rtype'][1])})"
        if m["rtype"][0] == "var":
            raise TranslateError(m["file"], m["name"], "result type must be None or Some(param)")
        idr = m["idrule"]
        if idr is None:
            idk, idp = 0, 0
        elif idr[0] == "fresh":
            idk, idp = 1, 0
        elif idr[0] == "param_or_fresh":
            idk, idp = 2, P(idr[1])
        else:
            idk, idp = 3, P(idr[1])
        slots = [f".one {vi(m['name'], v)} {P(p)}" for v, p in m["init"]]
        for e in m["extras"]:
            if e[0] == "opt":
                slots.append(f".optS {vi(m['name'], e[1])} {P(e[2])}")
            elif e[0] == "many":
                slots.append(f".many {vi(m['name'], e[1])} {P(e[2])}")
            elif e[0] == "raw":
                slots.append(f".raw {P(e[1])}")
            else:
                parts = e[1]
                if [p[1] for p in parts] != [0, 1]:
                    raise TranslateError(m["file"], m["name"], "pair loop does not push .0 then .1")
                vs = ["none" if p[0] == "raw" else f"(some {vi(m['name'], p[0])})" for p in parts]
                slots.append(f".pairs {vs[0]} {vs[1]} {P(e[2])}")
        sk = m["sink"]
        sink, sect = {"section": 0, "block": 1, "end_block": 2, "dedup": 3}[sk[0]], 10
        if sk[0] == "section":
            sect = BSECT.index(sk[1])
        has_ip = "true" if any(t == ("insert_point",) for _, t in m["params"]) else "false"
        rows.append(f"⟨{nc(m['name'])}, {params}, {opv[m['opname']]}, {rt}, {idk}, {idp}, [" + ", ".join(slots) + f"], {sink}, {sect}, {has_ip}, 0⟩")
    # maximal runs of non-wrapper methods with non-decreasing opcode (so that the Lean table check can merge-walk the
    # ascending grammar table instead of looking every opcode up)
    f.list_def("methods", "MethodSpec", rows)
    groups, cur, prev = [], [], -1
    for m, row in zip(T["builder"], rows):
        if m["kind"] == "wrapper":
            continue
        o = opv[m["opname"]]
        if o < prev:
            groups.append(cur); cur = []
        cur.append(row); prev = o
    if cur:
        groups.append(cur)
    for gi, g in enumerate(groups):
        f.list_def(f"methodGroup{gi}", "MethodSpec", g)
    f.raw("def methodGroups : List (List MethodSpec) := [" + ", ".join(f"methodGroup{gi}" for gi in range(len(groups))) + "]")
    f.list_def("wrappers", "MethodSpec", [row for m, row in zip(T["builder"], rows) if m["kind"] == "wrapper"])
    return write_if_changed(path, f.text())


def emit_reflect(T, namespace, path, note):
    """additional_operands / required_capabilities / required_extensions / id_ref_any / From / unwrap of dr::Operand"""
    from rusttok import TranslateError
    R = T["operand_reflect"]
    hdr = T["header"]
    kinds, _ = T["core"]
    vnames = [v for v, _ in T["operand_enum"]]
    FILE = "rspirv/dr/autogen_operand.rs"

    def values(ty, names, item):
        if ty in {m["name"] for m in hdr["masks"]}:
            consts = dict(next(m for m in hdr["masks"] if m["name"] == ty)["consts"])
            src = consts
        else:
            e = hdr["enum_by_name"][ty]
            src = dict(e["decl"])
            for a, t in e["aliases"]:
                src[a] = src[t]
        out = []
        for n in names:
            if n not in src:
                raise TranslateError(FILE, item, f"unknown {ty}::{n}")
            out.append(str(src[n]))
        return "[" + ", ".join(out) + "]"

    def payload_type(v):
        return dict(T["operand_enum"])[v]

    f = LeanFile(namespace, [], note)
    # additional_operands: (variant, isMask, rows (values, [(kind, quant)]))
    rows = []
    for v, (form, rws) in R["additional_operands"].items():
        ty = payload_type(v)[7:]
        rr = []
        for names, los in rws:
            for k, q in los:
                if k not in kinds:
                    raise TranslateError(FILE, f"additional_operands::{v}", f"unknown kind {k}")
            lo = "[" + ", ".join(f"({kinds.index(k)}, {QUANT[q]})" for k, q in los) + "]"
            rr.append(f"({values(ty, names, 'additional_operands::' + v)}, {lo})")
        rows.append(f"({vnames.index(v)}, {'true' if form == 'mask' else 'false'}, [" + ", ".join(rr) + "])")
    f.list_def("additionalOperands", "Nat × Bool × List (List Nat × List (Nat × Nat))", rows)
    for key, lean in (("required_capabilities", "requiredCapabilities"), ("required_extensions", "requiredExtensions")):
        rows = []
        for v, (form, rws) in R[key].items():
            ty = payload_type(v)[7:]
            if key == "required_capabilities":
                # capabilities by value (aliases such as ...NV / ...KHR denote the same capability)
                rr = [f"({values(ty, names, key + '::' + v)}, {values('Capability', items, key + '::' + v)})" for names, items in rws]
            else:
                rr = [f"({values(ty, names, key + '::' + v)}, [" + ", ".join(nc(x) for x in items) + "])" for names, items in rws]
            rows.append(f"({vnames.index(v)}, {'true' if form == 'mask' else 'false'}, [" + ", ".join(rr) + "])")
        f.list_def(lean, "Nat × Bool × List (List Nat × List Nat)", rows)
    f.list_def("idRefAny", "Nat", [str(vnames.index(v)) for v in R["id_ref_any"]])
    f.list_def("idRefAnyMut", "Nat", [str(vnames.index(v)) for v in R["id_ref_any_mut"]])
    f.list_def("fromImpls", "Nat × Nat", [f"({nc(t)}, {vnames.index(v)})" for t, v in R["from"]])
    f.list_def("unwraps", "Nat × Nat", [f"({nc('String' if rt == '&str' else rt)}, {vnames.index(v)})" for _, rt, v in R["unwrap"]])
    PT = {"word": "spirv::Word", "u32": "u32", "u64": "u64", "op": "spirv::Op", "string": "String"}
    f.list_def("variantPayloadType", "Nat", [nc(PT.get(p, p)) for _, p in T["operand_enum"]])
    f.list_def("displayArms", "Nat × Nat", [f"({vnames.index(v)}, {dict([('{:?}', 0), ('%{}', 1), ('{:?}[3..]', 2)]).get(fm, 9)})" for v, fm in R["display"]])
    return write_if_changed(path, f.text())


def emit_disas(T, namespace, path, note):
    from rusttok import TranslateError
    hdr = T["header"]
    mk = [m["name"] for m in hdr["masks"]]
    vnames = [v for v, _ in T["operand_enum"]]
    tables, (ids, fwd) = T["disas_operand"]
    f = LeanFile(namespace, [], note)
    rows = []
    for t in tables:
        if t["type"] not in mk:
            raise TranslateError("rspirv/binary/autogen_disas_operand.rs", t["type"], "unknown mask type")
        consts = dict(next(m for m in hdr["masks"] if m["name"] == t["type"])["consts"])
        if t["empty"] != "None" or t["sep"] != "|":
            raise TranslateError("rspirv/binary/autogen_disas_operand.rs", t["type"], "unexpected empty name / separator")
        for fl, _ in t["rows"]:
            if fl not in consts:
                raise TranslateError("rspirv/binary/autogen_disas_operand.rs", t["type"], f"unknown flag {fl}")
        rr = ", ".join(f"({consts[fl]}, {nc(nm)})" for fl, nm in t["rows"])
        rows.append(f"({mk.index(t['type'])}, [{rr}])")
    f.list_def("maskNames", "Nat × List (Nat × Nat)", rows)
    f.list_def("forwarded", "Nat", [str(vnames.index(v)) for v in fwd])
    f.list_def("idDispatch", "Nat", [str(vnames.index(v)) for v in ids])
    return write_if_changed(path, f.text())


MODES = {"req": 0, "opt": 1, "list": 2, "pairs": 3}
TRANSFORMS = {"copy": 0, "clone": 1, "type_token": 2, "const_token": 3, "member": 4, "jump": 5, "with_rest_ids": 6}


def emit_lift(T, namespace, path, note):
    """lift/autogen_context.rs arms + the field declarations of the sr enums/structs"""
    R, decls = T["lift"]
    vix = {v: i for i, (v, _) in enumerate(T["operand_enum"])}
    f = LeanFile(namespace, ["Rspirv.Model.Lift"], note)
    f.raw("open Rspirv Rspirv.Model")

    def field(x):
        vs = "[" + ", ".join(str(vix[v]) for v in x["variants"]) + "]"
        ts = "[" + ", ".join(str(TRANSFORMS[t]) for t in x["transforms"]) + "]"
        return f"⟨{nc(x['name'])}, {MODES[x['mode']]}, {vs}, {ts}⟩"

    def arm(a):
        return f"⟨{a['opcode']}, {nc(a['ctor'].split('::')[-1])}, [" + ", ".join(field(x) for x in a["fields"]) + "]⟩"
    for key, name in (("lift_branch", "branchArms"), ("lift_terminator", "terminatorArms"), ("lift_op", "opArms"), ("lift_type", "typeArms")):
        f.list_def(name, "LArm", [arm(a) for a in R[key]])
    f.list_def("singleArms", "LArm", [arm(a) for a in R["single"].values()])
    for fn, nm in (("lift_capability", "capabilityArm"), ("lift_memory_model", "memoryModelArm"), ("lift_function", "functionArm")):
        if fn in R["single"]:
            f.raw(f"def {nm} : Option LArm := some {arm(R['single'][fn])}")
        else:
            f.raw(f"def {nm} : Option LArm := none")

    def decl(items):
        # tuple variants (`Terminator::Branch(Branch)`) have no generated arm of their own
        return [f"({nc(v)}, [" + ", ".join(nc(fn_) for fn_, _ in fs) + "])" for v, fs in items if fs is not None]
    f.list_def("opDecl", "Nat × List Nat", decl(decls["Op"]))
    f.list_def("branchDecl", "Nat × List Nat", decl(decls["Branch"]))
    f.list_def("terminatorDecl", "Nat × List Nat", decl(decls["Terminator"]))
    f.list_def("typeDecl", "Nat × List Nat", decl(decls["Type"]))
    f.list_def("structDecl", "Nat × List Nat", decl(list(decls["structs"].items())))
    return write_if_changed(path, f.text())
