#!/usr/bin/env python3
"""author-side: write the prompts for a round of seeded changes (one fresh agent per property, one scratch worktree each)
usage: seed_prompts.py <round> <Cxx> ...   -> /tmp/seedprompts<round>/<Cxx>.txt, worktrees /tmp/wt<round>_<Cxx>"""
import json, glob, os, subprocess, sys

def main():
    rnd = sys.argv[1]; pids = [a for a in sys.argv[2:] if not a.startswith("--")]
    generated = "--generated" in sys.argv
    entry = "--entry" in sys.argv
    scale = "--scale" in sys.argv
    coop = "--coop" in sys.argv
    glue = "--glue" in sys.argv
    props = {json.loads(l)['id']: json.loads(l) for l in open('/verif/properties.jsonl')}
    prev = {}
    for d in sorted(glob.glob('/verif/seeded/*/meta.json')):
        m = json.load(open(d)); pid = d.split('/')[-2][:3]
        prev.setdefault(pid, []).append((m.get('summary') or '')[:200].replace('\n', ' '))
    out = '/tmp/seedprompts%s' % rnd
    os.makedirs(out, exist_ok=True)
    for pid in pids:
        p = props[pid]; wt = "/tmp/wt%s_%s" % (rnd, pid)
        subprocess.run(["git", "-C", "/repo", "worktree", "add", "--detach", wt, "HEAD"], capture_output=True)
        demo = "a demo integration test that you write, %s/rspirv/tests/seeded_demo.rs, using only the public API of the crates," % wt
        if pid == "C20":
            demo = "a demo that you write — EITHER an integration test %s/rspirv/tests/seeded_demo.rs using only the public API, OR (if the change is only observable through the rspirv-dis binary in %s/dis, e.g. a change to dis/main.rs) a shell script %s/seeded_out/demo.sh that builds the binary with CARGO_TARGET_DIR=%s/target, runs it on files it creates and exits non-zero iff the property is violated —" % (wt, wt, wt, wt)
        GENHINT = (" THIS TIME, if the property involves any machine-generated source file (files named autogen_*.rs under rspirv/ or spirv/ — grammar tables, operand decoding/parsing, the Operand enum and its helpers, Builder methods, lift code, enum conversions), make your change IN SUCH A GENERATED FILE: a single table row, match arm, constant, range, field or operand order that a regeneration glitch or a hand edit could plausibly produce; only if the property touches no generated file at all, choose a hand-written one.") if generated else ""
        if entry:
            GENHINT = (" THIS TIME, look for the property's functionality behind a public entry point, variant or state that is rarely exercised — e.g. the word-slice forms (`load_words`, `parse_words`) next to the byte forms, `Assemble::assemble_into` next to `assemble`, the `insert_*` forms of Builder methods and the insertion points `Begin` / `FromBegin(n)` / `FromEnd(n)`, `Builder::new_from_module` / `module_ref` / `module_mut` / `pop_instruction` / `select_*`, the `*_mut` traversals, per-Function / per-Block `assemble` and `disassemble`, the extended-instruction tables, explicit-id forms of type methods, a second call of a method that is usually called once, an empty or partially filled module — and place your change so that ONLY that path misbehaves while the commonly used path keeps working.")
        if scale:
            GENHINT = (" THIS TIME, make a change whose effect depends on SCALE, POSITION or ACCUMULATED STATE rather than on the kind of input: something that only shows beyond a size or count threshold (an index, offset, length, id or counter narrowed to 8/16 bits or compared with `<` instead of `<=` at a far boundary; behaviour that differs for the 2nd/17th/257th/65537th element, word, instruction, block, function or call), at a particular position (first vs. later element of a list, last instruction of the last block, an instruction at a particular offset of the buffer), after a particular earlier call or failure (state that is left behind by one operation and misread by a later one), or through TWO cooperating edits that each look fine alone. Small inputs and fresh objects must keep working.")
        if coop:
            GENHINT = (" THIS TIME, make a change that needs a MULTI-STEP SEQUENCE or a FAILURE PATH to show: (i) an operation that FAILS or is ABORTED part-way (an error return, a rejected input, a consumer that stops, a call made in the wrong state) and leaves something behind — a counter advanced, a limit still set, a selection changed, an entry half-inserted, a cache filled — so that a LATER, otherwise correct, operation on the same object misbehaves; or (ii) an object that is REUSED (a second parse with the same parser/consumer/loader/tracker, a builder continued from an existing module, a second disassembly of the same module, the same table looked up again) and is not in its initial state; or (iii) TWO COOPERATING EDITS at different sites (e.g. producer and consumer of a field, an encoder and its decoder, a method and the helper it calls) that each look like a harmless tidy-up and are each individually behaviour-preserving or nearly so, but together break the property for some inputs. A single call on a fresh object with a well-formed input must keep working.")
        if glue:
            GENHINT = (" THIS TIME, stay away from the functions named in the anchors below: put the slip into GLUE that the property's behaviour still depends on but that nobody looks at — a helper, constructor, `Default`/`new`, `From`/`Into`/`TryFrom` conversion, `Display`/`Debug`/`Error` impl whose text is user-visible output, a macro (`inst!`, `ext_inst!`, `if_ret_err!`, bitflags declarations), a `mod.rs` re-export or type alias, an `Iterator`/`IntoIterator`/`Extend` impl, an `Option`/`Result` combinator chain (`map_or`, `unwrap_or_default`, `ok()`, `and_then`), an `as` cast between integer widths, a slice/`Vec` operation (`split_at`, `drain`, `truncate`, `insert` vs `push`, `extend` vs `append`), a `match` fall-through arm (`_ =>`), a const used in two places — anywhere the main algorithm hands a value to something 'obviously correct'. The main algorithm's own functions must stay textually unchanged.")
        txt = f"""You are working in a scratch git worktree of the Rust project gfx-rs/rspirv at {wt} (a SPIR-V toolkit: binary parser/decoder, assembler, disassembler, data representation with a Builder, lift to a structured representation). Work ONLY inside {wt}. Do not read or touch /repo or /verif. IMPORTANT: do NOT use `git stash` (the stash is shared between several worktrees of this repository that other people are using right now); to test with and without your change use `git diff -- <files> > seeded_out/patch.diff`, `git apply -R seeded_out/patch.diff`, `git apply seeded_out/patch.diff`.

Below is a semantic property of this code base that is supposed to hold. Your job is to play a maintainer who makes ONE small, realistic slip — the kind of change that passes review: an off-by-one, a wrong guard, a swapped pair of arguments, a lost case in a match, a 'simplification' that drops a check, a wrong constant, a refactor that changes order or a boundary — in the NON-TEST library source (hand-written or generated .rs files both count), such that the property is BROKEN for some inputs, while:
 (a) the workspace still compiles;
 (b) the project's existing test suite still passes unchanged:  cd {wt} && CARGO_TARGET_DIR={wt}/target CARGO_NET_OFFLINE=true cargo test --workspace --offline   (run it with your demo file moved aside)
 (c) {demo} FAILS with your change and PASSES without it (check both). An integration test is run with: cargo test --offline -p rspirv --test seeded_demo

Make the change subtle rather than blatant: prefer a change whose effect shows only on particular inputs (a specific opcode or enumerant, operand shape, value range, history of calls, boundary value, unusual-but-legal input, a less used public entry point or method of the same functionality, an interaction between two features, a clause of the property that is easy to forget) over one that breaks everything; try to pick a spot in the code that a tester who generates 'typical' inputs — or who samples a large table instead of covering it — would be unlikely to exercise. Read the property statement clause by clause and look for a clause none of the earlier changes attacked.{GENHINT} It must be a DIFFERENT change, in a different function if possible, from these earlier ones for the same property: {json.dumps(prev.get(pid, []))}

PROPERTY {pid}: {p['title']}
Statement: {p['statement']}
Quantifier: {p['quantifier']['text']}
Anchors (where the mechanism lives): {json.dumps(p['anchors'].get('mechanism', p['anchors']))[:1800]}

Deliverables, in {wt}/seeded_out/ (create the directory):
 - patch.diff : `git diff` of the library change only (NOT including the demo);
 - demo.rs (a copy of your rspirv/tests/seeded_demo.rs) or demo.sh;
 - meta.json  : {{"property": "{pid}", "summary": "<what you changed, file and function, and why it looks innocent>", "needs": "<what kind of input/history is needed to observe the breakage>", "commands": [...], "suite_passes_with_change": true/false, "demo_fails_with_change": true/false, "demo_passes_without_change": true/false}}
Leave the worktree with the change applied and the demo file present. There is no network; everything needed is installed. Report briefly what you changed and the three confirmations."""
        open('%s/%s.txt' % (out, pid), 'w').write(txt)
    print(out, pids)

if __name__ == "__main__":
    main()
