#!/usr/bin/env python3
"""Author-side helper (not a registered check): keep a BEHAVIOUR-PRESERVING refactor written by a sub-agent under /verif/harmless/<id>/,
run the given checks against it in /repo and undo it. Every check is expected to stay quiet (exit 0); a translator that refuses a
changed shape reports `no-failing-input-found`, which the brief allows but which is recorded as such.
usage: harmless_try.py <worktree> <id> <Cxx> [<Cxx>...]   |   harmless_try.py --rerun <id> <Cxx>..."""
import json
import os
import shutil
import subprocess
import sys

VERIF = "/verif"


def sh(cmd, cwd=None, env=None):
    p = subprocess.run(cmd, shell=True, cwd=cwd, capture_output=True, text=True, env=env)
    return p.returncode, p.stdout + p.stderr


def main():
    if sys.argv[1] == "--rerun":
        hid, props = sys.argv[2], sys.argv[3:]
        d = f"{VERIF}/harmless/{hid}"
        meta = json.load(open(f"{d}/meta.json"))
    else:
        wt, hid, props = sys.argv[1], sys.argv[2], sys.argv[3:]
        d = f"{VERIF}/harmless/{hid}"
        env = dict(os.environ, CARGO_TARGET_DIR=f"{wt}/target", CARGO_NET_OFFLINE="true")
        rc, o = sh("git diff --stat | tail -1", cwd=wt)
        rc, o2 = sh("cargo test --workspace --offline 2>&1 | grep 'test result'", cwd=wt, env=env)
        ok = all("0 failed" in l for l in o2.strip().splitlines()) and "81 passed" in o2
        print("suite with the refactor:", "ok" if ok else o2)
        os.makedirs(d, exist_ok=True)
        for f in ("patch.diff", "demo.rs"):
            if os.path.exists(f"{wt}/seeded_out/{f}"):
                shutil.copy(f"{wt}/seeded_out/{f}", f"{d}/{f}")
        meta = json.load(open(f"{wt}/seeded_out/meta.json"))
        meta["confirmed_by_author"] = {"suite_passes_with_change": ok, "diffstat": o.strip()}
    rc, o = sh(f"git -C /repo apply {d}/patch.diff")
    assert rc == 0, o
    results = {}
    # the checks rewrite evidence/<id>.json on every run; what they write on a patched tree is not a
    # record of the unchanged tree, so the files are put back afterwards
    saved = {p: open(f"{VERIF}/evidence/{p}.json").read() for p in props if os.path.exists(f"{VERIF}/evidence/{p}.json")}
    try:
        for p in props:
            rc, o = sh(f"./check {p} --tier quick", cwd=VERIF)
            vio = [l for l in o.splitlines() if l.startswith("VIOLATION")]
            results[p] = {"exit": rc, "violations": vio[:5]}
            print(p, "exit", rc, *[v[:200] for v in vio[:3]], sep="\n   ")
    finally:
        sh("git -C /repo checkout -- .")
        for p, text in saved.items():
            open(f"{VERIF}/evidence/{p}.json", "w").write(text)
    meta.setdefault("checks_run", {}).update(results)
    meta["alarms"] = sorted(p for p, v in meta["checks_run"].items() if v["exit"] != 0)
    json.dump(meta, open(f"{d}/meta.json", "w"), indent=1)
    print("alarms:", meta["alarms"])


if __name__ == "__main__":
    main()
