"""MANIFEST.setup_cmd: build the framework once from files on disk (offline)."""
import os
import sys
import checklib as C
from props import common


def main():
    ctx = C.Ctx("setup", "quick", 1)
    T, ext = common.stage_translate_and_extract(ctx)
    if ctx.data["translate_fails"]:
        for k, e in ctx.data["translate_fails"].items():
            print("translate failure:", e)
    with C.Lock():
        rc, out, err = C.run(["cargo", "build", "--offline", "--quiet", "--bins"], cwd=C.HARNESS)
        if rc != 0:
            print(err[-3000:])
            return 1
        mods = sorted("Rspirv.Props." + f[:-5] for f in os.listdir(os.path.join(C.LEAN, "Rspirv", "Props")) if f.endswith(".lean"))
        ok, out = C.lake_build(ctx, mods + ["driver"])
        if not ok:
            print(out[-4000:])
            return 1
    print("setup ok:", ", ".join(mods))
    return 0
