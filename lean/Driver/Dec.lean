import Rspirv.Model.Decoder
import Rspirv.Generic.Name
import Rspirv.Generated.Spirv
import Rspirv.Generated.Decode
/-! `dec` channel -/
open Rspirv Rspirv.Model

def hexVal (c : Char) : Option Nat :=
  if '0' ≤ c ∧ c ≤ '9' then some (c.toNat - 48)
  else if 'a' ≤ c ∧ c ≤ 'f' then some (c.toNat - 87)
  else if 'A' ≤ c ∧ c ≤ 'F' then some (c.toNat - 55) else none

def unhex (s : String) : Option (List Nat) :=
  if s == "-" then some [] else
  let rec go : List Char → Option (List Nat)
    | [] => some []
    | [_] => none
    | a :: b :: t => do
      let x ← hexVal a; let y ← hexVal b; let r ← go t
      pure ((x * 16 + y) :: r)
  go s.toList

def hexDigit (n : Nat) : Char := if n < 10 then Char.ofNat (48 + n) else Char.ofNat (87 + n)
def hexOf (bs : List Nat) : String :=
  if bs.isEmpty then "-" else String.ofList (bs.flatMap (fun b => [hexDigit (b / 16), hexDigit (b % 16)]))

def showErr : DErr → String
  | .streamExpected o => s!"err:StreamExpected:{o}"
  | .limitReached o => s!"err:LimitReached:{o}"
  | .decodeStringFailed o => s!"err:DecodeStringFailed:{o}"
  | .unknown v o w => s!"err:{nameString v}:{o}:{w}"

def showRes {α} (f : α → String) : Res α → Option String
  | .ok a => some ("ok:" ++ f a)
  | .err e => some (showErr e)
  | .panic _ => none

/-- typed request by generated method name -/
def decodeByName (name : String) (d : DState) : Option (Res Nat × DState) :=
  match Rspirv.Generated.Decode.decodeMethods.find? (fun m => m.1 == nameCode name) with
  | none => none
  | some (_, ix, isMask, ev) =>
    if isMask then (Rspirv.Generated.Spirv.masks[ix]?).map (fun M => DState.mask M ev d)
    else (Rspirv.Generated.Spirv.enums[ix]?).map (fun E => DState.enum E ev d)

/-- one request op; `none` = model panics, `some none` = bad request -/
def decOp (d : DState) (op : String) : Option (Option (String × DState)) :=
  let fin {α} (f : α → String) (r : Res α × DState) : Option (Option (String × DState)) :=
    match showRes f r.1 with
    | some s => some (some (s, r.2))
    | none => none
  if op == "w" || op == "id" || op == "b32" || op == "x" then fin toString (DState.word d)
  else if op == "b64" then fin toString (DState.bit64 d)
  else if op == "s" then fin (fun bs => "s" ++ hexOf bs) (DState.string d)
  else if op == "clr" then some (some ("clr", d.clearLimit))
  else if op == "off" then some (some (s!"off:{d.offset}", d))
  else if op == "has" then some (some (s!"has:{d.hasLimit}", d))
  else if op == "reached" then some (some (s!"reached:{d.limitReached}", d))
  else if op.startsWith "ws:" then
    match (op.drop 3).toString.toNat? with
    | some n => fin (fun ws => "[" ++ ",".intercalate (ws.map toString) ++ "]") (DState.words n d)
    | none => some none
  else if op.startsWith "lim:" then
    match (op.drop 4).toString.toNat? with
    | some n => some (some ("lim", d.setLimit n))
    | none => some none
  else if op.startsWith "e:" then
    match decodeByName (op.drop 2).toString d with
    | some r => fin toString r
    | none => some none
  else some none

def respondDec (ws : List String) : Option String :=
  match ws with
  | "dec" :: rest =>
    match rest.filter (· != "") with
    | [] => some "bad-request"
    | hx :: ops =>
      match unhex hx with
      | none => some "bad-request"
      | some bytes =>
        let rec go (d : DState) (out : List String) : List String → String
          | [] => "ok " ++ " ".intercalate (out.reverse ++ [s!"off:{d.offset}"])
          | op :: t =>
            match decOp d op with
            | none => "panic"
            | some none => "bad-request"
            | some (some (s, d')) => go d' (s :: out) t
        some (go (DState.new bytes) [] ops)
  | _ => none
