import Rspirv.Model.LoadBytes
import Rspirv.Model.BuilderHand
import Rspirv.Generated.Builder
import Driver.Load
import Driver.Trav
import Rspirv.Model.Hyp
/-! `build` channel: the Builder model driven by the same `name/arg/...` calls as the harness -/
open Rspirv Rspirv.Model

open Rspirv.Instances (theBTables theHTables)

def readIp (s : String) : Option InsertPoint :=
  if s == "E" then some .end_ else if s == "B" then some .begin
  else if s.startsWith "FE:" then (s.drop 3).toString.toNat?.map .fromEnd
  else if s.startsWith "FB:" then (s.drop 3).toString.toNat?.map .fromBegin
  else none

/-- value of an enum-typed argument must be a declared discriminant (`from_u32(..)?` in the harness glue) -/
def enumOk (ix n : Nat) : Bool :=
  match Rspirv.Generated.Spirv.enums[ix]? with
  | some E => (E.fromU32 n).isSome
  | none => false

def readItem (kind : Nat) (s : String) : Option (Sum Nat Operand) :=
  if kind == 2 then (readOperand s).map Sum.inr else s.toNat?.map Sum.inl

def readArg (t : PType) (s : String) : Option Arg :=
  match t with
  | .insertPoint => (readIp s).map .ip
  | .word | .u32 => s.toNat?.map .n
  | .enumT ix => s.toNat?.bind (fun n => if enumOk ix n then some (.n n) else none)
  | .maskT _ => s.toNat?.map .n
  | .str => (unhex s).map .str
  | .opt .str => if s == "-" then some (.optStr none) else (unhex s).map (fun b => .optStr (some b))
  | .opt (.enumT ix) => if s == "-" then some (.optN none) else s.toNat?.bind (fun n => if enumOk ix n then some (.optN (some n)) else none)
  | .opt _ => if s == "-" then some (.optN none) else s.toNat?.map (fun n => .optN (some n))
  | .iterWord | .iterU32 => if s == "-" then some (.ns []) else ((s.splitOn ",").mapM (fun (x : String) => x.toNat?)).map .ns
  | .iterOperand => if s == "-" then some (.ops []) else ((s.splitOn ",").mapM readOperand).map .ops
  | .iterPair a b =>
    if s == "-" then some (if a == 2 then .pairOpN [] else .pairN []) else
    let items := (s.splitOn ",").mapM (fun x => match x.splitOn "=" with
      | [l, r] => match readItem a l, readItem b r with
        | some x, some y => some (x, y)
        | _, _ => none
      | _ => none)
    match items with
    | none => none
    | some l =>
      if a == 2 then
        (l.mapM (fun (p : Sum Nat Operand × Sum Nat Operand) => match p with
          | (Sum.inr o, Sum.inl n) => some (o, n)
          | _ => none)).map Arg.pairOpN
      else
        (l.mapM (fun (p : Sum Nat Operand × Sum Nat Operand) => match p with
          | (Sum.inl x, Sum.inl y) => some (x, y)
          | _ => none)).map Arg.pairN

def readArgs : List PType → List String → Option (List Arg)
  | [], [] => some []
  | t :: ts, s :: ss => do
    let a ← readArg t s
    let r ← readArgs ts ss
    pure (a :: r)
  | _, _ => none

def findMethod (name : String) : Option MethodSpec :=
  Rspirv.Generated.Builder.methods.find? (fun m => m.name == nameCode name)

/-- a request token `name/arg/...` as a model call -/
def readCall (tok : String) : Option Call :=
  match tok.splitOn "/" with
  | [] => none
  | name :: args =>
    if name == "insert_into_block" then
      match args with
      | [ip, i] => do let p ← readIp ip; let inst ← readInst i; pure (.insertRaw p inst)
      | _ => none
    else if name == "select_function_by_name" then
      match args with
      | [nm] => (unhex nm).map Call.selectByName
      | _ => none
    else if name == "insert_types_global_values" then
      match args with
      | [ip, i] => do let p ← readIp ip; let inst ← readInst i; pure (.insertTGV p inst)
      | _ => none
    else
    match handShapes.find? (fun p => p.1 == name) with
    | some (_, shapes) => (readArgs shapes args).bind (handCall theHTables name)
    | none =>
      match findMethod name with
      | none => none
      | some m =>
        if m.wrapperOf != 0 then
          match Rspirv.Generated.Builder.methods.find? (fun c => c.name == m.wrapperOf) with
          | some callee => (readArgs m.params args).bind (fun a => callee.toCall vLitString (.optN none :: a))
          | none => none
        else (readArgs m.params args).bind (m.toCall vLitString)

def showBOut (_rule : Call) : BOut → String
  | .unit => "ok"
  | .id n => s!"ok:{n}"
  | .inst i => s!"ok:{showInst i}"
  | .err e => s!"err:{showLErr e}"
  | .errDetachedNone => "err:DetachedInstruction:-"
  | .errEmptyList => "err:EmptyInstructionList"
  | .errFunctionNotFound => "err:FunctionNotFound"
  | .errBlockNotFound => "err:BlockNotFound"
  | .panic _ => "panic"

def respondBuild (ws : List String) : Option String :=
  match ws with
  | "build" :: rest =>
    let toks := rest.filter (· != "")
    let (s0, toks) : BState × List String := match toks with
      | t :: r => if t.startsWith "from:" then
          match (t.drop 5).toString.toNat? with
          | some b => ({ BState.new with module := { BState.new.module with header := some { hdrNew77 with bound := b } }, nextId := b }, r)
          | none => (BState.new, toks)
        else (BState.new, toks)
      | [] => (BState.new, [])
    let rec go (s : BState) (out : List String) : List String → String
      | [] =>
        let sel := s!"sel:{showOpt s.selFn},{showOpt s.selBlk}"
        "ok " ++ " ".intercalate out.reverse ++ " | " ++ sel ++ " | " ++ showModule (s.finish theBTables)
      | t :: ts =>
        if t.startsWith "continue:" then
          -- finish, loosen the bound, `Builder::new_from_module`
          match (t.drop 9).toString.toNat? with
          | none => "bad-request"
          | some slack =>
            let m := s.finish theBTables
            match m.header with
            | none => "bad-request"
            | some h =>
              let b := (h.bound + slack) % 4294967296
              go { module := { m with header := some { h with bound := b } }, nextId := b, selFn := none, selBlk := none }
                (s!"continued:{b}" :: out) ts
        else
        match readCall t with
        | none => s!"bad-request {t}"
        | some c =>
          let (s', o) := s.step theBTables c
          match o with
          | .panic _ => "panic"
          | _ => go s' (showBOut c o :: out) ts
    some (go s0 [] toks)
  | _ => none

/-! `buildrt` channel: build, assemble, load back, compare -/

def wordBytes (w : Nat) : List Nat := [w % 256, w / 256 % 256, w / 65536 % 256, w / 16777216 % 256]

/-- `Module::assemble` with the regenerated traversal/assembly orders -/
def moduleWords (m : Module Inst) : List Nat := Rspirv.Props.C15.assemble assembleInst m

/-- `dr::load_bytes`: the parser model feeding the loader model (a consumer that answers `error` when the loader
rejects an instruction is modelled by stopping at the first loader error) -/
def loadBytesModel (bytes : List Nat) : Except String (Module Inst) :=
  match loadBytes theTables theLTables bytes with
  | .ok m => .ok m
  | .error (.parse e) => .error (showPErr e)
  | .error (.loader e) => .error s!"ConsumerError:{showLErr e}"
  | .error (.panic _) => .error "panic"

def respondBuildRt (ws : List String) : Option String :=
  match ws with
  | "buildrt" :: rest =>
    let toks := rest.filter (· != "")
    let rec go (s : BState) (out : List String) : List String → String
      | [] =>
        let m := s.finish theBTables
        let built := showModule m
        let bytes := (moduleWords m).flatMap wordBytes
        let loaded := match loadBytesModel bytes with
          | .ok l => showModule l
          | .error e => s!"load-error:{e}"
        let verdict := if built == loaded then "same" else s!"differ loaded=[{loaded}]"
        "ok " ++ " ".intercalate out.reverse ++ " | " ++ verdict ++ s!" | built=[{built}]"
      | t :: ts =>
        match readCall t with
        | none => s!"bad-request {t}"
        | some c =>
          let (s', o) := s.step theBTables c
          match o with
          | .panic _ => "panic"
          | _ => go s' (showBOut c o :: out) ts
    some (go BState.new [] toks)
  | _ => none

/-! `buildhyp` channel (driver only): is the history inside the scope of `C06_roundtrip`? -/

def respondBuildHyp (ws : List String) : Option String :=
  match ws with
  | "buildhyp" :: rest =>
    let toks := rest.filter (· != "")
    match toks.mapM readCall with
    | none => some "bad-request"
    | some cs =>
      let s := (BState.run theBTables BState.new cs).1
      let m := s.finish theBTables
      let words := moduleWords m
      let b (x : Bool) : String := if x then "1" else "0"
      some s!"ok plain={b (plainRunB theLTables theBTables BState.new cs)} complete={b s.selFn.isNone} grammar={b (grammarStreamB theTables [] (Rspirv.Props.C15.allInstIter m))} words32={b (words.all (· < 4294967296))} calls={cs.length}"
  | _ => none
