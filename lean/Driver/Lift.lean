import Rspirv.Instances
import Driver.Disas
/-! `lift <hexbytes>` channel: load, then `LiftContext::convert`, printed in the canonical generic form -/
open Rspirv Rspirv.Model

partial def showLVal : LVal → String
  | .num n => toString n
  | .str b => "s" ++ hexOf b
  | .tok n => s!"t{n}"
  | .member n => s!"m{n}"
  | .jump n => s!"j{n}"
  | .none => "-"
  | .some v => "?" ++ showLVal v
  | .list vs => "[" ++ ";".intercalate (vs.map showLVal) ++ "]"
  | .pair a b => "(" ++ showLVal a ++ ";" ++ showLVal b ++ ")"
  | .withIds v ids => "(" ++ toString v ++ ";[" ++ ";".intercalate (ids.map toString) ++ "])"

def showLNode (n : LNode) : String :=
  nameString n.ctor ++ "{" ++ ",".intercalate (n.fields.map (fun p => (if p.1 == 0 then "0" else nameString p.1) ++ "=" ++ showLVal p.2)) ++ "}"

def showLiErr : LiErr → String
  | .wrongOpcode => "WrongOpcode" | .missingResult => "MissingResult" | .operand .wrongType => "Operand(WrongType)"
  | .operand .wrongEnumValue => "Operand(WrongEnumValue)" | .operand .missing => "Operand(Missing)"

def showConvErr : ConvErr → String
  | .missingHeader => "MissingHeader" | .missingFunction => "MissingFunction" | .missingFunctionType => "MissingFunctionType"
  | .missingLabel => "MissingLabel" | .missingTerminator => "MissingTerminator" | .inst e => s!"Instruction({showLiErr e})"

def showLModule (m : LModule) : String :=
  let fns := m.functions.map (fun f =>
    s!"F ctl={showLVal f.control} res=t{f.result} start=t{f.start} " ++
      " ".intercalate (f.blocks.map (fun b => "B args=[" ++ ";".intercalate (b.args.map showLVal) ++ "] term=" ++ showLNode b.term)))
  s!"ok v={m.version} | caps=[" ++ ";".intercalate (m.capabilities.map showLVal) ++ "] | mm=" ++ showLNode m.memoryModel ++
    " | T " ++ " ".intercalate (m.types.map showLNode) ++ " | C " ++ " ".intercalate (m.consts.map showLNode) ++
    " | O " ++ " ".intercalate (m.ops.map showLNode) ++ " | " ++ " ".intercalate fns

def respondLift (ws : List String) : Option String :=
  match ws with
  | ["lift", hx] =>
    match unhex hx with
    | none => some "bad-request"
    | some bytes =>
      match loadBytes theTables theLTables bytes with
      | .error _ => some "load-error"
      | .ok m =>
        match convert Rspirv.Instances.theLiftTables m with
        | .ok lm => some (showLModule lm)
        | .err e => some ("err " ++ showConvErr e)
        | .panic _ => some "panic"
  | ["liftv", v, hx] =>
    -- the module's header version word overwritten after loading (a `dr::Module` can carry any word there)
    match unhex hx, v.toNat? with
    | some bytes, some vw =>
      match loadBytes theTables theLTables bytes with
      | .error _ => some "load-error"
      | .ok m =>
        let m' : Module Inst := { m with header := m.header.map (fun h => { h with version := vw }) }
        match convert Rspirv.Instances.theLiftTables m' with
        | .ok lm => some (showLModule lm)
        | .err e => some ("err " ++ showConvErr e)
        | .panic _ => some "panic"
    | _, _ => some "bad-request"
  | _ => none
