import Rspirv.Props.C15
import Rspirv.Generated.Spirv
/-! `trav` channel: the traversal/assembly model on module values over instruction numbers -/
open Rspirv.Model

def parseKs (s : String) : Option (List Nat) :=
  if s == "-" || s == "" then some [] else (s.splitOn ",").mapM (·.toNat?)
def parseOptK (s : String) : Option (Option Nat) :=
  if s == "-" then some none else s.toNat?.map some

def emptyModule : Module Nat := ⟨none, [], [], [], none, [], [], [], [], [], [], [], []⟩

def updLast {α} (l : List α) (f : α → α) : Option (List α) :=
  match l.reverse with
  | [] => none
  | x :: r => some ((f x :: r).reverse)

/-- header of `ModuleHeader::new(77)` -/
def hdr77 : Header :=
  { magic := Rspirv.Generated.Spirv.const_MAGIC_NUMBER,
    version := Rspirv.Generated.Spirv.const_MAJOR_VERSION * 65536 + Rspirv.Generated.Spirv.const_MINOR_VERSION * 256,
    generator := 0x000f0000, bound := 77, reserved := 0 }

def parseModuleTok (m : Module Nat) (tok : String) : Option (Module Nat) :=
  if tok == "F" then some { m with functions := m.functions ++ [⟨none, none, [], []⟩] }
  else if tok == "B" then
    (updLast m.functions (fun f => { f with blocks := f.blocks ++ [⟨none, []⟩] })).map (fun fs => { m with functions := fs })
  else
    match tok.splitOn ":" with
    | [k, v] =>
      let fnUpd (g : Function Nat → Function Nat) := (updLast m.functions g).map (fun fs => { m with functions := fs })
      let blkUpd (g : Block Nat → Block Nat) : Option (Module Nat) :=
        match m.functions.reverse with
        | [] => none
        | f :: r => (updLast f.blocks g).map (fun bs => { m with functions := (({ f with blocks := bs }) :: r).reverse })
      match k with
      | "h" => some (if v == "1" then { m with header := some hdr77 } else m)
      | "s0" => (parseKs v).map (fun x => { m with capabilities := x })
      | "s1" => (parseKs v).map (fun x => { m with extensions := x })
      | "s2" => (parseKs v).map (fun x => { m with extInstImports := x })
      | "mm" => (parseOptK v).map (fun x => { m with memoryModel := x })
      | "s4" => (parseKs v).map (fun x => { m with entryPoints := x })
      | "s5" => (parseKs v).map (fun x => { m with executionModes := x })
      | "s6" => (parseKs v).map (fun x => { m with debugStringSource := x })
      | "s7" => (parseKs v).map (fun x => { m with debugNames := x })
      | "s8" => (parseKs v).map (fun x => { m with debugModuleProcessed := x })
      | "s9" => (parseKs v).map (fun x => { m with annotations := x })
      | "s10" => (parseKs v).map (fun x => { m with typesGlobalValues := x })
      | "d" => (parseOptK v).bind (fun x => fnUpd (fun f => { f with def_ := x }))
      | "e" => (parseOptK v).bind (fun x => fnUpd (fun f => { f with end_ := x }))
      | "p" => (parseKs v).bind (fun x => fnUpd (fun f => { f with params := x }))
      | "l" => (parseOptK v).bind (fun x => blkUpd (fun b => { b with label := x }))
      | "i" => (parseKs v).bind (fun x => blkUpd (fun b => { b with insts := x }))
      | _ => none
    | _ => none

def parseModule (toks : List String) : Option (Module Nat) :=
  toks.foldlM parseModuleTok emptyModule

def showKs (l : List Nat) : String := if l.isEmpty then "-" else ",".intercalate (l.map toString)

/-- `OpUndef %k %k` -/
def asmK (k : Nat) : List Nat := [3 * 65536 + 1, k, k]

def respondTrav (ws : List String) : Option String :=
  match ws with
  | "trav" :: rest =>
    match parseModule (rest.filter (· != "")) with
    | none => some "bad-request"
    | some m =>
      open Rspirv.Props.C15 in
      let f := m.functions.map (fun f => showKs (fnAllInstIter f))
      let fm := m.functions.map (fun f => showKs (fnAllInstIterMut f))
      some (s!"ok g:{showKs (globalInstIter m)} gm:{showKs (globalInstIterMut m)} a:{showKs (allInstIter m)} " ++
        s!"am:{showKs (allInstIterMut m)} f:{if f.isEmpty then "-" else ";".intercalate f} " ++
        s!"fm:{if fm.isEmpty then "-" else ";".intercalate fm} asm:{showKs (assemble asmK m)}")
  | _ => none
