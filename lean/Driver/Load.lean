import Rspirv.Model.Loader
import Driver.Parse
/-! `load` channel: the loader model driven like the harness drives `dr::Loader` -/
open Rspirv Rspirv.Model

abbrev reflectBit := Rspirv.Instances.reflectBit
abbrev theLTables : LTables := Rspirv.Instances.theLTables

def showInsts (l : List Inst) : String := if l.isEmpty then "-" else "|".intercalate (l.map showInst)
def showOptInst : Option Inst → String
  | some i => showInst i
  | none => "-"

def showModule (m : Module Inst) : String :=
  let hdr := match m.header with
    | some h => s!"h:{h.magic},{h.version},{h.generator},{h.bound},{h.reserved}"
    | none => "h:-"
  let secs := [s!"s0:{showInsts m.capabilities}", s!"s1:{showInsts m.extensions}", s!"s2:{showInsts m.extInstImports}",
    s!"mm:{showOptInst m.memoryModel}", s!"s4:{showInsts m.entryPoints}", s!"s5:{showInsts m.executionModes}",
    s!"s6:{showInsts m.debugStringSource}", s!"s7:{showInsts m.debugNames}", s!"s8:{showInsts m.debugModuleProcessed}",
    s!"s9:{showInsts m.annotations}", s!"s10:{showInsts m.typesGlobalValues}"]
  let fns := m.functions.flatMap (fun f =>
    s!"F d:{showOptInst f.def_} e:{showOptInst f.end_} p:{showInsts f.params}" ::
      f.blocks.map (fun b => s!"B l:{showOptInst b.label} i:{showInsts b.insts}"))
  " ".intercalate (hdr :: secs ++ fns)

def showLErr : LErr → String
  | .nestedFunction => "NestedFunction" | .unclosedFunction => "UnclosedFunction"
  | .mismatchedFunctionEnd => "MismatchedFunctionEnd" | .detachedFunctionParameter => "DetachedFunctionParameter"
  | .detachedBlock => "DetachedBlock" | .nestedBlock => "NestedBlock" | .unclosedBlock => "UnclosedBlock"
  | .mismatchedTerminator => "MismatchedTerminator" | .detachedInstruction o => s!"DetachedInstruction:{o}"

/-- header of `ModuleHeader::new(77)` -/
def hdrNew77 : Header :=
  { magic := Rspirv.Generated.Spirv.const_MAGIC_NUMBER,
    version := Rspirv.Generated.Spirv.const_MAJOR_VERSION * 65536 + Rspirv.Generated.Spirv.const_MINOR_VERSION * 256,
    generator := 0x000f0000, bound := 77, reserved := 0 }

def respondLoad (ws : List String) : Option String :=
  match ws with
  | "load" :: rest =>
    match (rest.filter (· != "")).mapM readInst with
    | none => some "bad-request"
    | some is =>
      let rec go (s : LState) (k : Nat) : List Inst → String
        | [] => match s.finalize with
          | .ok m => "ok " ++ showModule m
          | .error e => s!"err {showLErr e} at fin"
        | i :: t => match s.step theLTables i with
          | .ok s' => go s' (k + 1) t
          | .error e => s!"err {showLErr e} at {k}"
      some (go (LState.start hdrNew77) 0 is)
  | _ => none
