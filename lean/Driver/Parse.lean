import Rspirv.Model.Assemble
import Rspirv.Generated.Operands
import Rspirv.Generated.Extracted
import Rspirv.Generated.Grammar
import Rspirv.Generated.Spirv
import Driver.Dec
import Rspirv.Instances
/-! `parse` and `asm` channels -/
open Rspirv Rspirv.Model

abbrev theTables : Tables := Rspirv.Instances.theTables

def vLit64 : Nat := Rspirv.Generated.Operands.v_LiteralBit64
def vLitString : Nat := Rspirv.Generated.Operands.v_LiteralString

def showOperand : Operand → String
  | .w v n => s!"{v}:{n}"
  | .q n => s!"{vLit64}:Q{n}"
  | .s bs => s!"{vLitString}:S{hexOf bs}"

def showOpt : Option Nat → String
  | some n => toString n
  | none => "-"

def showInst (i : Inst) : String :=
  s!"{i.opcode};{showOpt i.rtype};{showOpt i.rid};" ++
    (if i.operands.isEmpty then "-" else ",".intercalate (i.operands.map showOperand))

def showDErr (e : DErr) : String := showErr e

def showIErr : IErr → String
  | .complete => "Complete"
  | .wordCountZero o i => s!"WordCountZero:{o}:{i}"
  | .opcodeUnknown o i op => s!"OpcodeUnknown:{o}:{i}:{op}"
  | .operandExpected o i => s!"OperandExpected:{o}:{i}"
  | .operandExceeded o i => s!"OperandExceeded:{o}:{i}"
  | .operandError e => s!"OperandError:{showDErr e}"
  | .typeUnsupported o i => s!"TypeUnsupported:{o}:{i}"
  | .specConstantOpIntegerIncorrect o i => s!"SpecConstantOpIntegerIncorrect:{o}:{i}"

def showPErr : PErr → String
  | .consumerStop => "ConsumerStopRequested"
  | .consumerError k => s!"ConsumerError:script{k}"
  | .headerIncomplete e => s!"HeaderIncomplete:{showDErr e}"
  | .headerIncorrect => "HeaderIncorrect"
  | .endiannessUnsupported => "EndiannessUnsupported"
  | .inst e => showIErr e

def parseScript (toks : List String) : Option (List (Nat × Action)) :=
  toks.mapM (fun t => match t.splitOn ":" with
    | [k, "s"] => k.toNat?.map (fun k => (k, Action.stop))
    | [k, "e"] => k.toNat?.map (fun k => (k, Action.error))
    -- error answers whose boxed value is itself a `ParseState`: still the consumer's own error value
    | [k, "p"] => k.toNat?.map (fun k => (k, Action.error))
    | [k, "q"] => k.toNat?.map (fun k => (k, Action.error))
    | [k, "c"] => k.toNat?.map (fun k => (k, Action.error))
    | _ => none)

/-- what the harness prints for the consumer's error value at callback `k` -/
def payloadText (toks : List String) (k : Nat) : String :=
  match toks.findSome? (fun t => match t.splitOn ":" with
      | [k', f] => if k'.toNat? == some k then some f else none
      | _ => none) with
  | some "p" => "state:incorrect_module_header"
  | some "q" => "state:stop_parsing_requested_by_consumer"
  | some "c" => "state:completed_parsing"
  | _ => s!"script{k}"

def scriptFn (s : List (Nat × Action)) (k : Nat) : Action :=
  match s.find? (fun p => p.1 == k) with
  | some p => p.2
  | none => .continue_

def showRun (r : Run) (script : List String := []) : String :=
  match r.result with
  | .panic _ => "panic"
  | res =>
    let st := match res with
      | .ok _ => "ok"
      | .err (.consumerError k) => "ConsumerError:" ++ payloadText script k
      | .err e => showPErr e
      | .panic _ => "panic"
    let tr := String.ofList (r.trace.map (fun e => match e with
      | .init => 'I' | .header _ => 'H' | .inst _ => 'i' | .fin => 'F'))
    let hdr := match r.trace.findSome? (fun e => match e with | .header h => some h | _ => none) with
      | some h => s!"{h.magic},{h.version},{h.generator},{h.bound},{h.reserved}"
      | none => "-"
    let insts := r.trace.filterMap (fun e => match e with | .inst i => some (showInst i) | _ => none)
    s!"{st} | trace:{tr} | hdr:{hdr} | " ++ " ".intercalate insts

def readOperand (s : String) : Option Operand :=
  match s.splitOn ":" with
  | [ix, p] =>
    match ix.toNat? with
    | none => none
    | some v =>
      if p.startsWith "Q" then (p.drop 1).toString.toNat?.map Operand.q
      else if p.startsWith "S" then (unhex (p.drop 1).toString).map Operand.s
      else p.toNat?.map (Operand.w v)
  | _ => none

def readOptNat (s : String) : Option (Option Nat) := if s == "-" then some none else s.toNat?.map some

def readInst (s : String) : Option Inst :=
  match s.splitOn ";" with
  | [op, rt, rid, ops] => do
    let op ← op.toNat?
    let rt ← readOptNat rt
    let rid ← readOptNat rid
    let ops ← if ops == "-" then some [] else (ops.splitOn ",").mapM readOperand
    pure ⟨op, rt, rid, ops⟩
  | _ => none

/-- `binary::parse_bytes` / `binary::parse_words`: the same parse through the other two entry points (`parse_words` views the
words as their little-endian bytes) -/
def respondParseEntry (rest : List String) (wordsOnly : Bool) : Option String :=
  match rest.filter (· != "") with
  | [] => some "bad-request"
  | hx :: script =>
    match unhex hx, parseScript script with
    | some bytes, some sc =>
      if wordsOnly && bytes.length % 4 != 0 then some "bad-request"
      else some (showRun (parse theTables (scriptFn sc) bytes) script)
    | _, _ => some "bad-request"

def respondParse (ws : List String) : Option String :=
  match ws with
  | "parse" :: rest =>
    match rest.filter (· != "") with
    | [] => some "bad-request"
    | hx :: script =>
      match unhex hx, parseScript script with
      | some bytes, some sc => some (showRun (parse theTables (scriptFn sc) bytes) script)
      | _, _ => some "bad-request"
  | "parseb" :: rest => respondParseEntry rest false
  | "parsew" :: rest => respondParseEntry rest true
  | ["asm", i] =>
    match readInst i with
    | some inst => some ("ok " ++ ",".intercalate ((assembleInst inst).map toString))
    | none => some "bad-request"
  | _ => none
