import Rspirv.Generated.Traversals
import Rspirv.Model.Disasm
import Rspirv.Generated.Disas
import Rspirv.Generated.Reflect
import Driver.Build
/-! `disasop` / `disasinst` / `disasbin` channels (text returned as hex of its UTF-8 bytes) -/
open Rspirv Rspirv.Model

abbrev theDTables : DisTables := Rspirv.Instances.theDTables

def hexOfString (s : String) : String := hexOf (s.toUTF8.toList.map (·.toNat))

def respondDisas (ws : List String) : Option String :=
  match ws with
  | ["disasop", o] =>
    match readOperand o with
    | some op => some ("ok " ++ hexOfString (disasOperand theDTables op))
    | none => some "bad-request"
  | ["disasinst", i] =>
    match readInst i with
    | some inst => some ("ok " ++ hexOfString (disasInst theDTables inst))
    | none => some "bad-request"
  | ["disasbin", hx] =>
    match unhex hx with
    | none => some "bad-request"
    | some bytes =>
      match loadBytes theTables theLTables bytes with
      | .ok m => some ("ok " ++ hexOfString (disasText theDTables m))
      | .error e => match loadErrText theTables.core bytes e with
        | some t => some ("err " ++ hexOfString t)
        | none => some "panic"
  | ["loadasm", hx] =>
    match unhex hx with
    | none => some "bad-request"
    | some bytes =>
      match loadBytes theTables theLTables bytes with
      | .ok m => some ("ok " ++ ",".intercalate ((moduleWords m).map toString))
      | .error e => match loadErrText theTables.core bytes e with
        | some t => some ("err " ++ hexOfString t)
        | none => some "panic"
  | ["dismain", hx] =>
    match unhex hx with
    | none => some "bad-request"
    | some bytes =>
      match disMain theTables theLTables theDTables bytes with
      | some out => some ("exit0 " ++ hexOfString out)
      | none => some "panic"
  | _ => none
