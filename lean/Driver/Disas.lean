import Rspirv.Model.Hyp
import Rspirv.Generated.Traversals
import Rspirv.Model.Disasm
import Rspirv.Generated.Disas
import Rspirv.Generated.Reflect
import Driver.Build
/-! `disasop` / `disasinst` / `disasbin` channels (text returned as hex of its UTF-8 bytes) -/
open Rspirv Rspirv.Model

abbrev theDTables : DisTables := Rspirv.Instances.theDTables

def hexOfString (s : String) : String := hexOf (s.toUTF8.toList.map (·.toNat))

def respondDisas (ws : List String) : Option String :=
  match ws with
  | ["disasop", o] =>
    match readOperand o with
    | some op => some ("ok " ++ hexOfString (disasOperand theDTables op))
    | none => some "bad-request"
  | ["disasinst", i] =>
    match readInst i with
    | some inst => some ("ok " ++ hexOfString (disasInst theDTables inst))
    | none => some "bad-request"
  | ["disasraw", ver, gen, bound, imports, globals, block] =>
    let list (s : String) : Option (List Inst) := if s == "-" then some [] else (s.splitOn "/").mapM readInst
    match ver.toNat?, gen.toNat?, bound.toNat?, list imports, list globals, list block with
    | some v, some g, some b, some is, some gs, some bs =>
      let fns : List (Function Inst) := if bs.isEmpty then [] else [⟨none, none, [], [⟨none, bs⟩]⟩]
      let m : Module Inst := ⟨some ⟨Rspirv.Generated.Spirv.const_MAGIC_NUMBER, v, g, b, 0⟩, [], [], is, none, [], [], [], [], [], [], gs, fns⟩
      some ("ok " ++ hexOfString (disasText theDTables m))
    | _, _, _, _, _, _ => some "bad-request"
  | ["disasbin", hx] =>
    match unhex hx with
    | none => some "bad-request"
    | some bytes =>
      match loadBytes theTables theLTables bytes with
      | .ok m => some ("ok " ++ hexOfString (disasText theDTables m))
      | .error e => match loadErrText theTables.core bytes e with
        | some t => some ("err " ++ hexOfString t)
        | none => some "panic"
  | ["loadasm", hx] =>
    match unhex hx with
    | none => some "bad-request"
    | some bytes =>
      match loadBytes theTables theLTables bytes with
      | .ok m => some ("ok " ++ ",".intercalate ((moduleWords m).map toString))
      | .error e => match loadErrText theTables.core bytes e with
        | some t => some ("err " ++ hexOfString t)
        | none => some "panic"
  | ["loadasmw", hx] =>
    -- `dr::load_words` + `Module::assemble_into`: the same load and the same words through the other entry points
    match unhex hx with
    | none => some "bad-request"
    | some bytes =>
      if bytes.length % 4 != 0 then some "bad-request" else
      match loadBytes theTables theLTables bytes with
      | .ok m => some ("ok " ++ ",".intercalate ((moduleWords m).map toString))
      | .error e => match loadErrText theTables.core bytes e with
        | some t => some ("err " ++ hexOfString t)
        | none => some "panic"
  | ["reloadhyp", hx] =>
    -- scope of `C01_reload_bytes`: accepted, traversal of the loaded module a grammar stream, 32-bit words
    match unhex hx with
    | none => some "bad-request"
    | some bytes =>
      match loadBytes theTables theLTables bytes with
      | .ok m =>
        let b (x : Bool) : String := if x then "1" else "0"
        some s!"ok grammar={b (grammarStreamB theTables [] (Rspirv.Props.C15.allInstIter m))} words32={b ((moduleWords m).all (· < 4294967296))}"
      | .error _ => some "rejected"
  | ["dismain", hx] =>
    match unhex hx with
    | none => some "bad-request"
    | some bytes =>
      match disMain theTables theLTables theDTables bytes with
      | some out => some ("exit0 " ++ hexOfString out)
      | none => some "panic"
  | _ => none
