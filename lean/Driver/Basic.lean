import Rspirv.Generic.Name
import Rspirv.Generated.Spirv
import Rspirv.Generated.Grammar
/-! probes of the regenerated enum / mask / grammar-table models -/
open Rspirv

def findEnum (nm : String) : Option EnumSpec :=
  Rspirv.Generated.Spirv.enums.find? (fun E => E.name == nameCode nm)
def findMask (nm : String) : Option MaskSpec :=
  Rspirv.Generated.Spirv.masks.find? (fun M => M.name == nameCode nm)

def respondBasic (ws : List String) : Option String :=
  match ws with
  | ["enum", e, n] =>
    match findEnum e, n.toNat? with
    | some E, some k =>
      match E.fromU32 k with
      | some d =>
        -- Debug name: the first declared variant with that discriminant
        let nm := match E.decl.find? (fun p => p.2 == d) with
          | some p => nameString p.1
          | none => "<undeclared>"
        some (s!"enum {e} {n} some {d} {nm}")
      | none => some (s!"enum {e} {n} none - -")
    | _, _ => some (s!"enum {e} {n} unknown-enum - -")
  | ["str", e, s] =>
    match findEnum e with
    | some E =>
      if !E.hasFromStr then some (s!"str {e} {s} unknown-enum -") else
      match E.fromStrName (nameCode s) with
      | some v => match E.valueOf v with
        | some d => some (s!"str {e} {s} some {d}")
        | none => some (s!"str {e} {s} some <undeclared>")
      | none => some (s!"str {e} {s} none -")
    | none => some (s!"str {e} {s} unknown-enum -")
  | ["alias", e, a] =>
    match findEnum e with
    | some E => match lookupNat E.aliases (nameCode a) with
      | some t => match E.valueOf t with
        | some d => some (s!"alias {e} {a} {d}")
        | none => some (s!"alias {e} {a} unknown")
      | none => some (s!"alias {e} {a} unknown")
    | none => some (s!"alias {e} {a} unknown")
  | ["mask", m, n] =>
    match findMask m, n.toNat? with
    | some M, some k => match M.fromBits k with
      | some v => some (s!"mask {m} {n} some {v}")
      | none => some (s!"mask {m} {n} none -")
    | _, _ => some (s!"mask {m} {n} unknown-mask -")
  | ["maskall", m] =>
    match findMask m with
    | some M => some (s!"maskall {m} {M.allBits}")
    | none => some (s!"maskall {m} unknown")
  | ["maskconst", m, c] =>
    match findMask m with
    | some M => match lookupNat M.consts (nameCode c) with
      | some v => some (s!"maskconst {m} {c} {v}")
      | none => some (s!"maskconst {m} {c} unknown")
    | none => some (s!"maskconst {m} {c} unknown")
  | ["lookup", t, n] =>
    let tbl := if t == "core" then Rspirv.Generated.Grammar.coreTable
               else if t == "glsl" then Rspirv.Generated.Grammar.glslTable
               else Rspirv.Generated.Grammar.openclTable
    match n.toNat? with
    | some k => match lookupOpcode tbl k with
      | some e => some (s!"lookup {t} {n} some {nameString e.name} {e.opcode}")
      | none => some (s!"lookup {t} {n} none")
    | none => some ("bad-request")
  | _ => none

