import Rspirv.Model.Storage
/-! `store` / `storef` channels: the storage model on the same request lines as the harness -/
open Rspirv.Model.Storage

structure V where
  payload : Nat
  cls : Nat

/-- the harness's deliberately irreflexive, asymmetric equality -/
def vEq (a b : V) : Bool :=
  a.cls != 0 && ((a.cls == b.cls && !(decide (1000 ≤ a.cls) && decide (a.cls < 2000))) || (decide (a.cls ≥ 100) && a.cls + 1 == b.cls))

def isNaN32 (b : Nat) : Bool := (b / 8388608) % 256 == 255 && b % 8388608 != 0
/-- IEEE-754 binary32 equality on bit patterns -/
def f32Eq (a b : Nat) : Bool :=
  !isNaN32 a && !isNaN32 b && (a == b || (a % 2147483648 == 0 && b % 2147483648 == 0))

def runStore {α} (eq : α → α → Bool) (parse : String → Option α) (show_ : α → String) (ws : List String) : String :=
  let rec go (s : List α) (toks : List Nat) (out : List String) : List String → Option (List α × List Nat × List String)
    | [] => some (s, toks.reverse, out.reverse)
    | w :: rest =>
      let k := (w.take 2).toString
      match parse (w.drop 2).toString with
      | none => none
      | some v =>
        let r := if k == "a:" then some (step eq s (.append v)) else if k == "f:" then some (step eq s (.fetch v)) else none
        match r with
        | none => none
        | some (s', t) =>
          let shown := match s'[t]? with | some x => show_ x | none => "<invalid-token>"
          go s' (t :: toks) (s!"{t}={shown}" :: out) rest
  match go [] [] [] ws with
  | none => "bad-request"
  | some (s, toks, out) =>
    let fin := toks.map (fun t => match s[t]? with | some x => show_ x | none => "<invalid-token>")
    "ok " ++ " ".intercalate out ++ " | " ++ " ".intercalate fin

def respondStore (ws : List String) : Option String :=
  match ws with
  | "store" :: rest =>
    some (runStore vEq (fun s => match s.splitOn ":" with
      | [p, c] => match p.toNat?, c.toNat? with
        | some p, some c => some { payload := p, cls := c }
        | _, _ => none
      | _ => none) (fun v => toString v.payload) (rest.filter (· != "")))
  | "storef" :: rest =>
    some (runStore f32Eq (fun s => s.toNat?) (fun v => toString v) (rest.filter (· != "")))
  | "storez" :: mode :: rest =>
    -- zero-sized values: every two values are equal (`r`) or no value equals any (`i`)
    if mode == "r" || mode == "i" then
      some (runStore (fun (_ _ : Unit) => mode == "r") (fun _ => some ()) (fun _ => "z") (rest.filter (· != "")))
    else some "bad-request"
  | _ => none
