import Rspirv.Generic.Name
import Rspirv.Generated.Spirv
import Rspirv.Generated.Grammar
/-!
Line-protocol driver: evaluates the Lean model's executable definitions on requests read from stdin,
one response per line. Built as a `lean_exe` (imports nothing outside core/Std).
-/
open Rspirv

def findEnum (nm : String) : Option EnumSpec :=
  Rspirv.Generated.Spirv.enums.find? (fun E => E.name == nameCode nm)
def findMask (nm : String) : Option MaskSpec :=
  Rspirv.Generated.Spirv.masks.find? (fun M => M.name == nameCode nm)

def respond (line : String) : String :=
  match line.splitOn " " with
  | ["enum", e, n] =>
    match findEnum e, n.toNat? with
    | some E, some k =>
      match E.fromU32 k with
      | some d =>
        -- Debug name: the first declared variant with that discriminant
        let nm := match E.decl.find? (fun p => p.2 == d) with
          | some p => nameString p.1
          | none => "<undeclared>"
        s!"enum {e} {n} some {d} {nm}"
      | none => s!"enum {e} {n} none - -"
    | _, _ => s!"enum {e} {n} unknown-enum - -"
  | ["str", e, s] =>
    match findEnum e with
    | some E =>
      if !E.hasFromStr then s!"str {e} {s} unknown-enum -" else
      match E.fromStrName (nameCode s) with
      | some v => match E.valueOf v with
        | some d => s!"str {e} {s} some {d}"
        | none => s!"str {e} {s} some <undeclared>"
      | none => s!"str {e} {s} none -"
    | none => s!"str {e} {s} unknown-enum -"
  | ["alias", e, a] =>
    match findEnum e with
    | some E => match lookupNat E.aliases (nameCode a) with
      | some t => match E.valueOf t with
        | some d => s!"alias {e} {a} {d}"
        | none => s!"alias {e} {a} unknown"
      | none => s!"alias {e} {a} unknown"
    | none => s!"alias {e} {a} unknown"
  | ["mask", m, n] =>
    match findMask m, n.toNat? with
    | some M, some k => match M.fromBits k with
      | some v => s!"mask {m} {n} some {v}"
      | none => s!"mask {m} {n} none -"
    | _, _ => s!"mask {m} {n} unknown-mask -"
  | ["maskall", m] =>
    match findMask m with
    | some M => s!"maskall {m} {M.allBits}"
    | none => s!"maskall {m} unknown"
  | ["maskconst", m, c] =>
    match findMask m with
    | some M => match lookupNat M.consts (nameCode c) with
      | some v => s!"maskconst {m} {c} {v}"
      | none => s!"maskconst {m} {c} unknown"
    | none => s!"maskconst {m} {c} unknown"
  | ["lookup", t, n] =>
    let tbl := if t == "core" then Rspirv.Generated.Grammar.coreTable
               else if t == "glsl" then Rspirv.Generated.Grammar.glslTable
               else Rspirv.Generated.Grammar.openclTable
    match n.toNat? with
    | some k => match lookupOpcode tbl k with
      | some e => s!"lookup {t} {n} some {nameString e.name} {e.opcode}"
      | none => s!"lookup {t} {n} none"
    | none => "bad-request"
  | _ => "bad-request"

partial def loop (h : IO.FS.Stream) (out : IO.FS.Stream) : IO Unit := do
  let line ← h.getLine
  if line.isEmpty then return ()
  let l := (line.dropEndWhile (fun c => c == '\n' || c == '\r')).toString
  if !l.isEmpty then out.putStrLn (respond l)
  loop h out

def main : IO Unit := do
  let out ← IO.getStdout
  loop (← IO.getStdin) out
