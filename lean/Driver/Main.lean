import Driver.Basic
import Driver.Store
import Driver.Trav
import Driver.Dec
import Driver.Parse
import Driver.Load
import Driver.Build
import Driver.Reflect
import Driver.Disas
import Driver.Lift
/-!
Line-protocol driver: evaluates the Lean model's executable definitions on requests read from stdin,
one response per line. Built as a `lean_exe` (imports nothing outside core/Std).
-/

def respond (line : String) : String :=
  let ws := line.splitOn " "
  match respondBasic ws with
  | some r => r
  | none =>
  match respondStore ws with
  | some r => r
  | none =>
  match respondTrav ws with
  | some r => r
  | none =>
  match respondDec ws with
  | some r => r
  | none =>
  match respondParse ws with
  | some r => r
  | none =>
  match respondLoad ws with
  | some r => r
  | none =>
  match respondBuild ws with
  | some r => r
  | none =>
  match respondBuildRt ws with
  | some r => r
  | none =>
  match respondBuildHyp ws with
  | some r => r
  | none =>
  match respondReflect ws with
  | some r => r
  | none =>
  match respondDisas ws with
  | some r => r
  | none =>
  match respondLift ws with
  | some r => r
  | none => "bad-request"

partial def loop (h : IO.FS.Stream) (out : IO.FS.Stream) : IO Unit := do
  let line ← h.getLine
  if line.isEmpty then return ()
  let l := (line.dropEndWhile (fun c => c == '\n' || c == '\r')).toString
  if !l.isEmpty then out.putStrLn (respond l)
  loop h out

def main : IO Unit := do
  let out ← IO.getStdout
  loop (← IO.getStdin) out
