import Rspirv.Props.C17
import Driver.Parse
/-! `reflect` and `idmut` channels -/
open Rspirv Rspirv.Model

def quantName : Nat → String
  | 0 => "One" | 1 => "ZeroOrOne" | _ => "ZeroOrMore"

def joinOr (l : List String) : String := if l.isEmpty then "-" else ",".intercalate l

def respondReflect (ws : List String) : Option String :=
  match ws with
  | ["reflect", o] =>
    match readOperand o with
    | some (.w v x) =>
      let add := match Rspirv.Generated.Reflect.additionalOperands.find? (fun r => r.1 == v) with
        | some r => addOperandsOf r.2.1 r.2.2 x
        | none => []
      let caps := match Rspirv.Generated.Reflect.requiredCapabilities.find? (fun r => r.1 == v) with
        | some r => requiredOf r.2.1 r.2.2 x
        | none => []
      let exts := match Rspirv.Generated.Reflect.requiredExtensions.find? (fun r => r.1 == v) with
        | some r => requiredOf r.2.1 r.2.2 x
        | none => []
      let id := if Rspirv.Generated.Reflect.idRefAny.contains v then toString x else "-"
      let kname (k : Nat) : String := match Rspirv.Generated.Grammar.kinds[k]? with | some c => nameString c | none => "?"
      -- Debug name of a capability value: the first declared variant with that discriminant
      let capName (c : Nat) : String := match Rspirv.Generated.Spirv.enum_Capability.decl.find? (fun p => p.2 == c) with
        | some p => nameString p.1
        | none => "?"
      some (s!"ok add:{joinOr (add.map (fun lo => kname lo.1 ++ ":" ++ quantName lo.2))} " ++
        s!"caps:{joinOr (caps.map capName)} exts:{joinOr (exts.map nameString)} id:{id}")
    | some _ => some "ok add:- caps:- exts:- id:-"
    | none => some "bad-request"
  | ["conv", o] =>
    -- `From<payload type>` (by the translated impls) and the variant's own accessor
    match readOperand o with
    | none => some "bad-request"
    | some op =>
      let v := match op with | .w v _ => v | .q _ => vLit64 | .s _ => vLitString
      let withVariant (fv : Nat) : Operand := match op with | .w _ x => .w fv x | other => other
      let fromTxt := match Rspirv.Generated.Reflect.variantPayloadType[v]? with
        | some t => (match Rspirv.Generated.Reflect.fromImpls.find? (fun (f : Nat × Nat) => f.1 == t) with
          | some f => showOperand (withVariant f.2)
          | none => "-")
        | none => "-"
      let unTxt := if (Rspirv.Generated.Reflect.unwraps.any (fun (u : Nat × Nat) => u.2 == v)) then showOperand op else "-"
      some s!"ok {fromTxt} {unTxt}"
  | ["unwrapx", o, j] =>
    match readOperand o, j.toNat? with
    | some op, some j =>
      let v := match op with | .w v _ => v | .q _ => vLit64 | .s _ => vLitString
      match Rspirv.Generated.Reflect.unwraps[j]? with
      | none => some "bad-request"
      | some u => if u.2 == v then some s!"ok {showOperand op}" else some "panic"
    | _, _ => some "bad-request"
  | ["idmut", i, k, new] =>
    match readInst i, k.toNat?, new.toNat? with
    | some inst, some k, some nw =>
      match inst.operands[k]? with
      | none => some "bad-request"
      | some (.w v _) =>
        if Rspirv.Generated.Reflect.idRefAnyMut.contains v then
          let before := assembleInst inst
          let after := assembleInst (inst.setOperand k (.w v nw))
          if before.length != after.length then some s!"ok length-changed {before.length} {after.length}" else
          let ch := ((List.range before.length).filter (fun j => before[j]? != after[j]?)).map
            (fun j => s!"{j}:{after.getD j 0}")
          some ("ok changed " ++ joinOr ch)
        else some "ok not-an-id"
      | some _ => some "ok not-an-id"
    | _, _, _ => some "bad-request"
  | _ => none
