import Rspirv.Props.C17
import Driver.Parse
/-! `reflect` and `idmut` channels -/
open Rspirv Rspirv.Model

def quantName : Nat → String
  | 0 => "One" | 1 => "ZeroOrOne" | _ => "ZeroOrMore"

def joinOr (l : List String) : String := if l.isEmpty then "-" else ",".intercalate l

def respondReflect (ws : List String) : Option String :=
  match ws with
  | ["reflect", o] =>
    match readOperand o with
    | some (.w v x) =>
      let add := match Rspirv.Generated.Reflect.additionalOperands.find? (fun r => r.1 == v) with
        | some r => addOperandsOf r.2.1 r.2.2 x
        | none => []
      let caps := match Rspirv.Generated.Reflect.requiredCapabilities.find? (fun r => r.1 == v) with
        | some r => requiredOf r.2.1 r.2.2 x
        | none => []
      let exts := match Rspirv.Generated.Reflect.requiredExtensions.find? (fun r => r.1 == v) with
        | some r => requiredOf r.2.1 r.2.2 x
        | none => []
      let id := if Rspirv.Generated.Reflect.idRefAny.contains v then toString x else "-"
      let kname (k : Nat) : String := match Rspirv.Generated.Grammar.kinds[k]? with | some c => nameString c | none => "?"
      -- Debug name of a capability value: the first declared variant with that discriminant
      let capName (c : Nat) : String := match Rspirv.Generated.Spirv.enum_Capability.decl.find? (fun p => p.2 == c) with
        | some p => nameString p.1
        | none => "?"
      some (s!"ok add:{joinOr (add.map (fun lo => kname lo.1 ++ ":" ++ quantName lo.2))} " ++
        s!"caps:{joinOr (caps.map capName)} exts:{joinOr (exts.map nameString)} id:{id}")
    | some _ => some "ok add:- caps:- exts:- id:-"
    | none => some "bad-request"
  | ["idmut", i, k, new] =>
    match readInst i, k.toNat?, new.toNat? with
    | some inst, some k, some nw =>
      match inst.operands[k]? with
      | none => some "bad-request"
      | some (.w v _) =>
        if Rspirv.Generated.Reflect.idRefAnyMut.contains v then
          let before := assembleInst inst
          let after := assembleInst (inst.setOperand k (.w v nw))
          if before.length != after.length then some s!"ok length-changed {before.length} {after.length}" else
          let ch := ((List.range before.length).filter (fun j => before[j]? != after[j]?)).map
            (fun j => s!"{j}:{after.getD j 0}")
          some ("ok changed " ++ joinOr ch)
        else some "ok not-an-id"
      | some _ => some "ok not-an-id"
    | _, _, _ => some "bad-request"
  | _ => none
