import Rspirv.Generic.Sort
import Rspirv.Generic.Enum
