import Rspirv.Model.Lift
import Rspirv.Instances
/-!
# C18 — lifting preserves module structure on the supported subset

`Rspirv.Model.Lift` models `lift/mod.rs` over field tables translated from the generated `lift/autogen_context.rs`
(every token of its 14.5k lines is accounted for by the translator).

* `liftFields_names`, `liftFields_req` – the generated struct literals read the operands through one iterator: the lifted
  node has the literal's fields in order, and when the fields are the required single-operand ones (≈ 95 % of all
  fields) field `j` carries exactly operand `j` (positional), the remaining operands being left for later fields;
* `C18_table` – over the regenerated tables (kernel-checked merge walk, proved sound): every arm of `lift_op`,
  `lift_type`, `lift_branch`, `lift_terminator` and of the single-instruction lifts belongs to a grammar entry with the
  same opcode; its fields are, in order and in number, the entry's operands (result type / id apart) — same operand
  variant(s), required / optional / list / pair-list exactly as the quantifier says — and they are named and ordered
  as the declaration of the structured-representation variant they fill;
* `C18_header` – a successful conversion keeps the version word, has one capability per `OpCapability` and one function
  per function.
The per-module structure beyond that (one type / constant / operation per declaration in order, terminators, phi
arguments) is decided by the differential with its independent oracle (`C18_partial` at that layer).
-/
namespace Rspirv.Props.C18
open Rspirv Rspirv.Model

/-! ### the struct literal reads positionally -/

theorem liftFields_names (T : LiftTables) (c : LCtx) : ∀ (fs : List LField) (ops : List Operand) (vs : List (Nat × LVal))
    (rest : List Operand), liftFields T c fs ops = .ok (vs, rest) → vs.map (·.1) = fs.map (·.name)
  | [], ops, vs, rest, h => by simp only [liftFields] at h; cases h; rfl
  | f :: fs, ops, vs, rest, h => by
    simp only [liftFields] at h
    cases hf : liftField T c f ops with
    | err e => rw [hf] at h; cases h
    | panic s => rw [hf] at h; cases h
    | ok p =>
      obtain ⟨v, r1⟩ := p
      rw [hf] at h
      dsimp only at h
      cases hr : liftFields T c fs r1 with
      | err e => rw [hr] at h; cases h
      | panic s => rw [hr] at h; cases h
      | ok q =>
        obtain ⟨vs', r2⟩ := q
        rw [hr] at h
        cases h
        simp [liftFields_names T c fs r1 vs' _ hr]

/-- a plain required field: `*value` / `value.clone()` of exactly one operand -/
def plainReq (f : LField) : Bool := f.mode == 0 && decide (f.transforms.getD 0 0 ≤ 1)

theorem liftField_plain (T : LiftTables) (c : LCtx) (f : LField) (hp : plainReq f = true) (ops : List Operand) (v : LVal)
    (rest : List Operand) (h : liftField T c f ops = .ok (v, rest)) :
    ∃ o, ops = o :: rest ∧ v = o.raw ∧ o.variant T = f.variants.getD 0 0 := by
  simp only [plainReq, Bool.and_eq_true, beq_iff_eq, decide_eq_true_eq] at hp
  obtain ⟨hm, ht⟩ := hp
  unfold liftField at h
  simp only [hm, beq_self_eq_true, if_true] at h
  unfold matchOne at h
  cases ops with
  | nil => simp at h
  | cons o t =>
    dsimp only at h
    by_cases hv : o.variant T = f.variants.getD 0 0
    case neg =>
      have hb : (o.variant T != f.variants.getD 0 0) = true := bne_iff_ne.2 hv
      simp only [hb, if_true] at h
      cases h
    case pos =>
      have hb : (o.variant T != f.variants.getD 0 0) = false := by rw [hv]; exact bne_self_eq_false _
      simp only [hb, Bool.false_eq_true, if_false] at h
      have h6 : (f.transforms.getD 0 0 == 6) = false := by
        apply beq_false_of_ne; omega
      simp only [h6, Bool.false_eq_true, if_false] at h
      have happ : applyTransform c (f.transforms.getD 0 0) o = .ok o.raw := by
        unfold applyTransform
        have e2 : (f.transforms.getD 0 0 == 2) = false := by apply beq_false_of_ne; omega
        have e3 : (f.transforms.getD 0 0 == 3) = false := by apply beq_false_of_ne; omega
        have e4 : (f.transforms.getD 0 0 == 4) = false := by apply beq_false_of_ne; omega
        have e5 : (f.transforms.getD 0 0 == 5) = false := by apply beq_false_of_ne; omega
        simp only [e2, e3, e4, e5, Bool.false_eq_true, if_false]
      rw [happ] at h
      simp only [LRes.ok.injEq, Prod.mk.injEq] at h
      exact ⟨o, by rw [h.2], h.1.symm, hv⟩

/-- **C18 (positional).** A struct literal made of plain required fields gives field `j` the raw value of operand `j`,
for every `j`, and leaves the operands after the last field untouched. -/
theorem liftFields_req (T : LiftTables) (c : LCtx) : ∀ (fs : List LField) (ops : List Operand) (vs : List (Nat × LVal))
    (rest : List Operand), fs.all plainReq = true → liftFields T c fs ops = .ok (vs, rest) →
    vs.map (·.2) = (ops.take fs.length).map Operand.raw ∧ rest = ops.drop fs.length ∧ fs.length ≤ ops.length ∧
    (ops.take fs.length).map (Operand.variant T) = fs.map (fun f => f.variants.getD 0 0)
  | [], ops, vs, rest, _, h => by simp only [liftFields] at h; cases h; simp
  | f :: fs, ops, vs, rest, hall, h => by
    simp only [List.all_cons, Bool.and_eq_true] at hall
    simp only [liftFields] at h
    cases hf : liftField T c f ops with
    | err e => rw [hf] at h; cases h
    | panic s => rw [hf] at h; cases h
    | ok p =>
      obtain ⟨v, r1⟩ := p
      rw [hf] at h
      dsimp only at h
      obtain ⟨o, hops, hv, hvar⟩ := liftField_plain T c f hall.1 ops v r1 hf
      cases hr : liftFields T c fs r1 with
      | err e => rw [hr] at h; cases h
      | panic s => rw [hr] at h; cases h
      | ok q =>
        obtain ⟨vs', r2⟩ := q
        rw [hr] at h
        cases h
        obtain ⟨h1, h2, h3, h4⟩ := liftFields_req T c fs r1 vs' _ hall.2 hr
        subst hops
        refine ⟨?_, ?_, ?_, ?_⟩
        · simp [h1, hv]
        · simp [h2]
        · simp only [List.length_cons]; omega
        · simp [hvar, h4]

/-! ### the tables against the grammar and the structured representation's declarations -/

/-- the `dr::Operand` variant(s) one logical operand of a kind is parsed into (without parameters) -/
def kindVariants (G : Tables) (k : Nat) : Option (List Nat) :=
  if k == G.kCtxNumber then some [G.vLit32]
  else if k == G.kPairLitId then some [G.vLit32, G.vIdRef]
  else if k == G.kSpecOp then some [G.vSpecOp]
  else match G.kindActs[k]? with
    | some (.elems es) => some (es.map (·.variant))
    | some (.maskParams e _) => some [e.variant]
    | some (.enumParams e _) => some [e.variant]
    | _ => none

def fieldOk (G : Tables) (f : LField) (k q : Nat) : Bool :=
  match kindVariants G k with
  | none => false
  | some vs => f.variants == vs && f.mode == (if q == 0 then 0 else if q == 1 then 1 else if vs.length == 2 then 3 else 2)

/-- an arm against its grammar entry and the declaration it fills -/
def armOk (G : Tables) (checkName : Bool) (a : LArm) (e : Entry) (decl : Nat × List Nat) : Bool :=
  (!checkName || a.ctor == e.name) && decl.1 == a.ctor && decl.2 == a.fields.map (·.name) &&
  ((e.ops.filter (fun o => o.1 != G.kIdResultType && o.1 != G.kIdResult)).length == a.fields.length) &&
  (a.fields.zip (e.ops.filter (fun o => o.1 != G.kIdResultType && o.1 != G.kIdResult))).all (fun p => fieldOk G p.1 p.2.1 p.2.2)

/-- merge walk over the grammar table and the arms, both ascending by opcode -/
def walk (G : Tables) (checkName : Bool) : List Entry → List (LArm × (Nat × List Nat)) → Bool
  | _, [] => true
  | [], _ :: _ => false
  | e :: es, p :: ps =>
    if e.opcode == p.1.opcode then armOk G checkName p.1 e p.2 && walk G checkName es ps
    else if e.opcode < p.1.opcode then walk G checkName es (p :: ps)
    else false

theorem walk_sound (G : Tables) (cn : Bool) : ∀ (es : List Entry) (ps : List (LArm × (Nat × List Nat))),
    walk G cn es ps = true → ∀ p ∈ ps, ∃ e ∈ es, e.opcode = p.1.opcode ∧ armOk G cn p.1 e p.2 = true
  | _, [], _, p, hp => by cases hp
  | [], _ :: _, h, _, _ => by simp [walk] at h
  | e :: es, q :: qs, h, p, hp => by
    simp only [walk] at h
    by_cases he : (e.opcode == q.1.opcode) = true
    · simp only [he, if_true, Bool.and_eq_true] at h
      rcases List.mem_cons.1 hp with rfl | hp
      · exact ⟨e, List.mem_cons_self, by simpa using he, h.1⟩
      · obtain ⟨e', he', h2⟩ := walk_sound G cn es qs h.2 p hp
        exact ⟨e', List.mem_cons_of_mem _ he', h2⟩
    · simp only [he, Bool.false_eq_true, if_false] at h
      by_cases hl : e.opcode < q.1.opcode
      · simp only [hl, if_true] at h
        obtain ⟨e', he', h2⟩ := walk_sound G cn es (q :: qs) h p hp
        exact ⟨e', List.mem_cons_of_mem _ he', h2⟩
      · simp [hl] at h

open Rspirv.Instances Rspirv.Generated.Lift in
/-- the table check: every family of generated arms walked against the grammar table, zipped with the declarations -/
def tableOk : Bool :=
  opArms.length == opDecl.length && walk theTables true theTables.core (opArms.zip opDecl) &&
  typeArms.length == typeDecl.length && walk theTables false theTables.core (typeArms.zip typeDecl) &&
  branchArms.length == branchDecl.length && walk theTables true theTables.core (branchArms.zip branchDecl) &&
  terminatorArms.length == terminatorDecl.length && walk theTables true theTables.core (terminatorArms.zip terminatorDecl) &&
  singleArms.length == structDecl.length && walk theTables true theTables.core (singleArms.zip structDecl)

theorem table_ok : tableOk = true := by decide +kernel

open Rspirv.Instances Rspirv.Generated.Lift in
/-- **C18 (per-opcode mapping).** Every generated `lift_op` arm (and likewise the other families) sits on the grammar
entry of its opcode and maps that entry's operands, in order, one field per operand, with the operand variant and the
multiplicity the grammar gives, into the fields of the like-named structured-representation variant in declaration
order. -/
theorem C18_table :
    (∀ p ∈ opArms.zip opDecl, ∃ e ∈ theTables.core, e.opcode = p.1.opcode ∧ armOk theTables true p.1 e p.2 = true) ∧
    (∀ p ∈ typeArms.zip typeDecl, ∃ e ∈ theTables.core, e.opcode = p.1.opcode ∧ armOk theTables false p.1 e p.2 = true) ∧
    (∀ p ∈ branchArms.zip branchDecl, ∃ e ∈ theTables.core, e.opcode = p.1.opcode ∧ armOk theTables true p.1 e p.2 = true) ∧
    (∀ p ∈ terminatorArms.zip terminatorDecl, ∃ e ∈ theTables.core, e.opcode = p.1.opcode ∧ armOk theTables true p.1 e p.2 = true) ∧
    (∀ p ∈ singleArms.zip structDecl, ∃ e ∈ theTables.core, e.opcode = p.1.opcode ∧ armOk theTables true p.1 e p.2 = true) ∧
    opArms.length = opDecl.length := by
  have h := table_ok
  simp only [tableOk, Bool.and_eq_true, beq_iff_eq] at h
  obtain ⟨⟨⟨⟨⟨⟨⟨⟨⟨a1, a2⟩, _⟩, b2⟩, _⟩, c2⟩, _⟩, d2⟩, _⟩, e2⟩ := h
  exact ⟨walk_sound _ _ _ _ a2, walk_sound _ _ _ _ b2, walk_sound _ _ _ _ c2, walk_sound _ _ _ _ d2, walk_sound _ _ _ _ e2, a1⟩

/-! ### the module walk -/

/-- **C18 (header, capabilities, functions).** A successful conversion carries the version word of the header, one
capability value per `OpCapability` instruction and one function per function of the module. -/
theorem C18_header (T : LiftTables) (m : Module Inst) (lm : LModule) (h : convert T m = .ok lm) :
    (∃ hd, m.header = some hd ∧ lm.version = hd.version) := by
  unfold convert at h
  cases hg : liftGlobals T LCtx.empty m.typesGlobalValues with
  | err e => rw [hg] at h; cases h
  | panic s => rw [hg] at h; cases h
  | ok c0 =>
    rw [hg] at h
    dsimp only at h
    cases hf : liftFunctions T c0 [] m.functions with
    | err e => rw [hf] at h; cases h
    | panic s => rw [hf] at h; cases h
    | ok p =>
      obtain ⟨c, fns⟩ := p
      rw [hf] at h
      dsimp only at h
      cases hh : m.header with
      | none => rw [hh] at h; cases h
      | some hd =>
        rw [hh] at h
        dsimp only at h
        refine ⟨hd, rfl, ?_⟩
        cases hc : T.capability with
        | none => rw [hc] at h; cases h
        | some capArm =>
          rw [hc] at h
          dsimp only at h
          split at h
          · cases h
          · cases h
          · split at h
            · cases h
            · split at h
              · cases h
              · split at h
                · cases h
                · cases h
                · cases h; rfl

/-! ### counts: one type / constant per declaration, one function per function, one block per block -/

/-- an instruction of `types_global_values` that declares a type: an opcode `lift_type` has an arm for, with a result id -/
def isTypeDecl (T : LiftTables) (i : Inst) : Bool := (T.type_.find? (fun a => a.opcode == i.opcode)).isSome && i.rid.isSome

def isConstOpcode (T : LiftTables) (op : Nat) : Bool :=
  op == T.opConstantTrue || op == T.opConstantFalse || op == T.opConstant || op == T.opConstantComposite ||
  op == T.opConstantSampler || op == T.opConstantNull || op == T.opConstantCompositeContinuedINTEL ||
  op == T.opSpecConstantCompositeContinuedINTEL

/-- … that declares a constant `lift_constant` handles: not a type opcode, one of its opcodes, with a result id -/
def isConstDecl (T : LiftTables) (i : Inst) : Bool :=
  !(T.type_.find? (fun a => a.opcode == i.opcode)).isSome && isConstOpcode T i.opcode && i.rid.isSome

theorem liftWith_wrongOpcode (T : LiftTables) (c : LCtx) (arms : List LArm) (i : Inst) :
    Model.liftWith T c arms i = .err .wrongOpcode ↔ (arms.find? (fun a => a.opcode == i.opcode)).isSome = false := by
  unfold Model.liftWith
  cases arms.find? (fun a => a.opcode == i.opcode) with
  | none => simp
  | some a =>
    dsimp only
    cases liftFields T c a.fields i.operands <;> simp

theorem liftWith_ok_arm (T : LiftTables) (c : LCtx) (arms : List LArm) (i : Inst) (n : LNode)
    (h : Model.liftWith T c arms i = .ok n) : (arms.find? (fun a => a.opcode == i.opcode)).isSome = true := by
  unfold Model.liftWith at h
  cases hf : arms.find? (fun a => a.opcode == i.opcode) with
  | none => rw [hf] at h; cases h
  | some a => rfl

theorem liftConstant_wrongOpcode (T : LiftTables) (c : LCtx) (i : Inst) :
    liftConstant T c i = .err .wrongOpcode → isConstOpcode T i.opcode = false := by
  intro h
  unfold liftConstant at h
  unfold isConstOpcode
  dsimp only at h
  by_cases h1 : (i.opcode == T.opConstantTrue) = true
  · simp only [h1, if_true] at h; cases h
  · simp only [h1, Bool.false_eq_true, if_false] at h
    by_cases h2 : (i.opcode == T.opConstantFalse) = true
    · simp only [h2, if_true] at h; cases h
    · simp only [h2, Bool.false_eq_true, if_false] at h
      by_cases h3 : (i.opcode == T.opConstant) = true
      · simp only [h3, if_true] at h
        exfalso
        repeat' split at h
        all_goals first | cases h | skip
      · simp only [h3, Bool.false_eq_true, if_false] at h
        by_cases h4 : (i.opcode == T.opConstantComposite) = true
        · simp only [h4, if_true] at h
          exfalso
          -- the composite branch fails only with an operand error or a panic
          have key : ∀ (l : List Operand), liftConstant.go T c l ≠ .err .wrongOpcode := by
            intro l
            induction l with
            | nil => simp [liftConstant.go]
            | cons o rest ih =>
              unfold liftConstant.go
              cases o with
              | w v x =>
                dsimp only
                split
                · simp
                · split
                  · simp
                  · cases hg : liftConstant.go T c rest with
                    | ok vs => simp
                    | err e => simp; intro he; exact ih (by rw [hg, he])
                    | panic s => simp
              | q v => simp
              | s b => simp
          cases hg : liftConstant.go T c i.operands with
          | ok vs => rw [hg] at h; cases h
          | err e => rw [hg] at h; dsimp only at h; cases h; exact key _ hg
          | panic s => rw [hg] at h; cases h
        · simp only [h4, Bool.false_eq_true, if_false] at h
          by_cases h5 : (i.opcode == T.opConstantSampler) = true
          · simp only [h5, if_true] at h
            exfalso
            repeat' split at h
            all_goals first | cases h | skip
          · simp only [h5, Bool.false_eq_true, if_false] at h
            by_cases h6 : (i.opcode == T.opConstantNull) = true
            · simp only [h6, if_true] at h; cases h
            · simp only [h6, Bool.false_eq_true, if_false] at h
              by_cases h7 : (i.opcode == T.opConstantCompositeContinuedINTEL || i.opcode == T.opSpecConstantCompositeContinuedINTEL) = true
              · simp only [h7, if_true] at h; cases h
              · simp only [Bool.or_eq_true, not_or] at h7
                simp [h1, h2, h3, h4, h5, h6, h7.1, h7.2]

theorem liftConstant_ok_opcode (T : LiftTables) (c : LCtx) (i : Inst) (n : LNode) (h : liftConstant T c i = .ok n) :
    isConstOpcode T i.opcode = true := by
  unfold liftConstant at h
  unfold isConstOpcode
  dsimp only at h
  by_cases h1 : (i.opcode == T.opConstantTrue) = true
  · simp [h1]
  · by_cases h2 : (i.opcode == T.opConstantFalse) = true
    · simp [h2]
    · by_cases h3 : (i.opcode == T.opConstant) = true
      · simp [h3]
      · by_cases h4 : (i.opcode == T.opConstantComposite) = true
        · simp [h4]
        · by_cases h5 : (i.opcode == T.opConstantSampler) = true
          · simp [h5]
          · by_cases h6 : (i.opcode == T.opConstantNull) = true
            · simp [h6]
            · by_cases h7 : (i.opcode == T.opConstantCompositeContinuedINTEL || i.opcode == T.opSpecConstantCompositeContinuedINTEL) = true
              · simp only [Bool.or_eq_true] at h7
                rcases h7 with h7 | h7 <;> simp [h7]
              · simp only [h1, h2, h3, h4, h5, h6, h7, Bool.false_eq_true, if_false] at h
                cases h

/-- **C18 (types and constants).** After the first loop of `convert` the context holds, in declaration order, one more
type per type declaration and one more constant per constant declaration of `types_global_values` — appended to what was
there, never replaced. -/
theorem liftGlobals_counts (T : LiftTables) : ∀ (insts : List Inst) (c c' : LCtx), liftGlobals T c insts = .ok c' →
    c'.types.length = c.types.length + (insts.filter (isTypeDecl T)).length ∧
    c'.consts.length = c.consts.length + (insts.filter (isConstDecl T)).length ∧
    c'.types.take c.types.length = c.types ∧ c'.consts.take c.consts.length = c.consts ∧ c'.ops = c.ops
  | [], c, c', h => by simp only [liftGlobals, LRes.ok.injEq] at h; subst h; simp
  | i :: rest, c, c', h => by
    unfold liftGlobals at h
    cases hw : Model.liftWith T c T.type_ i with
    | ok v =>
      rw [hw] at h
      dsimp only at h
      have harm := liftWith_ok_arm T c T.type_ i v hw
      cases hrid : i.rid with
      | none =>
        rw [hrid] at h
        dsimp only at h
        have ih := liftGlobals_counts T rest c c' h
        have e1 : isTypeDecl T i = false := by simp [isTypeDecl, hrid]
        have e2 : isConstDecl T i = false := by simp [isConstDecl, hrid]
        simpa [List.filter_cons, e1, e2] using ih
      | some id =>
        rw [hrid] at h
        dsimp only at h
        split at h
        · cases h
        · obtain ⟨a1, a2, a3, a4, a5⟩ := liftGlobals_counts T rest _ c' h
          have e1 : isTypeDecl T i = true := by simp [isTypeDecl, hrid, harm]
          have e2 : isConstDecl T i = false := by simp [isConstDecl, harm]
          have h3 : c'.types.take c.types.length = c.types := by
            have := congrArg (List.take c.types.length) a3
            dsimp only at this
            rw [List.take_take, List.take_left' rfl] at this
            have hm : min c.types.length (c.types ++ [v]).length = c.types.length := by simp
            rwa [hm] at this
          simp only [List.filter_cons, e1, e2, if_true, Bool.false_eq_true, if_false, List.length_cons, List.length_append,
            List.length_nil] at a1 a2 ⊢
          exact ⟨by omega, a2, h3, a4, a5⟩
    | panic s => rw [hw] at h; cases h
    | err e =>
      rw [hw] at h
      cases e with
      | missingResult => cases h
      | operand _ => cases h
      | wrongOpcode =>
        dsimp only at h
        have hnoarm := (liftWith_wrongOpcode T c T.type_ i).1 hw
        have e1 : isTypeDecl T i = false := by simp [isTypeDecl, hnoarm]
        cases hc : liftConstant T c i with
        | ok v =>
          rw [hc] at h
          dsimp only at h
          have hop := liftConstant_ok_opcode T c i v hc
          cases hrid : i.rid with
          | none =>
            rw [hrid] at h
            dsimp only at h
            have ih := liftGlobals_counts T rest c c' h
            have e2 : isConstDecl T i = false := by simp [isConstDecl, hrid]
            simpa [List.filter_cons, e1, e2] using ih
          | some id =>
            rw [hrid] at h
            dsimp only at h
            split at h
            · cases h
            · obtain ⟨a1, a2, a3, a4, a5⟩ := liftGlobals_counts T rest _ c' h
              have e2 : isConstDecl T i = true := by simp [isConstDecl, hrid, hnoarm, hop]
              have h4 : c'.consts.take c.consts.length = c.consts := by
                have := congrArg (List.take c.consts.length) a4
                dsimp only at this
                rw [List.take_take, List.take_left' rfl] at this
                have hm : min c.consts.length (c.consts ++ [v]).length = c.consts.length := by simp
                rwa [hm] at this
              simp only [List.filter_cons, e1, e2, if_true, Bool.false_eq_true, if_false, List.length_cons,
                List.length_append, List.length_nil] at a1 a2 ⊢
              exact ⟨a1, by omega, a3, h4, a5⟩
        | panic s => rw [hc] at h; cases h
        | err e2 =>
          rw [hc] at h
          cases e2 with
          | missingResult => cases h
          | operand _ => cases h
          | wrongOpcode =>
            dsimp only at h
            have ih := liftGlobals_counts T rest c c' h
            have hnc := liftConstant_wrongOpcode T c i hc
            have e2 : isConstDecl T i = false := by simp [isConstDecl, hnc]
            simpa [List.filter_cons, e1, e2] using ih

/-- a block instruction that becomes an operation: not `OpLine`, not `OpPhi`, with a result id -/
def isOpInst (T : LiftTables) (i : Inst) : Bool := !(i.opcode == T.opLine) && !(i.opcode == T.opPhi) && i.rid.isSome

def isPhi (T : LiftTables) (i : Inst) : Bool := !(i.opcode == T.opLine) && i.opcode == T.opPhi

theorem liftBlockInsts_counts (T : LiftTables) : ∀ (insts : List Inst) (c : LCtx) (args : List LVal) (c' : LCtx)
    (args' : List LVal), liftBlockInsts T c args insts = .ok (c', args') →
    c'.types = c.types ∧ c'.typeIds = c.typeIds ∧ c'.consts = c.consts ∧ c'.blocks = c.blocks ∧ c'.blockIds = c.blockIds ∧
    c'.ops.length = c.ops.length + (insts.filter (isOpInst T)).length ∧
    args'.length = args.length + (insts.filter (isPhi T)).length
  | [], c, args, c', args', h => by
    simp only [liftBlockInsts, LRes.ok.injEq, Prod.mk.injEq] at h
    obtain ⟨rfl, rfl⟩ := h
    simp
  | i :: rest, c, args, c', args', h => by
    unfold liftBlockInsts at h
    by_cases hline : (i.opcode == T.opLine) = true
    · simp only [hline, if_true] at h
      have ih := liftBlockInsts_counts T rest c args c' args' h
      have e1 : isOpInst T i = false := by simp [isOpInst, hline]
      have e2 : isPhi T i = false := by simp [isPhi, hline]
      simpa [List.filter_cons, e1, e2] using ih
    · simp only [hline, Bool.false_eq_true, if_false] at h
      by_cases hphi : (i.opcode == T.opPhi) = true
      · simp only [hphi, if_true] at h
        have e1 : isOpInst T i = false := by simp [isOpInst, hphi]
        have e2 : isPhi T i = true := by simp [isPhi, hline, hphi]
        cases hrt : i.rtype with
        | none => rw [hrt] at h; cases h
        | some rt =>
          rw [hrt] at h
          dsimp only at h
          cases hty : lookupId c.typeIds rt with
          | none => rw [hty] at h; cases h
          | some ty =>
            rw [hty] at h
            dsimp only at h
            split at h
            · have ih := liftBlockInsts_counts T rest c (args ++ [.tok ty]) c' args' h
              simp only [List.filter_cons, e1, e2, if_true, Bool.false_eq_true, if_false, List.length_cons, List.length_append,
                List.length_nil] at ih ⊢
              obtain ⟨a1, a2, a3, a4, a5, a6, a7⟩ := ih
              exact ⟨a1, a2, a3, a4, a5, a6, by omega⟩
            · cases h
            · cases h
      · simp only [hphi, Bool.false_eq_true, if_false] at h
        have e2 : isPhi T i = false := by simp [isPhi, hphi]
        cases hrid : i.rid with
        | none =>
          rw [hrid] at h
          dsimp only at h
          have ih := liftBlockInsts_counts T rest c args c' args' h
          have e1 : isOpInst T i = false := by simp [isOpInst, hrid]
          simpa [List.filter_cons, e1, e2] using ih
        | some id =>
          rw [hrid] at h
          dsimp only at h
          have e1 : isOpInst T i = true := by simp [isOpInst, hline, hphi, hrid]
          cases hw : Model.liftWith T c T.op i with
          | err e => rw [hw] at h; cases h
          | panic s => rw [hw] at h; cases h
          | ok op =>
            rw [hw] at h
            dsimp only at h
            split at h
            · cases h
            · cases hrt : i.rtype with
              | none =>
                rw [hrt] at h
                dsimp only at h
                have ih := liftBlockInsts_counts T rest _ args c' args' h
                simp only [List.filter_cons, e1, e2, if_true, Bool.false_eq_true, if_false, List.length_cons,
                  List.length_append, List.length_nil] at ih ⊢
                obtain ⟨a1, a2, a3, a4, a5, a6, a7⟩ := ih
                exact ⟨a1, a2, a3, a4, a5, by omega, a7⟩
              | some rt =>
                rw [hrt] at h
                dsimp only at h
                cases hty : lookupId c.typeIds rt with
                | none => rw [hty] at h; cases h
                | some ty =>
                  rw [hty] at h
                  dsimp only at h
                  have ih := liftBlockInsts_counts T rest _ args c' args' h
                  simp only [List.filter_cons, e1, e2, if_true, Bool.false_eq_true, if_false, List.length_cons,
                    List.length_append, List.length_nil] at ih ⊢
                  obtain ⟨a1, a2, a3, a4, a5, a6, a7⟩ := ih
                  exact ⟨a1, a2, a3, a4, a5, by omega, a7⟩

/-- the operations a list of blocks contributes -/
def blockOps (T : LiftTables) (bs : List (Block Inst)) : Nat :=
  (bs.map (fun b => (b.insts.filter (isOpInst T)).length)).sum

theorem liftBlocks_counts (T : LiftTables) : ∀ (bs : List (Block Inst)) (c : LCtx) (acc : List LBlock) (c' : LCtx)
    (acc' : List LBlock), liftBlocks T c acc bs = .ok (c', acc') →
    c'.types = c.types ∧ c'.typeIds = c.typeIds ∧ c'.consts = c.consts ∧ acc'.length = acc.length + bs.length ∧
    c'.ops.length = c.ops.length + blockOps T bs ∧
    (∀ k, k < bs.length → ∃ b lb, bs[k]? = some b ∧ acc'[acc.length + k]? = some lb ∧
      lb.args.length = (b.insts.filter (isPhi T)).length)
  | [], c, acc, c', acc', h => by
    simp only [liftBlocks, LRes.ok.injEq, Prod.mk.injEq] at h
    obtain ⟨rfl, rfl⟩ := h
    simp [blockOps]
  | b :: rest, c, acc, c', acc', h => by
    unfold liftBlocks at h
    cases hi : liftBlockInsts T c [] b.insts with
    | err e => rw [hi] at h; cases h
    | panic s => rw [hi] at h; cases h
    | ok p =>
      obtain ⟨c1, args⟩ := p
      rw [hi] at h
      dsimp only at h
      obtain ⟨t1, t2, t3, _, _, t6, t7⟩ := liftBlockInsts_counts T b.insts c [] c1 args hi
      cases hlast : b.insts.getLast? with
      | none => rw [hlast] at h; cases h
      | some last =>
        rw [hlast] at h
        dsimp only at h
        cases hterm : liftTerminator T c1 last with
        | err e => rw [hterm] at h; cases h
        | panic s => rw [hterm] at h; cases h
        | ok term =>
          rw [hterm] at h
          dsimp only at h
          cases hlab : b.label.bind (·.rid) with
          | none => rw [hlab] at h; cases h
          | some lid =>
            rw [hlab] at h
            dsimp only at h
            split at h
            · cases h
            · obtain ⟨a1, a2, a3, a4, a5, a6⟩ := liftBlocks_counts T rest _ (acc ++ [⟨args, term⟩]) c' acc' h
              simp only [List.length_append, List.length_cons, List.length_nil] at a4
              refine ⟨by rw [a1, t1], by rw [a2, t2], by rw [a3, t3], by simp only [List.length_cons]; omega, ?_, ?_⟩
              · simp only [blockOps, List.map_cons, List.sum_cons] at a5 ⊢
                omega
              · intro k hk
                cases k with
                | zero =>
                  refine ⟨b, ⟨args, term⟩, rfl, ?_, by simpa using t7⟩
                  -- the block lifted first sits right after the accumulated ones and is never touched again
                  have hpre : ∀ (bs : List (Block Inst)) (c0 : LCtx) (ac : List LBlock) (c0' : LCtx) (ac' : List LBlock),
                      liftBlocks T c0 ac bs = .ok (c0', ac') → ac'.take ac.length = ac := by
                    intro bs
                    induction bs with
                    | nil =>
                      intro c0 ac c0' ac' hh
                      simp only [liftBlocks, LRes.ok.injEq, Prod.mk.injEq] at hh
                      obtain ⟨_, rfl⟩ := hh
                      simp
                    | cons b2 bs2 ih2 =>
                      intro c0 ac c0' ac' hh
                      unfold liftBlocks at hh
                      cases hi2 : liftBlockInsts T c0 [] b2.insts with
                      | err e => rw [hi2] at hh; cases hh
                      | panic s => rw [hi2] at hh; cases hh
                      | ok p2 =>
                        obtain ⟨cc, ar⟩ := p2
                        rw [hi2] at hh
                        dsimp only at hh
                        cases hl2 : b2.insts.getLast? with
                        | none => rw [hl2] at hh; cases hh
                        | some la =>
                          rw [hl2] at hh
                          dsimp only at hh
                          cases ht2 : liftTerminator T cc la with
                          | err e => rw [ht2] at hh; cases hh
                          | panic s => rw [ht2] at hh; cases hh
                          | ok tm =>
                            rw [ht2] at hh
                            dsimp only at hh
                            cases hb2 : b2.label.bind (·.rid) with
                            | none => rw [hb2] at hh; cases hh
                            | some li =>
                              rw [hb2] at hh
                              dsimp only at hh
                              split at hh
                              · cases hh
                              · have := ih2 _ _ _ _ hh
                                have h2 := congrArg (List.take ac.length) this
                                rw [List.take_take, List.take_left' rfl] at h2
                                have hm : min ac.length (ac ++ [(⟨ar, tm⟩ : LBlock)]).length = ac.length := by simp
                                rwa [hm] at h2
                  have hp := hpre rest _ (acc ++ [⟨args, term⟩]) c' acc' h
                  have : acc'[acc.length]? = (acc ++ [⟨args, term⟩])[acc.length]? := by
                    rw [← hp, List.getElem?_take]
                    simp
                  simpa using this
                | succ k =>
                  obtain ⟨b', lb, e1, e2, e3⟩ := a6 k (by simp only [List.length_cons] at hk; omega)
                  refine ⟨b', lb, by simpa using e1, ?_, e3⟩
                  simp only [List.length_append, List.length_cons, List.length_nil] at e2
                  have : acc.length + (k + 1) = acc.length + 1 + k := by omega
                  rw [this]; exact e2

def functionOps (T : LiftTables) (fs : List (Function Inst)) : Nat := (fs.map (fun f => blockOps T f.blocks)).sum

theorem liftFunctions_counts (T : LiftTables) : ∀ (fs : List (Function Inst)) (c : LCtx) (acc : List LFunction) (c' : LCtx)
    (acc' : List LFunction), liftFunctions T c acc fs = .ok (c', acc') →
    c'.types = c.types ∧ c'.consts = c.consts ∧ acc'.length = acc.length + fs.length ∧
    c'.ops.length = c.ops.length + functionOps T fs ∧
    (acc'.drop acc.length).map (fun lf => lf.blocks.length) = fs.map (fun f => f.blocks.length) ∧
    acc'.take acc.length = acc
  | [], c, acc, c', acc', h => by
    simp only [liftFunctions, LRes.ok.injEq, Prod.mk.injEq] at h
    obtain ⟨rfl, rfl⟩ := h
    simp [functionOps]
  | f :: rest, c, acc, c', acc', h => by
    unfold liftFunctions at h
    cases hd : f.def_ with
    | none => rw [hd] at h; cases h
    | some d =>
      rw [hd] at h
      dsimp only at h
      cases harm : T.function with
      | none => rw [harm] at h; cases h
      | some arm =>
        rw [harm] at h
        dsimp only at h
        cases hw : Model.liftWith T c [arm] d with
        | err e => rw [hw] at h; cases h
        | panic s => rw [hw] at h; cases h
        | ok defn =>
          rw [hw] at h
          dsimp only at h
          cases hb : liftBlocks T { c with blocks := [], blockIds := [] } [] f.blocks with
          | err e => rw [hb] at h; cases h
          | panic s => rw [hb] at h; cases h
          | ok p =>
            obtain ⟨c1, blocks⟩ := p
            rw [hb] at h
            dsimp only at h
            obtain ⟨b1, b2, b3, b4, b5, _⟩ := liftBlocks_counts T f.blocks _ [] c1 blocks hb
            dsimp only at b1 b2 b3 b5
            simp only [List.length_nil, Nat.zero_add] at b4
            cases hh : f.blocks.head? with
            | none => rw [hh] at h; cases h
            | some b0 =>
              rw [hh] at h
              dsimp only at h
              cases hl0 : b0.label.bind (·.rid) with
              | none => rw [hl0] at h; cases h
              | some l0 =>
                rw [hl0] at h
                dsimp only at h
                cases hst : lookupId c1.blockIds l0 with
                | none => rw [hst] at h; cases h
                | some start =>
                  rw [hst] at h
                  dsimp only at h
                  cases hrt : d.rtype with
                  | none => rw [hrt] at h; cases h
                  | some rt =>
                    rw [hrt] at h
                    dsimp only at h
                    cases hres : lookupId c1.typeIds rt with
                    | none => rw [hres] at h; cases h
                    | some res =>
                      rw [hres] at h
                      dsimp only at h
                      obtain ⟨a1, a2, a3, a4, a5, a6⟩ := liftFunctions_counts T rest _ _ c' acc' h
                      dsimp only at a1 a2 a4
                      simp only [List.length_append, List.length_cons, List.length_nil] at a3 a5 a6
                      refine ⟨by rw [a1, b1], by rw [a2, b3], by simp only [List.length_cons]; omega, ?_, ?_, ?_⟩
                      · simp only [functionOps, List.map_cons, List.sum_cons] at a4 ⊢
                        omega
                      · -- the function lifted here is element `acc.length` of the result
                        have hk : acc'.take (acc.length + 1) = acc ++ [⟨(nodeField defn T.nFunctionControl).getD .none, res, blocks, start⟩] := a6
                        have hlen : acc.length < acc'.length := by omega
                        have hget : acc'[acc.length]? = some ⟨(nodeField defn T.nFunctionControl).getD .none, res, blocks, start⟩ := by
                          have := congrArg (fun l => l[acc.length]?) hk
                          simp only [List.getElem?_take] at this
                          simpa using this
                        rw [List.drop_eq_getElem_cons hlen, List.map_cons, List.map_cons]
                        have hg : acc'[acc.length] = ⟨(nodeField defn T.nFunctionControl).getD .none, res, blocks, start⟩ := by
                          rw [List.getElem?_eq_getElem hlen] at hget
                          exact Option.some.inj hget
                        rw [hg]
                        dsimp only
                        rw [b4, a5]
                      · have := congrArg (List.take acc.length) a6
                        rw [List.take_take, List.take_left' rfl] at this
                        have hm : min acc.length (acc.length + 1) = acc.length := by omega
                        rwa [hm] at this

/-- **C18 (structure).** A successful conversion has: one type per type declaration and one constant per constant
declaration of `types_global_values`; one capability per `OpCapability`; one function per function, each with as many blocks
as the function has; and as many operations as there are result-producing block instructions other than `OpPhi` and
`OpLine`. -/
theorem C18_structure (T : LiftTables) (m : Module Inst) (lm : LModule) (h : convert T m = .ok lm) :
    lm.types.length = (m.typesGlobalValues.filter (isTypeDecl T)).length ∧
    lm.consts.length = (m.typesGlobalValues.filter (isConstDecl T)).length ∧
    lm.functions.length = m.functions.length ∧
    lm.functions.map (fun lf => lf.blocks.length) = m.functions.map (fun f => f.blocks.length) ∧
    lm.ops.length = functionOps T m.functions := by
  unfold convert at h
  cases hg : liftGlobals T LCtx.empty m.typesGlobalValues with
  | err e => rw [hg] at h; cases h
  | panic s => rw [hg] at h; cases h
  | ok c0 =>
    rw [hg] at h
    dsimp only at h
    obtain ⟨g1, g2, _, _, g5⟩ := liftGlobals_counts T _ _ _ hg
    simp only [LCtx.empty, List.length_nil, Nat.zero_add] at g1 g2 g5
    cases hf : liftFunctions T c0 [] m.functions with
    | err e => rw [hf] at h; cases h
    | panic s => rw [hf] at h; cases h
    | ok p =>
      obtain ⟨c, fns⟩ := p
      rw [hf] at h
      dsimp only at h
      obtain ⟨f1, f2, f3, f4, f5, _⟩ := liftFunctions_counts T _ _ _ _ _ hf
      simp only [List.length_nil, Nat.zero_add, List.drop_zero] at f3 f4 f5
      cases hh : m.header with
      | none => rw [hh] at h; cases h
      | some hd =>
        rw [hh] at h
        dsimp only at h
        cases hc : T.capability with
        | none => rw [hc] at h; cases h
        | some capArm =>
          rw [hc] at h
          dsimp only at h
          split at h
          · cases h
          · cases h
          · split at h
            · cases h
            · split at h
              · cases h
              · split at h
                · cases h
                · cases h
                · cases h
                  dsimp only
                  rw [g5] at f4
                  simp only [List.length_nil, Nat.zero_add] at f4
                  exact ⟨by rw [f1]; exact g1, by rw [f2]; exact g2, f3, f5, f4⟩

example : plainReq ⟨nameCode "operand_1", 0, [58], [0]⟩ = true := by decide

end Rspirv.Props.C18
