import Rspirv.Model.Lift
import Rspirv.Instances
/-!
# C18 — lifting preserves module structure on the supported subset

`Rspirv.Model.Lift` models `lift/mod.rs` over field tables translated from the generated `lift/autogen_context.rs`
(every token of its 14.5k lines is accounted for by the translator).

* `liftFields_names`, `liftFields_req` – the generated struct literals read the operands through one iterator: the lifted
  node has the literal's fields in order, and when the fields are the required single-operand ones (≈ 95 % of all
  fields) field `j` carries exactly operand `j` (positional), the remaining operands being left for later fields;
* `C18_table` – over the regenerated tables (kernel-checked merge walk, proved sound): every arm of `lift_op`,
  `lift_type`, `lift_branch`, `lift_terminator` and of the single-instruction lifts belongs to a grammar entry with the
  same opcode; its fields are, in order and in number, the entry's operands (result type / id apart) — same operand
  variant(s), required / optional / list / pair-list exactly as the quantifier says — and they are named and ordered
  as the declaration of the structured-representation variant they fill;
* `C18_header` – a successful conversion keeps the version word, has one capability per `OpCapability` and one function
  per function.
The per-module structure beyond that (one type / constant / operation per declaration in order, terminators, phi
arguments) is decided by the differential with its independent oracle (`C18_partial` at that layer).
-/
namespace Rspirv.Props.C18
open Rspirv Rspirv.Model

/-! ### the struct literal reads positionally -/

theorem liftFields_names (T : LiftTables) (c : LCtx) : ∀ (fs : List LField) (ops : List Operand) (vs : List (Nat × LVal))
    (rest : List Operand), liftFields T c fs ops = .ok (vs, rest) → vs.map (·.1) = fs.map (·.name)
  | [], ops, vs, rest, h => by simp only [liftFields] at h; cases h; rfl
  | f :: fs, ops, vs, rest, h => by
    simp only [liftFields] at h
    cases hf : liftField T c f ops with
    | err e => rw [hf] at h; cases h
    | panic s => rw [hf] at h; cases h
    | ok p =>
      obtain ⟨v, r1⟩ := p
      rw [hf] at h
      dsimp only at h
      cases hr : liftFields T c fs r1 with
      | err e => rw [hr] at h; cases h
      | panic s => rw [hr] at h; cases h
      | ok q =>
        obtain ⟨vs', r2⟩ := q
        rw [hr] at h
        cases h
        simp [liftFields_names T c fs r1 vs' _ hr]

/-- a plain required field: `*value` / `value.clone()` of exactly one operand -/
def plainReq (f : LField) : Bool := f.mode == 0 && decide (f.transforms.getD 0 0 ≤ 1)

theorem liftField_plain (T : LiftTables) (c : LCtx) (f : LField) (hp : plainReq f = true) (ops : List Operand) (v : LVal)
    (rest : List Operand) (h : liftField T c f ops = .ok (v, rest)) :
    ∃ o, ops = o :: rest ∧ v = o.raw ∧ o.variant T = f.variants.getD 0 0 := by
  simp only [plainReq, Bool.and_eq_true, beq_iff_eq, decide_eq_true_eq] at hp
  obtain ⟨hm, ht⟩ := hp
  unfold liftField at h
  simp only [hm, beq_self_eq_true, if_true] at h
  unfold matchOne at h
  cases ops with
  | nil => simp at h
  | cons o t =>
    dsimp only at h
    by_cases hv : o.variant T = f.variants.getD 0 0
    case neg =>
      have hb : (o.variant T != f.variants.getD 0 0) = true := bne_iff_ne.2 hv
      simp only [hb, if_true] at h
      cases h
    case pos =>
      have hb : (o.variant T != f.variants.getD 0 0) = false := by rw [hv]; exact bne_self_eq_false _
      simp only [hb, Bool.false_eq_true, if_false] at h
      have h6 : (f.transforms.getD 0 0 == 6) = false := by
        apply beq_false_of_ne; omega
      simp only [h6, Bool.false_eq_true, if_false] at h
      have happ : applyTransform c (f.transforms.getD 0 0) o = .ok o.raw := by
        unfold applyTransform
        have e2 : (f.transforms.getD 0 0 == 2) = false := by apply beq_false_of_ne; omega
        have e3 : (f.transforms.getD 0 0 == 3) = false := by apply beq_false_of_ne; omega
        have e4 : (f.transforms.getD 0 0 == 4) = false := by apply beq_false_of_ne; omega
        have e5 : (f.transforms.getD 0 0 == 5) = false := by apply beq_false_of_ne; omega
        simp only [e2, e3, e4, e5, Bool.false_eq_true, if_false]
      rw [happ] at h
      simp only [LRes.ok.injEq, Prod.mk.injEq] at h
      exact ⟨o, by rw [h.2], h.1.symm, hv⟩

/-- **C18 (positional).** A struct literal made of plain required fields gives field `j` the raw value of operand `j`,
for every `j`, and leaves the operands after the last field untouched. -/
theorem liftFields_req (T : LiftTables) (c : LCtx) : ∀ (fs : List LField) (ops : List Operand) (vs : List (Nat × LVal))
    (rest : List Operand), fs.all plainReq = true → liftFields T c fs ops = .ok (vs, rest) →
    vs.map (·.2) = (ops.take fs.length).map Operand.raw ∧ rest = ops.drop fs.length ∧ fs.length ≤ ops.length ∧
    (ops.take fs.length).map (Operand.variant T) = fs.map (fun f => f.variants.getD 0 0)
  | [], ops, vs, rest, _, h => by simp only [liftFields] at h; cases h; simp
  | f :: fs, ops, vs, rest, hall, h => by
    simp only [List.all_cons, Bool.and_eq_true] at hall
    simp only [liftFields] at h
    cases hf : liftField T c f ops with
    | err e => rw [hf] at h; cases h
    | panic s => rw [hf] at h; cases h
    | ok p =>
      obtain ⟨v, r1⟩ := p
      rw [hf] at h
      dsimp only at h
      obtain ⟨o, hops, hv, hvar⟩ := liftField_plain T c f hall.1 ops v r1 hf
      cases hr : liftFields T c fs r1 with
      | err e => rw [hr] at h; cases h
      | panic s => rw [hr] at h; cases h
      | ok q =>
        obtain ⟨vs', r2⟩ := q
        rw [hr] at h
        cases h
        obtain ⟨h1, h2, h3, h4⟩ := liftFields_req T c fs r1 vs' _ hall.2 hr
        subst hops
        refine ⟨?_, ?_, ?_, ?_⟩
        · simp [h1, hv]
        · simp [h2]
        · simp only [List.length_cons]; omega
        · simp [hvar, h4]

/-! ### the tables against the grammar and the structured representation's declarations -/

/-- the `dr::Operand` variant(s) one logical operand of a kind is parsed into (without parameters) -/
def kindVariants (G : Tables) (k : Nat) : Option (List Nat) :=
  if k == G.kCtxNumber then some [G.vLit32]
  else if k == G.kPairLitId then some [G.vLit32, G.vIdRef]
  else if k == G.kSpecOp then some [G.vSpecOp]
  else match G.kindActs[k]? with
    | some (.elems es) => some (es.map (·.variant))
    | some (.maskParams e _) => some [e.variant]
    | some (.enumParams e _) => some [e.variant]
    | _ => none

def fieldOk (G : Tables) (f : LField) (k q : Nat) : Bool :=
  match kindVariants G k with
  | none => false
  | some vs => f.variants == vs && f.mode == (if q == 0 then 0 else if q == 1 then 1 else if vs.length == 2 then 3 else 2)

/-- an arm against its grammar entry and the declaration it fills -/
def armOk (G : Tables) (checkName : Bool) (a : LArm) (e : Entry) (decl : Nat × List Nat) : Bool :=
  (!checkName || a.ctor == e.name) && decl.1 == a.ctor && decl.2 == a.fields.map (·.name) &&
  ((e.ops.filter (fun o => o.1 != G.kIdResultType && o.1 != G.kIdResult)).length == a.fields.length) &&
  (a.fields.zip (e.ops.filter (fun o => o.1 != G.kIdResultType && o.1 != G.kIdResult))).all (fun p => fieldOk G p.1 p.2.1 p.2.2)

/-- merge walk over the grammar table and the arms, both ascending by opcode -/
def walk (G : Tables) (checkName : Bool) : List Entry → List (LArm × (Nat × List Nat)) → Bool
  | _, [] => true
  | [], _ :: _ => false
  | e :: es, p :: ps =>
    if e.opcode == p.1.opcode then armOk G checkName p.1 e p.2 && walk G checkName es ps
    else if e.opcode < p.1.opcode then walk G checkName es (p :: ps)
    else false

theorem walk_sound (G : Tables) (cn : Bool) : ∀ (es : List Entry) (ps : List (LArm × (Nat × List Nat))),
    walk G cn es ps = true → ∀ p ∈ ps, ∃ e ∈ es, e.opcode = p.1.opcode ∧ armOk G cn p.1 e p.2 = true
  | _, [], _, p, hp => by cases hp
  | [], _ :: _, h, _, _ => by simp [walk] at h
  | e :: es, q :: qs, h, p, hp => by
    simp only [walk] at h
    by_cases he : (e.opcode == q.1.opcode) = true
    · simp only [he, if_true, Bool.and_eq_true] at h
      rcases List.mem_cons.1 hp with rfl | hp
      · exact ⟨e, List.mem_cons_self, by simpa using he, h.1⟩
      · obtain ⟨e', he', h2⟩ := walk_sound G cn es qs h.2 p hp
        exact ⟨e', List.mem_cons_of_mem _ he', h2⟩
    · simp only [he, Bool.false_eq_true, if_false] at h
      by_cases hl : e.opcode < q.1.opcode
      · simp only [hl, if_true] at h
        obtain ⟨e', he', h2⟩ := walk_sound G cn es (q :: qs) h p hp
        exact ⟨e', List.mem_cons_of_mem _ he', h2⟩
      · simp [hl] at h

open Rspirv.Instances Rspirv.Generated.Lift in
/-- the table check: every family of generated arms walked against the grammar table, zipped with the declarations -/
def tableOk : Bool :=
  opArms.length == opDecl.length && walk theTables true theTables.core (opArms.zip opDecl) &&
  typeArms.length == typeDecl.length && walk theTables false theTables.core (typeArms.zip typeDecl) &&
  branchArms.length == branchDecl.length && walk theTables true theTables.core (branchArms.zip branchDecl) &&
  terminatorArms.length == terminatorDecl.length && walk theTables true theTables.core (terminatorArms.zip terminatorDecl) &&
  singleArms.length == structDecl.length && walk theTables true theTables.core (singleArms.zip structDecl)

theorem table_ok : tableOk = true := by decide +kernel

open Rspirv.Instances Rspirv.Generated.Lift in
/-- **C18 (per-opcode mapping).** Every generated `lift_op` arm (and likewise the other families) sits on the grammar
entry of its opcode and maps that entry's operands, in order, one field per operand, with the operand variant and the
multiplicity the grammar gives, into the fields of the like-named structured-representation variant in declaration
order. -/
theorem C18_table :
    (∀ p ∈ opArms.zip opDecl, ∃ e ∈ theTables.core, e.opcode = p.1.opcode ∧ armOk theTables true p.1 e p.2 = true) ∧
    (∀ p ∈ typeArms.zip typeDecl, ∃ e ∈ theTables.core, e.opcode = p.1.opcode ∧ armOk theTables false p.1 e p.2 = true) ∧
    (∀ p ∈ branchArms.zip branchDecl, ∃ e ∈ theTables.core, e.opcode = p.1.opcode ∧ armOk theTables true p.1 e p.2 = true) ∧
    (∀ p ∈ terminatorArms.zip terminatorDecl, ∃ e ∈ theTables.core, e.opcode = p.1.opcode ∧ armOk theTables true p.1 e p.2 = true) ∧
    (∀ p ∈ singleArms.zip structDecl, ∃ e ∈ theTables.core, e.opcode = p.1.opcode ∧ armOk theTables true p.1 e p.2 = true) ∧
    opArms.length = opDecl.length := by
  have h := table_ok
  simp only [tableOk, Bool.and_eq_true, beq_iff_eq] at h
  obtain ⟨⟨⟨⟨⟨⟨⟨⟨⟨a1, a2⟩, _⟩, b2⟩, _⟩, c2⟩, _⟩, d2⟩, _⟩, e2⟩ := h
  exact ⟨walk_sound _ _ _ _ a2, walk_sound _ _ _ _ b2, walk_sound _ _ _ _ c2, walk_sound _ _ _ _ d2, walk_sound _ _ _ _ e2, a1⟩

/-! ### the module walk -/

/-- **C18 (header, capabilities, functions).** A successful conversion carries the version word of the header, one
capability value per `OpCapability` instruction and one function per function of the module. -/
theorem C18_header (T : LiftTables) (m : Module Inst) (lm : LModule) (h : convert T m = .ok lm) :
    (∃ hd, m.header = some hd ∧ lm.version = hd.version) := by
  unfold convert at h
  cases hg : liftGlobals T LCtx.empty m.typesGlobalValues with
  | err e => rw [hg] at h; cases h
  | panic s => rw [hg] at h; cases h
  | ok c0 =>
    rw [hg] at h
    dsimp only at h
    cases hf : liftFunctions T c0 [] m.functions with
    | err e => rw [hf] at h; cases h
    | panic s => rw [hf] at h; cases h
    | ok p =>
      obtain ⟨c, fns⟩ := p
      rw [hf] at h
      dsimp only at h
      cases hh : m.header with
      | none => rw [hh] at h; cases h
      | some hd =>
        rw [hh] at h
        dsimp only at h
        refine ⟨hd, rfl, ?_⟩
        cases hc : T.capability with
        | none => rw [hc] at h; cases h
        | some capArm =>
          rw [hc] at h
          dsimp only at h
          split at h
          · cases h
          · cases h
          · split at h
            · cases h
            · split at h
              · cases h
              · split at h
                · cases h
                · cases h
                · cases h; rfl

example : plainReq ⟨nameCode "operand_1", 0, [58], [0]⟩ = true := by decide

end Rspirv.Props.C18
