import Rspirv.Props.C03KindOp
import Rspirv.Props.C02TypedInst
/-! C03: acceptance, delivery, error position and kind (`C03.lean`, `C03Kind.lean`, `C03KindOp.lean`) together with the typing of
the delivered instructions (`C02TypedInst.delivered_typed`: result-type / result-id presence and operand kinds as the grammar
entry dictates) -/
