import Rspirv.Generic.Method
import Rspirv.Generated.Builder
import Rspirv.Generated.Grammar
import Rspirv.Generated.Operands
import Rspirv.Generated.Extracted
import Rspirv.Generated.Findings
import Rspirv.Props.C05
import Rspirv.Props.C12
/-!
# C06 — every instruction-emitting Builder method emits its opcode's grammar, and files it where the loader does

`methods` are the specs of all generated Builder methods, regenerated from the source on every run. Each is judged
against three things that do not come from the same lines: the grammar table (kinds, quantifiers and parameter
order), the loader's classification (extracted reflect predicates, C05's `classify`), and the opcode enumeration.
-/
namespace Rspirv.Props.C06
open Rspirv Rspirv.Model Rspirv.Generated.Builder Rspirv.Generated.Grammar Rspirv.Generated.Operands

/-- Operand variants a context-free kind decodes to, and whether the kind carries value-dependent parameters -/
def kindVariants (k : Nat) : Option (List Nat × Bool) :=
  if k == kind_LiteralSpecConstantOpInteger then some ([v_LiteralSpecConstantOpInteger], false) else
  match kindActs[k]? with
  | some (.elems es) => some (es.map (·.variant), false)
  | some (.maskParams e _) => some ([e.variant], true)
  | some (.enumParams e _) => some ([e.variant], true)
  | _ => none

/-- does a slot realise one logical operand `(kind, quantifier)`? -/
def slotMatches (op : Nat × Nat) (s : Slot) : Bool :=
  if op.1 == kind_PairLiteralIntegerIdRef then
    -- `(dr::Operand, Word)` pairs: the literal is passed as an operand because its width depends on context
    match s with
    | .pairs none (some b) _ => op.2 == 2 && b == v_IdRef
    | _ => false
  else
  match kindVariants op.1, s with
  | some ([v], _), .one v' _ => op.2 == 0 && v == v'
  | some ([v], _), .optS v' _ => op.2 == 1 && v == v'
  | some ([v], _), .many v' _ => op.2 == 2 && v == v'
  | some ([a, b], _), .pairs (some a') (some b') _ => op.2 == 2 && a == a' && b == b'
  | _, _ => false

def slotParam : Slot → Nat
  | .one _ p => p | .optS _ p => p | .many _ p => p | .raw p => p | .pairs _ _ p => p

def isRaw : Slot → Bool
  | .raw _ => true
  | _ => false

def zipMatch : List (Nat × Nat) → List Slot → Bool
  | [], [] => true
  | o :: os, s :: ss => slotMatches o s && zipMatch os ss
  | _, _ => false

def strictIncNat : List Nat → Bool := strictInc

/-- `LTables` whose predicates answer from one row of the extracted reflect table: `classify (rowL bits) op` is the
class the loader gives `op` when `bits` are the reflect predicates' answers on `op` (classify applies the predicates
to the opcode itself only) -/
def rowL (bits : Nat) : LTables :=
  { opCapability := op_Capability, opExtension := op_Extension, opExtInstImport := op_ExtInstImport
    opMemoryModel := op_MemoryModel, opEntryPoint := op_EntryPoint, opExecutionMode := op_ExecutionMode
    opExecutionModeId := op_ExecutionModeId, opString := op_String, opSourceExtension := op_SourceExtension
    opSource := op_Source, opSourceContinued := op_SourceContinued, opName := op_Name, opMemberName := op_MemberName
    opModuleProcessed := op_ModuleProcessed, opVariable := op_Variable, opUndef := op_Undef
    opFunction := op_Function, opFunctionEnd := op_FunctionEnd, opFunctionParameter := op_FunctionParameter
    opLabel := op_Label
    isLocationDebug := fun _ => bits.testBit 0, isAnnotation := fun _ => bits.testBit 3, isType := fun _ => bits.testBit 4
    isConstant := fun _ => bits.testBit 5, isBlockTerminator := fun _ => bits.testBit 11 }

/-- the sink of the method agrees with where the loader files an instruction of that opcode -/
def sinkAgrees (bits : Nat) (m : MethodSpec) : Bool :=
  match classify (rowL bits) m.opcode with
  | .sect k => (m.sink == 0 && m.sect == k) || (m.sink == 3 && k == 10)
  | .term => m.sink == 2
  | .other => m.sink == 1
  | _ => false            -- OpLine/OpNoLine, OpVariable, OpUndef, OpFunction.., OpLabel are hand-written methods

/-- one method against its grammar entry `e` and the reflect bits of its opcode -/
def methodOk (e : Entry) (bits : Nat) (m : MethodSpec) : Bool :=
  let hasRT := e.ops.any (fun o => o.1 == kind_IdResultType)
  let hasRID := e.ops.any (fun o => o.1 == kind_IdResult)
  let ops := e.ops.filter (fun o => o.1 != kind_IdResultType && o.1 != kind_IdResult)
  let parameterised := ops.any (fun o => match kindVariants o.1 with | some (_, p) => p | none => false)
  let slots := if parameterised then m.slots.filter (fun s => !isRaw s) else m.slots
  -- result type / result id handled by the stated rule
  (m.rtype.isSome == hasRT) && ((m.idKind != 0) == hasRID) &&
  -- kinds and quantifiers position by position; `additional_params` last, exactly when some kind is parameterised
  zipMatch ops slots &&
  (if parameterised then (m.slots.getLast?.map isRaw == some true) && (m.slots.filter isRaw).length == 1
   else (m.slots.filter isRaw).isEmpty) &&
  -- slot i is fed by the i-th operand parameter: parameter indices strictly increasing
  strictIncNat (m.slots.map slotParam) &&
  sinkAgrees bits m

/-- name codes of methods recorded as known findings (C06:method:<name>) still present in the tree -/
def knownBad : List Nat := Rspirv.Generated.Findings.c06KnownMethods

/-- merge-walk: the grammar table (with the reflect row of each entry) is ascending by opcode and so is each method
group, so every method meets its entry without a lookup. Fails if a method's opcode has no entry. -/
def walk : Nat → List (Entry × (Nat × Nat)) → List MethodSpec → Bool
  | 0, _, ms => ms.isEmpty
  | _ + 1, _, [] => true
  | _ + 1, [], _ :: _ => false
  | f + 1, (e, r) :: es, m :: ms =>
    if e.opcode == m.opcode then
      (r.1 == e.opcode && (methodOk e r.2 m || knownBad.contains m.name)) && walk f ((e, r) :: es) ms
    else walk f es (m :: ms)

def joined : List (Entry × (Nat × Nat)) := coreTable.zip Rspirv.Generated.Extracted.reflectTable

/-- wrapper methods `x(args) = x_id(None, args)`: the callee is the next-named dedup method with the id first -/
def wrapperOk (m : MethodSpec) : Bool :=
  match methods.find? (fun c => c.name == m.wrapperOf) with
  | some c => c.idKind == 3 && c.idParam == 0 && c.params.drop 1 == m.params
  | none => false

def allMethodsOk : Bool :=
  methodGroups.all (fun g => walk (joined.length + g.length + 1) joined g) &&
  decide ((methodGroups.map List.length).sum + wrappers.length = methods.length)

theorem methods_ok : allMethodsOk = true := by decide +kernel

theorem wrappers_ok : wrappers.all wrapperOk = true := by decide +kernel

/-- soundness of the merge-walk: every method of the walked list meets an entry of the table with its own opcode and
passes `methodOk` against it (or is a recorded finding) -/
theorem walk_sound : ∀ (f : Nat) (es : List (Entry × (Nat × Nat))) (ms : List MethodSpec), walk f es ms = true →
    ∀ m ∈ ms, ∃ p ∈ es, p.1.opcode = m.opcode ∧ p.2.1 = m.opcode ∧ (methodOk p.1 p.2.2 m = true ∨ knownBad.contains m.name = true)
  | 0, _, ms, h => by
    simp only [walk, List.isEmpty_iff] at h; subst h; intro m hm; cases hm
  | _ + 1, _, [], _ => by intro m hm; cases hm
  | _ + 1, [], _ :: _, h => by simp [walk] at h
  | f + 1, (e, r) :: es, m :: ms, h => by
    unfold walk at h
    by_cases he : (e.opcode == m.opcode) = true
    · simp only [he, if_true, Bool.and_eq_true, Bool.or_eq_true, beq_iff_eq] at h
      obtain ⟨⟨hr, hok⟩, hrest⟩ := h
      have ih := walk_sound f ((e, r) :: es) ms hrest
      intro m' hm'
      rcases List.mem_cons.1 hm' with rfl | hm'
      · exact ⟨(e, r), List.mem_cons_self, by simpa using he, by rw [hr]; simpa using he, hok⟩
      · exact ih m' hm'
    · simp only [he, Bool.false_eq_true, if_false] at h
      have ih := walk_sound f es (m :: ms) h
      intro m' hm'
      obtain ⟨p, hp, rest⟩ := ih m' hm'
      exact ⟨p, List.mem_cons_of_mem _ hp, rest⟩

/-- **C06 (methods).** Every generated instruction-emitting Builder method (≈1100, minus recorded findings): its
opcode has a grammar entry; it takes a result type / allocates a result id exactly when the entry has one; its operand
slots match the entry's operands kind by kind and quantifier by quantifier, in grammar order, each fed by the
corresponding parameter in signature order; value-dependent parameters are passed through a single trailing
`additional_params`; and it files the instruction where the loader files that opcode (section, block, or
block-terminating) according to the reflect predicates' answers on that opcode. -/
theorem C06_methods (g : List MethodSpec) (hg : g ∈ methodGroups) (m : MethodSpec) (hm : m ∈ g)
    (hk : knownBad.contains m.name = false) :
    ∃ p ∈ joined, p.1.opcode = m.opcode ∧ p.2.1 = m.opcode ∧ methodOk p.1 p.2.2 m = true := by
  have h := methods_ok
  simp only [allMethodsOk, Bool.and_eq_true, List.all_eq_true] at h
  obtain ⟨p, hp, h1, h2, h3⟩ := walk_sound _ _ _ (h.1 g hg) m hm
  refine ⟨p, hp, h1, h2, ?_⟩
  rcases h3 with h3 | h3
  · exact h3
  · rw [hk] at h3; cases h3

/-- **C16 clause / C06.** The Builder ends a block for exactly the opcodes the block-terminator predicate accepts: a
generated method sinks into `end_block` iff the loader classifies its opcode (by the extracted predicates) as a
terminator. -/
theorem C06_terminators (g : List MethodSpec) (hg : g ∈ methodGroups) (m : MethodSpec) (hm : m ∈ g)
    (hk : knownBad.contains m.name = false) :
    ∃ p ∈ joined, p.2.1 = m.opcode ∧ (m.sink = 2 ↔ classify (rowL p.2.2) m.opcode = .term) := by
  obtain ⟨p, hp, _, h2, hok⟩ := C06_methods g hg m hm hk
  refine ⟨p, hp, h2, ?_⟩
  unfold methodOk at hok
  simp only [Bool.and_eq_true] at hok
  have hs := hok.2
  unfold sinkAgrees at hs
  constructor
  · intro h2
    split at hs <;> simp_all
  · intro hc
    rw [hc] at hs
    simpa using hs

/-- every block-terminator opcode has a generated method that ends the block -/
def terminatorsCovered : Bool :=
  Rspirv.Generated.Extracted.reflectTable.all (fun r =>
    !(r.2.testBit 11) || methods.any (fun m => m.opcode == r.1 && m.sink == 2))

theorem terminators_covered : terminatorsCovered = true := by decide +kernel

example : methods.length > 1000 ∧ methodGroups.length ≤ 8 := by decide +kernel

end Rspirv.Props.C06
