import Rspirv.Props.RoundTrip
import Rspirv.Props.C01Words
/-!
# C01 — reload without the grammar hypothesis when the input is in layout order

`C01_reload_bytes` needs the traversal of the loaded module to be a stream of instructions of the grammar. The
instructions the parser delivered *are* such a stream in the order they were delivered (`insts_stream`: each one was
recognised under the types tracked so far, and its re-encoding has the word count it was read with, `asm_len`). So when
the traversal of the loaded module is the delivered sequence — which `C01_identity` shows for inputs already in layout
order — the hypothesis is discharged: `C01_reload_layout`.
-/
namespace Rspirv.Props.C01Layout
open Rspirv Rspirv.Model Rspirv.Props.C02 Rspirv.Props.C01Words Rspirv.Props.RoundTrip

def opLen : Operand → Nat
  | .w _ _ => 1
  | .q _ => 2
  | .s bs => bs.length / 4 + 1

theorem opWords_len (o : Operand) (w : List Nat) (h : OpWords o w) : w.length = opLen o := by
  cases o with
  | w v x => simp only [OpWords] at h; subst h; rfl
  | q v => obtain ⟨lo, hi, e, _⟩ := h; subst e; rfl
  | s bs => exact h.1

theorem opsWords_len_eq : ∀ (os : List Operand) (a b : List Nat), OpsWords os a → OpsWords os b → a.length = b.length := by
  intro os
  induction os with
  | nil => intro a b ha hb; cases ha; cases hb; rfl
  | cons o os ih =>
    intro a b ha hb
    cases ha with
    | cons ho1 hos1 =>
      cases hb with
      | cons ho2 hos2 =>
        simp only [List.length_append]
        rw [opWords_len o _ ho1, opWords_len o _ ho2, ih _ _ hos1 hos2]

theorem wordBytes_mem_lt (w b : Nat) (h : b ∈ Spec.wordBytes w) : b < 256 := by
  simp only [Spec.wordBytes, List.mem_cons, List.not_mem_nil, or_false] at h
  rcases h with rfl | rfl | rfl | rfl <;> omega

theorem opWords_ok (o : Operand) (w : List Nat) (h : OpWords o w) : OperandOk o := by
  cases o with
  | w v x => trivial
  | q v =>
    obtain ⟨lo, hi, _, e⟩ := h
    simp only [OperandOk]
    omega
  | s bs =>
    intro b hb
    have hmem : b ∈ (w.flatMap Spec.wordBytes).take (bs.length + 1) := by rw [h.2]; simp [hb]
    obtain ⟨x, _, hx⟩ := List.mem_flatMap.1 (List.mem_of_mem_take hmem)
    exact wordBytes_mem_lt x b hx

theorem opsWords_ok : ∀ (os : List Operand) (ws : List Nat), OpsWords os ws → ∀ o ∈ os, OperandOk o := by
  intro os ws h
  induction h with
  | nil => intro o ho; cases ho
  | cons ho _ ih =>
    intro o' ho'
    rcases List.mem_cons.1 ho' with rfl | ho'
    · exact opWords_ok _ _ ho
    · exact ih o' ho'

/-- the re-encoding of a recognised instruction has the word count it was read with (below 2^16) -/
theorem asm_len (G : Tables) (good : GoodTables G) (τ : Tracker) (ws : List Nat) (i : Inst) (rest : List Nat)
    (h : Spec.inst G τ ws = some (i, rest)) (hw : WordsOk ws) : (assembleInst i).length < 65536 := by
  obtain ⟨used, e, w0, ops, hu, hc, _, hops⟩ := inst_words G good τ ws i rest h
  have hw0 : w0 < 4294967296 := by
    apply hw
    rw [e, hu]; simp
  have hused : used.length < 65536 := by rw [← hc]; omega
  have henc := encOps_words i.operands (opsWords_ok _ _ hops)
  have hl := opsWords_len_eq i.operands _ _ henc hops
  have : (assembleInst i).length = used.length := by
    rw [hu]
    simp only [assembleInst, List.length_cons, List.length_append]
    have : (i.operands.flatMap encodeOperand).length = ops.length := hl
    omega
  omega

/-- what the recogniser delivers is a stream of instructions of the grammar -/
theorem insts_stream (G : Tables) (good : GoodTables G) : ∀ (fuel : Nat) (τ : Tracker) (ws : List Nat), WordsOk ws →
    GrammarStream G τ (Spec.insts G fuel τ ws).1
  | 0, _, _, _ => trivial
  | fuel + 1, τ, ws, hw => by
    unfold Spec.insts
    cases hs : Spec.inst G τ ws with
    | none => trivial
    | some p =>
      obtain ⟨i, rest⟩ := p
      dsimp only
      cases ht : τ.track G.tt i with
      | none => trivial
      | some τ1 =>
        dsimp only
        obtain ⟨used, e, _⟩ := inst_words G good τ ws i rest hs
        have hwr : WordsOk rest := by
          intro x hx; apply hw; rw [e]; exact List.mem_append_right _ hx
        exact ⟨⟨ws, rest, hs⟩, asm_len G good τ ws i rest hs hw, τ1, ht, insts_stream G good fuel τ1 rest hwr⟩

theorem streamWords_ok (bytes : List Nat) (hb : ∀ b ∈ bytes, b < 256) : WordsOk (Spec.streamWords bytes) := by
  intro w hw
  simp only [Spec.streamWords, List.mem_map] at hw
  obtain ⟨k, _, rfl⟩ := hw
  exact Rspirv.Props.ParserSpec.le32_lt bytes hb _

/-- **C01 (reload of a layout-ordered input).** A binary (bytes below 256, shorter than 2^63 bytes, five header words with the
magic number) that `load_bytes` accepts as `m` and whose instruction sequence is the traversal of `m` — the input was in
layout order (`C01_identity`) — : `load_bytes` of the bytes of `m.assemble()` returns `Ok(m)` again. No hypothesis about the
grammar: the delivered instructions are a grammar stream by construction. -/
theorem C01_reload_layout (G : Tables) (L : LTables) (hT : Rspirv.Props.C04.tablesSafe G = true) (good : GoodTables G)
    (bytes : List Nat) (hb : ∀ b ∈ bytes, b < 256) (m : Module Inst) (h : loadBytes G L bytes = .ok m)
    (hlay : Rspirv.Props.C15.allInstIter m = (Spec.insts G (bytes.length + 1) [] (Spec.streamWords bytes)).1)
    (hw : WordsOk (Rspirv.Props.C15.assemble assembleInst m))
    (hsmall : 4 * (Rspirv.Props.C15.assemble assembleInst m).length < 2 ^ 63) :
    loadBytes G L ((Rspirv.Props.C15.assemble assembleInst m).flatMap Spec.wordBytes) = .ok m := by
  have hg : GrammarStream G [] (Rspirv.Props.C15.allInstIter m) := by
    rw [hlay]; exact insts_stream G good _ [] _ (streamWords_ok bytes hb)
  exact C01_reload_bytes G L hT good bytes m h hg hw hsmall

end Rspirv.Props.C01Layout
