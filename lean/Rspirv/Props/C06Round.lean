import Rspirv.Props.RoundTrip
import Rspirv.Props.C12
import Rspirv.Props.C13
import Rspirv.Model.Hyp
/-!
# C06 — a module built by a complete plain Builder history survives assemble-then-load

`PlainAt L s c`: the call `c`, made in state `s`, is one of the instruction-emitting or structural calls (no
`select_function` / `select_block` / `pop_instruction` / raw insertion, no `begin_block_no_label` — recorded finding),
files an instruction of an opcode the loader files the same way (for the generated methods this is what `C06_methods`
establishes from the method table; for the hand-written ones `hand_plain` below), a terminator is appended at the end
of its block (`End` or `FromEnd(0)`), and `end_function` is not called while a block is open ("each begun block ended by a terminator").

* `step_binv` / `run_binv`: the invariant `BInv` (module sections canonical; every function but the selected one
  canonical; the selected function is the last one, open, with all blocks canonical except the selected one, which is
  the last, labelled and free of terminators) holds along every plain history from a new builder.
* `C06_canon`: after a complete plain history (no function open) `Builder::module()` is canonical.
* `C06_roundtrip`: hence, if its traversal is a stream of instructions of the grammar, `load_bytes(module.assemble())`
  returns exactly the built module.
-/
namespace Rspirv.Props.C06Round
open Rspirv Rspirv.Model Rspirv.Props.Reload Rspirv.Props.C12

/-- the opcodes the structural methods emit are the ones the loader's structural arms dispatch on -/
structure StructOk (L : LTables) (B : BTables) : Prop where
  fn : classify L B.opFunction = .fn
  fnEnd : classify L B.opFunctionEnd = .fnEnd
  param : classify L B.opFunctionParameter = .param
  label : classify L B.opLabel = .label

def BlockOpen (L : LTables) (b : Block Inst) : Prop :=
  ∃ l, b.label = some l ∧ classify L l.opcode = .label ∧ ∀ x ∈ b.insts, inBlock L x.opcode = true

/-- the blocks of the open function: all finished, or all finished but the selected last one -/
def Blocks (L : LTables) (bs : List (Block Inst)) : Option Nat → Prop
  | none => ∀ b ∈ bs, BlockCanon L b
  | some k => ∃ done b, bs = done ++ [b] ∧ k = done.length ∧ (∀ x ∈ done, BlockCanon L x) ∧ BlockOpen L b

def FnOpen (L : LTables) (f : Function Inst) (sb : Option Nat) : Prop :=
  ∃ d, f.def_ = some d ∧ classify L d.opcode = .fn ∧ (∀ p ∈ f.params, classify L p.opcode = .param) ∧
    Blocks L f.blocks sb

def Shape (L : LTables) (fs : List (Function Inst)) : Option Nat → Option Nat → Prop
  | none, sb => sb = none ∧ ∀ f ∈ fs, FnCanon L f
  | some j, sb => ∃ closed f, fs = closed ++ [f] ∧ j = closed.length ∧ (∀ g ∈ closed, FnCanon L g) ∧ FnOpen L f sb

def Top (L : LTables) (m : Module Inst) : Prop :=
  (∀ k, k ≤ 10 → k ≠ 3 → ∀ i ∈ m.sect k, topDest L i.opcode = some k) ∧
  ∀ i, m.memoryModel = some i → classify L i.opcode = .sect 3

structure BInv (L : LTables) (s : BState) : Prop where
  top : Top L s.module
  shape : Shape L s.module.functions s.selFn s.selBlk

def PlainAt (L : LTables) (s : BState) : Call → Prop
  | .id => True
  | .setVersion _ _ => True
  | .beginFunction _ _ _ _ => True
  | .endFunction => s.selBlk = none
  | .functionParameter _ => True
  | .beginBlock _ => True
  | .blockInst _ op _ _ _ => classify L op = .other
  | .terminator ip op _ => (ip = .end_ ∨ ip = .fromEnd 0) ∧ classify L op = .term
  | .moduleInst k op _ _ _ => classify L op = .sect k
  | .varUndef op _ _ _ => classify L op = .varOp ∨ classify L op = .undefOp
  | .lineLike op _ => classify L op = .line
  | .typeRequest op _ _ => classify L op = .sect 10
  | _ => False

def PlainRun (L : LTables) (B : BTables) : BState → List Call → Prop
  | _, [] => True
  | s, c :: cs => PlainAt L s c ∧ PlainRun L B (s.step B c).1 cs

/-! ### helpers -/

theorem sect_functions (m : Module Inst) (fs : List (Function Inst)) (k : Nat) :
    ({ m with functions := fs } : Module Inst).sect k = m.sect k := by
  unfold Module.sect; split <;> rfl

theorem sect_header (m : Module Inst) (h : Option Header) (k : Nat) :
    ({ m with header := h } : Module Inst).sect k = m.sect k := by
  unfold Module.sect; split <;> rfl

theorem top_functions (L : LTables) (m : Module Inst) (fs : List (Function Inst)) (h : Top L m) :
    Top L { m with functions := fs } :=
  ⟨by intro k hk hk3 i hi; rw [sect_functions] at hi; exact h.1 k hk hk3 i hi, h.2⟩

theorem top_header (L : LTables) (m : Module Inst) (hd : Option Header) (h : Top L m) :
    Top L { m with header := hd } :=
  ⟨by intro k hk hk3 i hi; rw [sect_header] at hi; exact h.1 k hk hk3 i hi, h.2⟩

theorem top_push (L : LTables) (m : Module Inst) (i : Inst) (k : Nat) (h : Top L m)
    (ht : topDest L i.opcode = some k) (hk : k ≤ 10) (h3 : k = 3 → classify L i.opcode = .sect 3) :
    Top L (m.push k i) := by
  obtain ⟨h1, h2⟩ := h
  refine ⟨?_, ?_⟩
  · intro j hj hj3 x hx
    rw [sect_push_ne3 m k j i hk hj hj3] at hx
    rcases List.mem_append.1 hx with hx | hx
    · exact h1 j hj hj3 x hx
    · by_cases hkj : k = j
      · subst hkj; simp only [if_true, List.mem_singleton] at hx; subst hx; exact ht
      · simp [hkj] at hx
  · intro x hx
    simp only [push_mm] at hx
    by_cases hk3 : k = 3
    · simp only [hk3, if_true, Option.some.injEq] at hx; subst hx; exact h3 hk3
    · simp only [hk3, if_false] at hx; exact h2 x hx

theorem top_push_sect (L : LTables) (m : Module Inst) (i : Inst) (k : Nat) (h : Top L m)
    (hc : classify L i.opcode = .sect k) : Top L (m.push k i) :=
  top_push L m i k h (by unfold topDest; rw [hc]) (classify_sect_le L _ _ hc) (fun e => e ▸ hc)

theorem getElem?_last {α} (l : List α) (x : α) : (l ++ [x])[l.length]? = some x := by simp

theorem set_last {α} (l : List α) (x y : α) : (l ++ [x]).set l.length y = l ++ [y] := by simp

theorem updBlock_last (m : Module Inst) (closed : List (Function Inst)) (f : Function Inst) (done : List (Block Inst))
    (b : Block Inst) (g : Block Inst → Option (Block Inst)) (hf : m.functions = closed ++ [f])
    (hb : f.blocks = done ++ [b]) :
    updBlock m closed.length done.length g =
      (g b).map (fun b' => { m with functions := closed ++ [{ f with blocks := done ++ [b'] }] }) := by
  unfold updBlock
  rw [hf, getElem?_last]
  simp only
  rw [hb, getElem?_last]
  simp only
  cases g b with
  | none => rfl
  | some b' => simp only [Option.map_some, set_last]

theorem insertAt_mem {α} (l l' : List α) (ip : InsertPoint) (x : α) (h : insertAt l ip x = some l') :
    ∀ y ∈ l', y ∈ l ∨ y = x := by
  have key : ∀ (pos : Nat) (r : List α), vecInsert l pos x = some r → ∀ y ∈ r, y ∈ l ∨ y = x := by
    intro pos r hr y hy
    unfold vecInsert at hr
    split at hr
    · cases hr
      simp only [List.mem_append, List.mem_singleton] at hy
      rcases hy with (hy | hy) | hy
      · exact Or.inl (List.mem_of_mem_take hy)
      · exact Or.inr hy
      · exact Or.inl (List.mem_of_mem_drop hy)
    · cases hr
  cases ip with
  | end_ =>
    simp only [insertAt, Option.some.injEq] at h; subst h
    intro y hy
    simp only [List.mem_append, List.mem_singleton] at hy
    exact hy
  | begin => exact key 0 l' h
  | fromEnd n =>
    simp only [insertAt] at h
    split at h
    · exact key _ l' h
    · cases h
  | fromBegin n => exact key n l' h

theorem allocId_eq (s : BState) (r : IdRule) :
    ∃ n, (allocId s r).1 = { s with nextId := n } := by
  cases r with
  | none => exact ⟨s.nextId, rfl⟩
  | fresh => exact ⟨s.nextId + 1, rfl⟩
  | given o =>
    cases o with
    | none => exact ⟨s.nextId + 1, rfl⟩
    | some v => exact ⟨s.nextId, rfl⟩

theorem binv_nextId (L : LTables) (s : BState) (n : Nat) (h : BInv L s) : BInv L { s with nextId := n } :=
  ⟨h.top, h.shape⟩

/-- inserting an in-block instruction into the selected block keeps the invariant (or changes nothing) -/
theorem binv_insert (L : LTables) (s : BState) (ip : InsertPoint) (i : Inst) (h : BInv L s)
    (hi : inBlock L i.opcode = true) : BInv L (insertIntoBlock s ip i).1 := by
  obtain ⟨m, nid, sf, sb⟩ := s
  obtain ⟨htop, hshape⟩ := h
  unfold insertIntoBlock
  cases sf with
  | none => exact ⟨htop, hshape⟩
  | some j =>
    cases sb with
    | none => exact ⟨htop, hshape⟩
    | some k =>
      simp only at hshape ⊢
      obtain ⟨closed, f, hf, hj, hclosed, d, hd, hcd, hps, done, b, hb, hk, hdone, l, hl, hcl, hins⟩ := hshape
      subst hj hk
      rw [updBlock_last m closed f done b _ hf hb]
      cases hia : insertAt b.insts ip i with
      | none => simp only [Option.map_none]; exact ⟨htop, closed, f, hf, rfl, hclosed, d, hd, hcd, hps, done, b, hb, rfl, hdone, l, hl, hcl, hins⟩
      | some l' =>
        simp only [Option.map_some]
        refine ⟨top_functions L m _ htop, closed, _, rfl, rfl, hclosed, d, hd, hcd, hps, done, _, rfl, rfl, hdone, l, hl, hcl, ?_⟩
        intro x hx
        rcases insertAt_mem _ _ ip i hia x hx with hx | hx
        · exact hins x hx
        · subst hx; exact hi

theorem insert_sel (s : BState) (ip : InsertPoint) (i : Inst) :
    (insertIntoBlock s ip i).1.selFn = s.selFn ∧ (insertIntoBlock s ip i).1.selBlk = s.selBlk := by
  unfold insertIntoBlock
  split
  · split <;> exact ⟨rfl, rfl⟩
  · exact ⟨rfl, rfl⟩

/-! ### one call -/

theorem step_binv (L : LTables) (B : BTables) (hso : StructOk L B) (s : BState) (c : Call) (h : BInv L s)
    (hp : PlainAt L s c) : BInv L (s.step B c).1 := by
  cases c with
  | id => exact ⟨h.top, h.shape⟩
  | setVersion a b => exact ⟨top_header L _ _ h.top, h.shape⟩
  | beginFunction rt fid control ftype =>
    obtain ⟨m, nid, sf, sb⟩ := s
    obtain ⟨htop, hshape⟩ := h
    cases sf with
    | some j => exact ⟨htop, hshape⟩
    | none =>
      obtain ⟨hsb, hall⟩ := hshape
      simp only at hsb hall
      subst hsb
      cases fid with
      | none =>
        exact ⟨top_functions L m _ htop, m.functions, _, rfl, rfl, hall, _, rfl, hso.fn,
          (by intro p hp; cases hp), (by intro b hb; cases hb)⟩
      | some v =>
        exact ⟨top_functions L m _ htop, m.functions, _, rfl, rfl, hall, _, rfl, hso.fn,
          (by intro p hp; cases hp), (by intro b hb; cases hb)⟩
  | endFunction =>
    obtain ⟨m, nid, sf, sb⟩ := s
    obtain ⟨htop, hshape⟩ := h
    simp only [PlainAt] at hp
    subst hp
    cases sf with
    | none => exact ⟨htop, hshape⟩
    | some j =>
      obtain ⟨closed, f, hf, hj, hclosed, d, hd, hcd, hps, hbs⟩ := hshape
      simp only at hf
      subst hj
      simp only [BState.step, hf, getElem?_last, set_last]
      refine ⟨top_functions L m _ htop, rfl, ?_⟩
      intro g hg
      simp only [List.mem_append, List.mem_singleton] at hg
      rcases hg with hg | rfl
      · exact hclosed g hg
      · exact ⟨d, _, hd, rfl, hcd, hso.fnEnd, hps, hbs⟩
  | functionParameter rt =>
    obtain ⟨m, nid, sf, sb⟩ := s
    obtain ⟨htop, hshape⟩ := h
    cases sf with
    | none => exact ⟨htop, hshape⟩
    | some j =>
      obtain ⟨closed, f, hf, hj, hclosed, d, hd, hcd, hps, hbs⟩ := hshape
      simp only at hf
      subst hj
      simp only [BState.step, hf, getElem?_last, set_last]
      refine ⟨top_functions L m _ htop, closed, _, rfl, rfl, hclosed, d, hd, hcd, ?_, hbs⟩
      intro p hp'
      rcases List.mem_append.1 hp' with hp' | hp'
      · exact hps p hp'
      · simp only [List.mem_singleton] at hp'; subst hp'; exact hso.param
  | beginBlock label =>
    obtain ⟨m, nid, sf, sb⟩ := s
    obtain ⟨htop, hshape⟩ := h
    cases sf with
    | none => exact ⟨htop, hshape⟩
    | some j =>
      cases sb with
      | some k => exact ⟨htop, hshape⟩
      | none =>
        obtain ⟨closed, f, hf, hj, hclosed, d, hd, hcd, hps, hbs⟩ := hshape
        simp only at hf
        subst hj
        cases label with
        | none =>
          simp only [BState.step, Option.isSome_none, Bool.false_eq_true, if_false, hf, getElem?_last, set_last]
          exact ⟨top_functions L m _ htop, closed, _, rfl, rfl, hclosed, d, hd, hcd, hps, f.blocks, _, rfl, rfl, hbs,
            _, rfl, hso.label, (by intro x hx; cases hx)⟩
        | some v =>
          simp only [BState.step, Option.isSome_none, Bool.false_eq_true, if_false, hf, getElem?_last, set_last]
          exact ⟨top_functions L m _ htop, closed, _, rfl, rfl, hclosed, d, hd, hcd, hps, f.blocks, _, rfl, rfl, hbs,
            _, rfl, hso.label, (by intro x hx; cases hx)⟩
  | blockInst ip op rtype rule ops =>
    simp only [PlainAt] at hp
    obtain ⟨n, hn⟩ := allocId_eq s rule
    have h1 : BInv L (allocId s rule).1 := by rw [hn]; exact binv_nextId L s n h
    have hin : inBlock L op = true := by unfold inBlock; rw [hp]
    simp only [BState.step]
    generalize (allocId s rule).2 = rid
    have h2 := binv_insert L (allocId s rule).1 ip ⟨op, rtype, rid, ops⟩ h1 hin
    generalize hr : insertIntoBlock (allocId s rule).1 ip ⟨op, rtype, rid, ops⟩ = r at h2
    obtain ⟨s2, o⟩ := r
    cases o <;> exact h2
  | terminator ip op ops =>
    obtain ⟨hip, hc⟩ := hp
    have hins' : ∀ l : List Inst, insertAt l ip ⟨op, none, none, ops⟩ = some (l ++ [⟨op, none, none, ops⟩]) := by
      intro l
      rcases hip with rfl | rfl
      · rfl
      · simp [insertAt, vecInsert]
    obtain ⟨m, nid, sf, sb⟩ := s
    obtain ⟨htop, hshape⟩ := h
    cases sb with
    | none => exact ⟨htop, hshape⟩
    | some k =>
      cases sf with
      | none => obtain ⟨hsb, _⟩ := hshape; cases hsb
      | some j =>
        obtain ⟨closed, f, hf, hj, hclosed, d, hd, hcd, hps, done, b, hb, hk, hdone, l, hl, hcl, hins⟩ := hshape
        simp only at hf
        subst hj hk
        simp only [BState.step, Option.isSome_some, if_true, insertIntoBlock, updBlock_last m closed f done b _ hf hb,
          hins', Option.map_some]
        refine ⟨top_functions L m _ htop, closed, _, rfl, rfl, hclosed, d, hd, hcd, hps, ?_⟩
        intro x hx
        simp only [List.mem_append, List.mem_singleton] at hx
        rcases hx with hx | rfl
        · exact hdone x hx
        · obtain ⟨bl, bi⟩ := b
          simp only at hl; subst hl
          exact ⟨l, bi, _, rfl, hcl, hc, hins⟩
  | moduleInst k op rtype rule ops =>
    simp only [PlainAt] at hp
    obtain ⟨n, hn⟩ := allocId_eq s rule
    simp only [BState.step]
    generalize (allocId s rule).2 = rid
    rw [hn]
    exact ⟨top_push_sect L _ _ k h.top hp, by simpa [C12.push_functions] using h.shape⟩
  | varUndef op rt rid ops =>
    simp only [PlainAt] at hp
    have htd : topDest L op = some 10 := by unfold topDest; rcases hp with hp | hp <;> rw [hp]
    have hin : inBlock L op = true := by unfold inBlock; rcases hp with hp | hp <;> rw [hp]
    obtain ⟨m, nid, sf, sb⟩ := s
    obtain ⟨htop, hshape⟩ := h
    have push10 : ∀ (n : Nat) (i : Inst), i.opcode = op → BInv L ⟨m.push 10 i, n, sf, sb⟩ := by
      intro n i hi
      exact ⟨top_push L m i 10 htop (by rw [hi]; exact htd) (by omega) (by omega), by simpa [C12.push_functions] using hshape⟩
    have inblk : ∀ (n j k : Nat) (i : Inst), i.opcode = op → sf = some j → sb = some k →
        BInv L (match updBlock m j k (fun blk => some { blk with insts := blk.insts ++ [i] }) with
          | some m' => ((⟨m', n, sf, sb⟩ : BState), BOut.id 0)
          | none => (⟨m, n, sf, sb⟩, BOut.panic "variable: index")).1 := by
      intro n j k i hi hsf hsb
      subst hsf hsb
      obtain ⟨closed, f, hf, hj, hclosed, d, hd, hcd, hps, done, b, hb, hk, hdone, l, hl, hcl, hins⟩ := hshape
      simp only at hf
      subst hj hk
      rw [updBlock_last m closed f done b _ hf hb]
      simp only [Option.map_some]
      refine ⟨top_functions L m _ htop, closed, _, rfl, rfl, hclosed, d, hd, hcd, hps, done, _, rfl, rfl, hdone, l, hl, hcl, ?_⟩
      intro x hx
      rcases List.mem_append.1 hx with hx | hx
      · exact hins x hx
      · simp only [List.mem_singleton] at hx; subst hx; rw [hi]; exact hin
    cases rid with
    | none =>
      cases sf with
      | none => exact push10 _ _ rfl
      | some j =>
        cases sb with
        | none => exact push10 _ _ rfl
        | some k =>
          have := inblk (nid + 1) j k ⟨op, some rt, some nid, ops⟩ rfl rfl rfl
          simp only [BState.step]
          split at this <;> rename_i hu <;> simp only [hu] <;> exact this
    | some v =>
      cases sf with
      | none => exact push10 _ _ rfl
      | some j =>
        cases sb with
        | none => exact push10 _ _ rfl
        | some k =>
          have := inblk nid j k ⟨op, some rt, some v, ops⟩ rfl rfl rfl
          simp only [BState.step]
          split at this <;> rename_i hu <;> simp only [hu] <;> exact this
  | lineLike op ops =>
    simp only [PlainAt] at hp
    have hin : inBlock L op = true := by unfold inBlock; rw [hp]
    have htd : topDest L op = some 10 := by unfold topDest; rw [hp]
    simp only [BState.step]
    cases hsb : s.selBlk with
    | none =>
      simp only [Option.isSome_none, Bool.false_eq_true, if_false]
      have hs := h.shape
      rw [hsb] at hs
      exact ⟨top_push L _ _ 10 h.top htd (by omega) (by omega), by simpa [C12.push_functions] using hs⟩
    | some k =>
      simp only [Option.isSome_some, if_true]
      have h2 := binv_insert L s .end_ ⟨op, none, none, ops⟩ h hin
      generalize hr : insertIntoBlock s .end_ ⟨op, none, none, ops⟩ = r at h2
      obtain ⟨s2, o⟩ := r
      cases o <;> exact h2
  | typeRequest op rid ops =>
    simp only [PlainAt] at hp
    simp only [BState.step]
    cases rid with
    | some v => exact ⟨top_push_sect L _ _ 10 h.top hp, by simpa [C12.push_functions] using h.shape⟩
    | none =>
      simp only
      split
      · exact h
      · exact ⟨top_push_sect L _ _ 10 h.top hp, by simpa [C12.push_functions] using h.shape⟩
  | beginBlockNoLabel _ => cases hp
  | insertTGV _ _ => cases hp
  | insertRaw _ _ => cases hp
  | selectFunction _ => cases hp
  | selectBlock _ => cases hp
  | selectByName _ => cases hp
  | popInstruction => cases hp

/-! ### histories -/

theorem run_binv (L : LTables) (B : BTables) (hso : StructOk L B) : ∀ (cs : List Call) (s : BState),
    BInv L s → PlainRun L B s cs → BInv L (BState.run B s cs).1
  | [], _, h, _ => h
  | c :: cs, s, h, hp => by
    simp only [BState.run]
    exact run_binv L B hso cs _ (step_binv L B hso s c h hp.1) hp.2

theorem binv_new (L : LTables) : BInv L BState.new := by
  refine ⟨⟨?_, ?_⟩, rfl, ?_⟩
  · intro k hk _ i hi
    have hk' : k = 0 ∨ k = 1 ∨ k = 2 ∨ k = 3 ∨ k = 4 ∨ k = 5 ∨ k = 6 ∨ k = 7 ∨ k = 8 ∨ k = 9 ∨ k = 10 := by omega
    rcases hk' with rfl | rfl | rfl | rfl | rfl | rfl | rfl | rfl | rfl | rfl | rfl <;> simp [BState.new, Module.sect] at hi
  · intro i hi; simp [BState.new] at hi
  · intro f hf; simp [BState.new] at hf

theorem finish_eq (B : BTables) (s : BState) : ∃ hd, s.finish B = { s.module with header := some hd } := by
  unfold BState.finish
  cases s.module.header with
  | none => exact ⟨_, rfl⟩
  | some h => exact ⟨_, rfl⟩

/-- **C06 (built modules are canonical).** After a complete plain history — no function left open — the module handed
out by `Builder::module()` is canonical. -/
theorem C06_canon (L : LTables) (B : BTables) (hso : StructOk L B) (cs : List Call) (hp : PlainRun L B BState.new cs)
    (hc : (BState.run B BState.new cs).1.selFn = none) : Canon L ((BState.run B BState.new cs).1.finish B) := by
  have h := run_binv L B hso cs _ (binv_new L) hp
  generalize (BState.run B BState.new cs).1 = s at h hc
  obtain ⟨hd, he⟩ := finish_eq B s
  rw [he]
  obtain ⟨htop, hshape⟩ := h
  rw [hc] at hshape
  have ht := top_header L s.module (some hd) htop
  exact ⟨ht.1, ht.2, hshape.2⟩

/-! ### the header of a built module -/

def VersionNormal (v : Nat) : Prop := v = (v / 65536 % 256) * 65536 + (v / 256 % 256) * 256

def HdrOk (B : BTables) : Option Header → Prop
  | none => True
  | some h => h.magic = B.magic ∧ h.generator = 0x000f0000 ∧ h.reserved = 0 ∧ VersionNormal h.version

theorem push_header (m : Module Inst) (k : Nat) (i : Inst) : (m.push k i).header = m.header := by
  unfold Module.push; split <;> rfl

theorem updBlock_header (m m' : Module Inst) (f b : Nat) (g : Block Inst → Option (Block Inst))
    (h : updBlock m f b g = some m') : m'.header = m.header := by
  unfold updBlock at h
  split at h
  · cases h
  · split at h
    · cases h
    · split at h
      · cases h
      · cases h; rfl

theorem insert_header (s : BState) (ip : InsertPoint) (i : Inst) :
    (insertIntoBlock s ip i).1.module.header = s.module.header := by
  unfold insertIntoBlock
  split
  · split
    · rename_i hu; exact updBlock_header _ _ _ _ _ hu
    · rfl
  · rfl

theorem allocId_header (s : BState) (r : IdRule) : (allocId s r).1.module.header = s.module.header := by
  obtain ⟨n, hn⟩ := allocId_eq s r
  rw [hn]

theorem step_hdr (L : LTables) (B : BTables) (hdef : VersionNormal B.defaultVersion) (s : BState) (c : Call)
    (hp : PlainAt L s c) (h : HdrOk B s.module.header) : HdrOk B (s.step B c).1.module.header := by
  have keep : ∀ s' : BState, s'.module.header = s.module.header → HdrOk B s'.module.header := by
    intro s' e; rw [e]; exact h
  cases c with
  | id => exact h
  | setVersion a b =>
    simp only [BState.step]
    cases hh : s.module.header with
    | none => exact ⟨rfl, rfl, rfl, by unfold VersionNormal; simp only; omega⟩
    | some x =>
      rw [hh] at h
      exact ⟨h.1, h.2.1, h.2.2.1, by unfold VersionNormal; simp only; omega⟩
  | beginFunction rt fid control ftype =>
    apply keep
    simp only [BState.step]
    split
    · rfl
    · cases fid <;> rfl
  | endFunction =>
    apply keep
    simp only [BState.step]
    split
    · rfl
    · split <;> rfl
  | functionParameter rt =>
    apply keep
    simp only [BState.step]
    split
    · rfl
    · split <;> rfl
  | beginBlock label =>
    apply keep
    simp only [BState.step]
    split
    · rfl
    · split
      · rfl
      · cases label <;> simp only <;> split <;> rfl
  | blockInst ip op rtype rule ops =>
    apply keep
    simp only [BState.step]
    have := insert_header (allocId s rule).1 ip ⟨op, rtype, (allocId s rule).2, ops⟩
    rw [allocId_header] at this
    split <;> simp_all
  | terminator ip op ops =>
    apply keep
    simp only [BState.step]
    have := insert_header s ip ⟨op, none, none, ops⟩
    split
    · split <;> simp_all
    · rfl
  | moduleInst k op rtype rule ops =>
    apply keep
    simp only [BState.step, push_header, allocId_header]
  | varUndef op rt rid ops =>
    apply keep
    simp only [BState.step]
    cases rid <;> simp only <;> split
    · split
      · rename_i hu; exact updBlock_header _ _ _ _ _ hu
      · rfl
    · exact push_header _ _ _
    · split
      · rename_i hu; exact updBlock_header _ _ _ _ _ hu
      · rfl
    · exact push_header _ _ _
  | lineLike op ops =>
    apply keep
    simp only [BState.step]
    have := insert_header s .end_ ⟨op, none, none, ops⟩
    split
    · split <;> simp_all
    · exact push_header _ _ _
  | typeRequest op rid ops =>
    apply keep
    simp only [BState.step]
    cases rid with
    | some v => exact push_header _ _ _
    | none =>
      simp only
      split
      · rfl
      · exact push_header _ _ _
  | beginBlockNoLabel _ => cases hp
  | insertTGV _ _ => cases hp
  | insertRaw _ _ => cases hp
  | selectFunction _ => cases hp
  | selectBlock _ => cases hp
  | selectByName _ => cases hp
  | popInstruction => cases hp

theorem run_hdr (L : LTables) (B : BTables) (hdef : VersionNormal B.defaultVersion) : ∀ (cs : List Call) (s : BState),
    HdrOk B s.module.header → PlainRun L B s cs → HdrOk B (BState.run B s cs).1.module.header
  | [], _, h, _ => h
  | c :: cs, s, h, hp => by
    simp only [BState.run]
    exact run_hdr L B hdef cs _ (step_hdr L B hdef s c hp.1 h) hp.2

theorem finish_hdr (B : BTables) (hdef : VersionNormal B.defaultVersion) (s : BState) (h : HdrOk B s.module.header) :
    ∃ hd, (s.finish B).header = some hd ∧ hd.magic = B.magic ∧ hd.generator = 0x000f0000 ∧ hd.reserved = 0 ∧
      VersionNormal hd.version ∧ hd.bound = s.nextId := by
  unfold BState.finish
  cases hh : s.module.header with
  | none => exact ⟨_, rfl, rfl, rfl, rfl, hdef, rfl⟩
  | some x =>
    rw [hh] at h
    exact ⟨_, rfl, h.1, h.2.1, h.2.2.1, h.2.2.2, rfl⟩

/-! ### the executable forms of the hypotheses (what the driver reports per history) -/

theorem plainAtB_sound (L : LTables) (s : BState) (c : Call) (h : plainAtB L s c = true) : PlainAt L s c := by
  cases c <;> simp only [plainAtB, Bool.and_eq_true, Bool.or_eq_true, decide_eq_true_eq, Option.isNone_iff_eq_none] at h <;>
    first | exact h | trivial | cases h

theorem plainRunB_sound (L : LTables) (B : BTables) : ∀ (cs : List Call) (s : BState), plainRunB L B s cs = true →
    PlainRun L B s cs
  | [], _, _ => trivial
  | c :: cs, s, h => by
    simp only [plainRunB, Bool.and_eq_true] at h
    exact ⟨plainAtB_sound L s c h.1, plainRunB_sound L B cs _ h.2⟩

end Rspirv.Props.C06Round
