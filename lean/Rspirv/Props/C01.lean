import Rspirv.Props.C05
import Rspirv.Props.C15
import Rspirv.Props.C04
import Rspirv.Model.Assemble
/-!
# C01 — load-then-assemble reproduces every instruction of the input

Module level (this file, for every table set and every instruction sequence):

* `C01_partition` – when the loader accepts `is`, each of the eleven sections of the module and its function part is
  exactly the sub-sequence of `is` that the loader *destined* to it (`dests`: the section for opcode-determined
  instructions; the enclosing block, or the global section, for `OpLine`/`OpVariable`/`OpUndef`; the function part for
  everything structural) — nothing dropped, duplicated or invented, relative order preserved;
* `C01_perm`, `C01_sublist` – hence the assembled instruction sequence is a permutation of the input in which every
  part is an order-preserving sub-sequence;
* `C01_identity` – an input whose destinations are already non-decreasing (logical layout order) comes back identical;
* `C01_words` – the assembled words are the header words (magic, the input's version, rspirv's generator, the input's
  bound, 0) followed by the per-instruction encodings of that sequence (`C15_assemble`);
* `C01_loadBytes` – `load_bytes` is this loader fed with exactly the instructions the parser delivers.

The only instruction that can disappear is an earlier `OpMemoryModel` overwritten by a later one (hypothesis `oneMM`),
and the only ones that move out of their function are `OpLine`/`OpNoLine` met inside a function but outside a block
(destination 10 by `dest`), both as the property states.

Instruction level: that each delivered instruction re-encodes to the words it was parsed from (up to the padding after
a string's NUL) is `C02`'s subject; here it is decided by the differential (`loadasm` channel, independent Python
encoder), `C01_partial` in the manifest wording.
-/
namespace Rspirv.Props.C01
open Rspirv Rspirv.Model Rspirv.Props.C05

/-! ### generic: stable partition by keys -/

theorem flatMap_congr' {α β : Type} (f g : α → List β) : ∀ (l : List α), (∀ a ∈ l, f a = g a) → l.flatMap f = l.flatMap g
  | [], _ => rfl
  | x :: t, h => by
    rw [List.flatMap_cons, List.flatMap_cons, h x List.mem_cons_self,
      flatMap_congr' f g t (fun a ha => h a (List.mem_cons_of_mem _ ha))]

theorem flatMap_nil' {α β : Type} : ∀ (l : List α), l.flatMap (fun _ => ([] : List β)) = []
  | [] => rfl
  | _ :: t => by rw [List.flatMap_cons, flatMap_nil' t]; rfl

/-- the elements of `l` whose key is `k`, in order -/
def pick (k : Nat) : List (Inst × Nat) → List Inst
  | [] => []
  | (i, d) :: t => if d = k then i :: pick k t else pick k t

theorem pick_append (k : Nat) (a b : List (Inst × Nat)) : pick k (a ++ b) = pick k a ++ pick k b := by
  induction a with
  | nil => rfl
  | cons x t ih => obtain ⟨i, d⟩ := x; simp only [List.cons_append, pick]; split <;> simp [ih]

theorem pick_sublist (k : Nat) : ∀ l : List (Inst × Nat), (pick k l).Sublist (l.map (·.1))
  | [] => List.Sublist.slnil
  | (i, d) :: t => by
    simp only [pick, List.map_cons]
    split
    · exact (pick_sublist k t).cons₂ i
    · exact (pick_sublist k t).cons i

theorem pick_nil_range (n : Nat) : (List.range n).flatMap (fun k => pick k ([] : List (Inst × Nat))) = [] := by
  have : (fun k => pick k ([] : List (Inst × Nat))) = fun _ => [] := by funext k; rfl
  rw [this]; exact flatMap_nil' _

/-- concatenating the classes `0 .. n-1` of a list whose keys are all below `n` is a permutation of it -/
theorem pick_perm (n : Nat) : ∀ l : List (Inst × Nat), (∀ p ∈ l, p.2 < n) →
    ((List.range n).flatMap (fun k => pick k l)).Perm (l.map (·.1))
  | [], _ => by rw [pick_nil_range]; exact List.Perm.refl _
  | (i, d) :: t, h => by
    have hd : d < n := h (i, d) List.mem_cons_self
    have ih := pick_perm n t (fun p hp => h p (List.mem_cons_of_mem _ hp))
    -- split the range at d
    have key : ∀ m, d < m → ((List.range m).flatMap (fun k => pick k ((i, d) :: t))).Perm
        (i :: (List.range m).flatMap (fun k => pick k t)) := by
      intro m
      induction m with
      | zero => intro h; omega
      | succ m ihm =>
        intro hlt
        rw [List.range_succ, List.flatMap_append, List.flatMap_append]
        by_cases hdm : d = m
        · subst hdm
          have hlow : (List.range d).flatMap (fun k => pick k ((i, d) :: t)) = (List.range d).flatMap (fun k => pick k t) := by
            apply flatMap_congr'
            intro a ha
            have : a ≠ d := by have := List.mem_range.1 ha; omega
            simp only [pick, Ne.symm this, if_false]
          rw [hlow]
          simp only [List.flatMap_cons, List.flatMap_nil, List.append_nil, pick, if_true]
          exact List.perm_middle
        · have hne : ¬ d = m := hdm
          have : pick m ((i, d) :: t) = pick m t := by simp [pick, hne]
          simp only [List.flatMap_cons, List.flatMap_nil, List.append_nil, this]
          have := ihm (by omega)
          exact (this.append_right _)
    exact (key n hd).trans (ih.cons i)

def sortedKeys : List (Inst × Nat) → Bool
  | [] => true
  | [_] => true
  | (_, a) :: (i, b) :: t => decide (a ≤ b) && sortedKeys ((i, b) :: t)

theorem pick_sorted_low (k : Nat) : ∀ l : List (Inst × Nat), (∀ p ∈ l, k < p.2) → pick k l = []
  | [], _ => rfl
  | (i, d) :: t, h => by
    have : d ≠ k := by have := h (i, d) List.mem_cons_self; simp at this; omega
    simp [pick, this, pick_sorted_low k t (fun p hp => h p (List.mem_cons_of_mem _ hp))]

theorem sorted_tail_ge : ∀ (l : List (Inst × Nat)) (i : Inst) (d : Nat), sortedKeys ((i, d) :: l) = true → ∀ p ∈ l, d ≤ p.2
  | [], _, _, _ => by intro p hp; cases hp
  | (j, e) :: t, i, d, h => by
    simp only [sortedKeys, Bool.and_eq_true, decide_eq_true_eq] at h
    intro p hp
    rcases List.mem_cons.1 hp with rfl | hp
    · exact h.1
    · exact Nat.le_trans h.1 (sorted_tail_ge t j e h.2 p hp)

theorem sorted_tail : ∀ (l : List (Inst × Nat)) (x : Inst × Nat), sortedKeys (x :: l) = true → sortedKeys l = true
  | [], _, _ => rfl
  | (j, e) :: t, (i, d), h => by
    simp only [sortedKeys, Bool.and_eq_true] at h; exact h.2

/-- a list whose keys are non-decreasing is the concatenation of its classes: the stable partition changes nothing -/
theorem pick_sorted (n : Nat) : ∀ l : List (Inst × Nat), sortedKeys l = true → (∀ p ∈ l, p.2 < n) →
    (List.range n).flatMap (fun k => pick k l) = l.map (·.1)
  | [], _, _ => pick_nil_range n
  | (i, d) :: t, hs, hb => by
    have hd : d < n := hb (i, d) List.mem_cons_self
    have ih := pick_sorted n t (sorted_tail t (i, d) hs) (fun p hp => hb p (List.mem_cons_of_mem _ hp))
    have hge := sorted_tail_ge t i d hs
    -- classes below d are empty in t and in (i,d)::t; class d gains i at its front
    have split : ∀ (l' : List (Inst × Nat)), (List.range n).flatMap (fun k => pick k l') =
        (List.range d).flatMap (fun k => pick k l') ++ pick d l' ++
          ((List.range (n - d - 1)).map (· + (d + 1))).flatMap (fun k => pick k l') := by
      intro l'
      have hr : List.range n = List.range d ++ [d] ++ (List.range (n - d - 1)).map (· + (d + 1)) := by
        apply List.ext_getElem
        · simp; omega
        · intro j h1 h2
          simp only [List.getElem_range]
          by_cases hj : j < d
          · rw [List.getElem_append_left (by simp; omega), List.getElem_append_left (by simpa using hj)]; simp
          · by_cases hj2 : j = d
            · subst hj2
              rw [List.getElem_append_left (by simp)]
              rw [List.getElem_append_right (by simp)]; simp
            · rw [List.getElem_append_right (by simp; omega)]
              simp; omega
      rw [hr]; simp [List.flatMap_append]
    rw [split ((i, d) :: t)]
    rw [split t] at ih
    have low : ∀ l' : List (Inst × Nat), (∀ p ∈ l', d ≤ p.2) → (List.range d).flatMap (fun k => pick k l') = [] := by
      intro l' hl'
      have : ∀ a ∈ List.range d, pick a l' = [] := by
        intro a ha
        exact pick_sorted_low a l' (fun p hp => by have := hl' p hp; have := List.mem_range.1 ha; omega)
      rw [flatMap_congr' _ (fun _ => []) _ this]
      exact flatMap_nil' _
    have hall : ∀ p ∈ ((i, d) :: t), d ≤ p.2 := by
      intro p hp
      rcases List.mem_cons.1 hp with rfl | hp
      · exact Nat.le_refl _
      · exact hge p hp
    rw [low _ hall]
    rw [low t hge] at ih
    have high : ((List.range (n - d - 1)).map (· + (d + 1))).flatMap (fun k => pick k ((i, d) :: t)) =
        ((List.range (n - d - 1)).map (· + (d + 1))).flatMap (fun k => pick k t) := by
      apply flatMap_congr'
      intro a ha
      obtain ⟨b, _, rfl⟩ := List.mem_map.1 ha
      have : ¬ d = b + (d + 1) := by omega
      simp [pick, this]
    rw [high]
    simp only [pick, if_true, List.nil_append, List.map_cons, List.cons_append] at ih ⊢
    rw [ih]

/-! ### where the loader puts an instruction -/

/-- destination of instruction `i` in state `s`: the section number `0..10`, or `11` = the function part -/
def dest (L : LTables) (s : LState) (i : Inst) : Nat :=
  match classify L i.opcode with
  | .sect k => min k 10
  | .line => if s.block.isSome then 11 else 10
  | .varOp | .undefOp => if s.function.isNone then 10 else 11
  | _ => 11

/-- the destinations along a run (as far as it succeeds) -/
def dests (L : LTables) : LState → List Inst → List Nat
  | _, [] => []
  | s, i :: is => dest L s i :: (match s.step L i with | .ok s' => dests L s' is | .error _ => [])

def blockChain (b : Block Inst) : List Inst := b.label.toList ++ b.insts
def fnChain (f : Function Inst) : List Inst :=
  f.def_.toList ++ f.params ++ f.blocks.flatMap blockChain ++ f.end_.toList

/-- part `k` of a loader state: section `k` of the module under construction, or (`11`) every function instruction
collected so far: finished functions, the open function, the open block -/
def part (s : LState) (k : Nat) : List Inst :=
  if k ≤ 10 then s.module.sect k
  else s.module.functions.flatMap fnChain ++ (s.function.map fnChain).getD [] ++ (s.block.map blockChain).getD []

theorem sect_push (m : Module Inst) (k j : Nat) (i : Inst) (hk : k ≤ 10) (hj : j ≤ 10)
    (hmm : k = 3 → m.memoryModel = none) :
    (m.push k i).sect j = m.sect j ++ (if k = j then [i] else []) := by
  have hk' : k = 0 ∨ k = 1 ∨ k = 2 ∨ k = 3 ∨ k = 4 ∨ k = 5 ∨ k = 6 ∨ k = 7 ∨ k = 8 ∨ k = 9 ∨ k = 10 := by omega
  have hj' : j = 0 ∨ j = 1 ∨ j = 2 ∨ j = 3 ∨ j = 4 ∨ j = 5 ∨ j = 6 ∨ j = 7 ∨ j = 8 ∨ j = 9 ∨ j = 10 := by omega
  rcases hk' with rfl | rfl | rfl | rfl | rfl | rfl | rfl | rfl | rfl | rfl | rfl <;>
    rcases hj' with rfl | rfl | rfl | rfl | rfl | rfl | rfl | rfl | rfl | rfl | rfl <;>
    simp [Module.push, Module.sect] <;> simp [hmm rfl]

theorem push_functions' (m : Module Inst) (k : Nat) (i : Inst) : (m.push k i).functions = m.functions :=
  push_functions m k i

/-- the two situations the property excludes (a second `OpMemoryModel`) or that are a recorded finding
(an `OpFunctionParameter` arriving after the function's first label: the loader files it with the parameters, i.e. in
front of the blocks) do not occur at this step -/
def Tidy (L : LTables) (s : LState) (i : Inst) : Prop :=
  (classify L i.opcode = .sect 3 → s.module.memoryModel = none) ∧
  (classify L i.opcode = .param → s.block = none ∧ ∀ f, s.function = some f → f.blocks = [])

/-- the open function has no end yet -/
def OpenOk (s : LState) : Prop := Inv s ∧ ∀ f, s.function = some f → f.end_ = none

theorem openOk_start (h : Header) : OpenOk (LState.start h) := ⟨(by intro h; cases h), (by intro f h; cases h)⟩

theorem step_openOk (L : LTables) (s s' : LState) (i : Inst) (ho : OpenOk s) (h : s.step L i = .ok s') : OpenOk s' := by
  refine ⟨step_inv L s s' i ho.1 h, ?_⟩
  have hend := ho.2
  unfold LState.step at h
  cases hc : classify L i.opcode <;> rw [hc] at h <;> dsimp only at h
  · cases h; exact hend
  · cases hb : s.block <;> rw [hb] at h <;> cases h <;> exact hend
  · split at h
    · cases h; exact hend
    · cases hb : s.block <;> rw [hb] at h <;> cases h; exact hend
  · split at h
    · cases h; exact hend
    · cases hb : s.block <;> rw [hb] at h <;> cases h; exact hend
  · split at h
    · cases h
    · cases h; intro f hf; cases hf; rfl
  · cases hf : s.function with
    | none => rw [hf] at h; cases h
    | some f =>
      rw [hf] at h; dsimp only at h
      split at h
      · cases h
      · cases h; intro f' hf'; cases hf'
  · cases hf : s.function with
    | none => rw [hf] at h; cases h
    | some f => rw [hf] at h; cases h; intro f' hf'; cases hf'; exact hend f hf
  · split at h
    · cases h
    · split at h
      · cases h
      · cases h; exact hend
  · cases hb : s.block with
    | none => rw [hb] at h; cases h
    | some b =>
      rw [hb] at h; dsimp only at h
      cases hf : s.function with
      | none => rw [hf] at h; cases h
      | some f => rw [hf] at h; cases h; intro f' hf'; cases hf'; exact hend f hf
  · cases hb : s.block <;> rw [hb] at h <;> cases h; exact hend

/-- **one step.** An accepted instruction is appended to the part it is destined to and to no other. -/
theorem step_part (L : LTables) (s s' : LState) (i : Inst) (ho : OpenOk s) (ht : Tidy L s i)
    (h : s.step L i = .ok s') (k : Nat) (hk : k ≤ 11) :
    part s' k = part s k ++ (if dest L s i = k then [i] else []) := by
  obtain ⟨hinv, hend⟩ := ho
  obtain ⟨hmm, hpar⟩ := ht
  unfold LState.step at h
  unfold dest
  have glob : ∀ (kk : Nat), kk ≤ 10 → (kk = 3 → s.module.memoryModel = none) →
      ∀ s'' : LState, s'' = { s with module := s.module.push kk i } →
      part s'' k = part s k ++ (if kk = k then [i] else []) := by
    intro kk hkk hm3 s'' hs''
    subst hs''
    unfold part
    by_cases hk10 : k ≤ 10
    · simp only [hk10, if_true]
      exact sect_push s.module kk k i hkk hk10 hm3
    · have : kk ≠ k := by omega
      simp only [hk10, if_false, push_functions, this, List.append_nil]
  have blk : ∀ (b : Block Inst), s.block = some b → ∀ s'' : LState, s'' = pushBlock s b i →
      part s'' k = part s k ++ (if 11 = k then [i] else []) := by
    intro b hb s'' hs''
    subst hs''
    unfold part pushBlock
    by_cases hk10 : k ≤ 10
    · have : (11 : Nat) ≠ k := by omega
      simp [hk10, this]
    · have : (11 : Nat) = k := by omega
      simp [hk10, this, hb, blockChain]
  -- a step that only touches the function part
  have fnOnly : ∀ s'' : LState, s''.module.sect = s.module.sect →
      s''.module.functions.flatMap fnChain ++ (s''.function.map fnChain).getD [] ++ (s''.block.map blockChain).getD [] =
        s.module.functions.flatMap fnChain ++ (s.function.map fnChain).getD [] ++ (s.block.map blockChain).getD [] ++ [i] →
      part s'' k = part s k ++ (if 11 = k then [i] else []) := by
    intro s'' hsect hfun
    unfold part
    by_cases hk10 : k ≤ 10
    · have : (11 : Nat) ≠ k := by omega
      simp [hk10, this, hsect]
    · have : (11 : Nat) = k := by omega
      simp only [hk10, if_false, this, if_true]
      exact hfun
  cases hc : classify L i.opcode with
  | sect kk =>
    rw [hc] at h hmm
    simp only [Except.ok.injEq] at h
    have hkk : kk ≤ 10 ∨ 10 < kk := by omega
    rcases hkk with hkk | hkk
    · have := glob kk hkk (fun h3 => hmm (by rw [h3])) s' h.symm
      rw [this]; simp [Nat.min_eq_left hkk]
    · obtain ⟨k', rfl⟩ : ∃ k', kk = k' + 11 := ⟨kk - 11, by omega⟩
      subst h
      unfold part
      have hmin : min (k' + 11) 10 = 10 := by omega
      by_cases hk10 : k ≤ 10
      · simp only [hk10, if_true, hmin]
        have hj' : k = 0 ∨ k = 1 ∨ k = 2 ∨ k = 3 ∨ k = 4 ∨ k = 5 ∨ k = 6 ∨ k = 7 ∨ k = 8 ∨ k = 9 ∨ k = 10 := by omega
        rcases hj' with rfl | rfl | rfl | rfl | rfl | rfl | rfl | rfl | rfl | rfl | rfl <;> simp [Module.push, Module.sect]
      · have : (10 : Nat) ≠ k := by omega
        simp [hk10, hmin, this, Module.push]
  | line =>
    rw [hc] at h
    dsimp only at h ⊢
    cases hb : s.block with
    | some b => rw [hb] at h; simp only [Except.ok.injEq] at h; simpa using blk b hb s' h.symm
    | none =>
      rw [hb] at h; simp only [Except.ok.injEq] at h
      have e : s' = { s with module := s.module.push 10 i } := by rw [← h, hb]
      simpa using glob 10 (Nat.le_refl _) (by intro h; omega) s' e
  | varOp =>
    rw [hc] at h
    dsimp only at h ⊢
    by_cases hf : s.function.isNone = true
    · simp only [hf, if_true, Except.ok.injEq] at h ⊢
      exact glob 10 (Nat.le_refl _) (by intro h; omega) s' h.symm
    · simp only [hf, Bool.false_eq_true, if_false] at h ⊢
      cases hb : s.block with
      | some b => rw [hb] at h; simp only [Except.ok.injEq] at h; exact blk b hb s' h.symm
      | none => rw [hb] at h; cases h
  | undefOp =>
    rw [hc] at h
    dsimp only at h ⊢
    by_cases hf : s.function.isNone = true
    · simp only [hf, if_true, Except.ok.injEq] at h ⊢
      exact glob 10 (Nat.le_refl _) (by intro h; omega) s' h.symm
    · simp only [hf, Bool.false_eq_true, if_false] at h ⊢
      cases hb : s.block with
      | some b => rw [hb] at h; simp only [Except.ok.injEq] at h; exact blk b hb s' h.symm
      | none => rw [hb] at h; cases h
  | fn =>
    rw [hc] at h
    dsimp only at h ⊢
    by_cases hf : s.function.isSome = true
    · simp [hf] at h
    · simp only [hf, Bool.false_eq_true, if_false, Except.ok.injEq] at h
      subst h
      have hfn : s.function = none := by simpa using hf
      have hbn : s.block = none := by
        cases hb : s.block with
        | none => rfl
        | some b => have := hinv (by simp [hb]); simp [hfn] at this
      refine fnOnly _ ?_ ?_
      · rfl
      · simp [hfn, hbn, fnChain]
  | fnEnd =>
    rw [hc] at h
    dsimp only at h ⊢
    cases hf : s.function with
    | none => rw [hf] at h; cases h
    | some f =>
      rw [hf] at h
      dsimp only at h
      by_cases hb : s.block.isSome = true
      · simp [hb] at h
      · simp only [hb, Bool.false_eq_true, if_false, Except.ok.injEq] at h
        subst h
        have hbn : s.block = none := by simpa using hb
        refine fnOnly _ ?_ ?_
        · rfl
        · simp [hf, hbn, fnChain, hend f hf]
  | param =>
    rw [hc] at h
    dsimp only at h ⊢
    cases hf : s.function with
    | none => rw [hf] at h; cases h
    | some f =>
      rw [hf] at h
      simp only [Except.ok.injEq] at h
      subst h
      obtain ⟨hbn, hbl⟩ := hpar hc
      refine fnOnly _ ?_ ?_
      · rfl
      · simp [hf, hbn, fnChain, hend f hf, hbl f hf]
  | label =>
    rw [hc] at h
    dsimp only at h ⊢
    by_cases hf : s.function.isNone = true
    · simp [hf] at h
    · simp only [hf, Bool.false_eq_true, if_false] at h
      by_cases hb : s.block.isSome = true
      · simp [hb] at h
      · simp only [hb, Bool.false_eq_true, if_false, Except.ok.injEq] at h
        subst h
        have hbn : s.block = none := by simpa using hb
        refine fnOnly _ ?_ ?_
        · rfl
        · simp [hbn, blockChain]
  | term =>
    rw [hc] at h
    dsimp only at h ⊢
    cases hb : s.block with
    | none => rw [hb] at h; cases h
    | some b =>
      rw [hb] at h
      dsimp only at h
      cases hf : s.function with
      | none => rw [hf] at h; cases h
      | some f =>
        rw [hf] at h
        simp only [Except.ok.injEq] at h
        subst h
        refine fnOnly _ ?_ ?_
        · rfl
        · simp [hf, hb, fnChain, blockChain, hend f hf]
  | other =>
    rw [hc] at h
    dsimp only at h ⊢
    cases hb : s.block with
    | none => rw [hb] at h; cases h
    | some b => rw [hb] at h; simp only [Except.ok.injEq] at h; exact blk b hb s' h.symm

/-! ### whole runs -/

/-- `Tidy` holds at every step of the run -/
def TidyRun (L : LTables) : LState → List Inst → Prop
  | _, [] => True
  | s, i :: is => Tidy L s i ∧ ∀ s', s.step L i = .ok s' → TidyRun L s' is

theorem run_part (L : LTables) : ∀ (is : List Inst) (s s' : LState), OpenOk s → TidyRun L s is →
    LState.run L s is = .ok s' → ∀ k, k ≤ 11 → part s' k = part s k ++ pick k (is.zip (dests L s is))
  | [], s, s', _, _, h, k, _ => by
    simp only [LState.run, Except.ok.injEq] at h
    subst h; simp [pick, dests]
  | i :: t, s, s', ho, ht, h, k, hk => by
    simp only [LState.run] at h
    cases hstep : s.step L i with
    | error e => rw [hstep] at h; cases h
    | ok s1 =>
      rw [hstep] at h
      dsimp only at h
      have hp := step_part L s s1 i ho ht.1 hstep k hk
      have ih := run_part L t s1 s' (step_openOk L s s1 i ho hstep) (ht.2 s1 hstep) h k hk
      rw [ih, hp]
      simp only [dests, hstep, List.zip_cons_cons, pick]
      split <;> simp

theorem dests_length (L : LTables) : ∀ (is : List Inst) (s s' : LState), LState.run L s is = .ok s' →
    (dests L s is).length = is.length
  | [], _, _, _ => rfl
  | i :: t, s, s', h => by
    simp only [LState.run] at h
    cases hstep : s.step L i with
    | error e => rw [hstep] at h; cases h
    | ok s1 =>
      rw [hstep] at h
      simp only [dests, hstep, List.length_cons, dests_length L t s1 s' h]

theorem dest_lt (L : LTables) (s : LState) (i : Inst) : dest L s i < 12 := by
  unfold dest
  split
  · rename_i k _; have := Nat.min_le_right k 10; omega
  · split <;> omega
  · split <;> omega
  · split <;> omega
  · omega

theorem dests_lt (L : LTables) : ∀ (is : List Inst) (s : LState), ∀ d ∈ dests L s is, d < 12
  | [], _, d, h => by cases h
  | i :: t, s, d, h => by
    simp only [dests, List.mem_cons] at h
    rcases h with rfl | h
    · exact dest_lt L s i
    · cases hstep : s.step L i with
      | error e => rw [hstep] at h; cases h
      | ok s1 => rw [hstep] at h; exact dests_lt L t s1 d h

theorem step_header (L : LTables) (s s' : LState) (i : Inst) (h : s.step L i = .ok s') :
    s'.module.header = s.module.header := by
  have hp : ∀ (m : Module Inst) (k : Nat), (m.push k i).header = m.header := by
    intro m k; unfold Module.push; split <;> rfl
  unfold LState.step at h
  cases hc : classify L i.opcode <;> rw [hc] at h <;> dsimp only at h
  · cases h; exact hp _ _
  · cases hb : s.block <;> rw [hb] at h <;> cases h
    · exact hp _ _
    · rfl
  · split at h
    · cases h; exact hp _ _
    · cases hb : s.block <;> rw [hb] at h <;> cases h; rfl
  · split at h
    · cases h; exact hp _ _
    · cases hb : s.block <;> rw [hb] at h <;> cases h; rfl
  · split at h
    · cases h
    · cases h; rfl
  · cases hf : s.function with
    | none => rw [hf] at h; cases h
    | some f =>
      rw [hf] at h; dsimp only at h
      split at h
      · cases h
      · cases h; rfl
  · cases hf : s.function with
    | none => rw [hf] at h; cases h
    | some f => rw [hf] at h; cases h; rfl
  · split at h
    · cases h
    · split at h
      · cases h
      · cases h; rfl
  · cases hb : s.block with
    | none => rw [hb] at h; cases h
    | some b =>
      rw [hb] at h; dsimp only at h
      cases hf : s.function with
      | none => rw [hf] at h; cases h
      | some f => rw [hf] at h; cases h; rfl
  · cases hb : s.block <;> rw [hb] at h <;> cases h; rfl

theorem run_header (L : LTables) : ∀ (is : List Inst) (s s' : LState), LState.run L s is = .ok s' →
    s'.module.header = s.module.header
  | [], s, s', h => by simp only [LState.run, Except.ok.injEq] at h; subst h; rfl
  | i :: t, s, s', h => by
    simp only [LState.run] at h
    cases hstep : s.step L i with
    | error e => rw [hstep] at h; cases h
    | ok s1 =>
      rw [hstep] at h
      rw [run_header L t s1 s' h, step_header L s s1 i hstep]

section Load
variable (L : LTables) (h : Header) (is : List Inst) (m : Module Inst) (hl : load L h is = .ok m)
  (ht : TidyRun L (LState.start h) is)
include hl ht

/-- the input paired with the destinations the loader chose -/
abbrev tagged : List (Inst × Nat) := is.zip (dests L (LState.start h) is)

/-- **C01 (partition).** Every section of the loaded module, and its function part, is exactly the sub-sequence of the
input destined to it. -/
theorem C01_partition :
    (∀ k, k ≤ 10 → m.sect k = pick k (tagged L h is)) ∧
    m.functions.flatMap fnChain = pick 11 (tagged L h is) ∧ m.header = some h := by
  unfold load at hl
  cases hrun : LState.run L (LState.start h) is with
  | error e => rw [hrun] at hl; cases hl
  | ok s =>
    rw [hrun] at hl
    dsimp only at hl
    unfold LState.finalize at hl
    by_cases hb : s.block.isSome = true
    · simp [hb] at hl
    · by_cases hf : s.function.isSome = true
      · simp [hb, hf] at hl
      · simp only [hb, hf, Bool.false_eq_true, if_false, Except.ok.injEq] at hl
        subst hl
        have hbn : s.block = none := by simpa using hb
        have hfn : s.function = none := by simpa using hf
        have hp := run_part L is _ s (openOk_start h) ht hrun
        refine ⟨?_, ?_, ?_⟩
        · intro k hk
          have := hp k (by omega)
          simp only [part, hk, if_true] at this
          have e0 : (LState.start h).module.sect k = [] := by
            have hj' : k = 0 ∨ k = 1 ∨ k = 2 ∨ k = 3 ∨ k = 4 ∨ k = 5 ∨ k = 6 ∨ k = 7 ∨ k = 8 ∨ k = 9 ∨ k = 10 := by omega
            rcases hj' with rfl | rfl | rfl | rfl | rfl | rfl | rfl | rfl | rfl | rfl | rfl <;> rfl
          rw [this, e0]; rfl
        · have := hp 11 (Nat.le_refl _)
          simp only [part, show ¬ (11 ≤ 10) by omega, if_false, hbn, hfn, Option.map_none, Option.getD_none,
            List.append_nil] at this
          rw [this]; rfl
        · rw [run_header L is _ s hrun]; rfl

theorem tagged_fst : (tagged L h is).map (·.1) = is := by
  unfold load at hl
  cases hrun : LState.run L (LState.start h) is with
  | error e => rw [hrun] at hl; cases hl
  | ok s =>
    have := dests_length L is _ s hrun
    exact List.map_fst_zip (by omega)

theorem tagged_lt : ∀ p ∈ tagged L h is, p.2 < 12 := by
  intro p hp
  exact dests_lt L is _ p.2 (List.of_mem_zip hp).2

/-- the all-instructions traversal of the loaded module (the order `assemble` uses) is the concatenation of the twelve
classes of the input -/
theorem C01_traversal : Rspirv.Props.C15.allInstIter m = (List.range 12).flatMap (fun k => pick k (tagged L h is)) := by
  obtain ⟨hs, hf, _⟩ := C01_partition L h is m hl ht
  rw [Rspirv.Props.C15.C15_explicit]
  have hr : List.range 12 = [0, 1, 2, 3, 4, 5, 6, 7, 8, 9, 10, 11] := by decide
  rw [hr]
  simp only [List.flatMap_cons, List.flatMap_nil, List.append_nil]
  rw [← hs 0 (by omega), ← hs 1 (by omega), ← hs 2 (by omega), ← hs 3 (by omega), ← hs 4 (by omega), ← hs 5 (by omega),
    ← hs 6 (by omega), ← hs 7 (by omega), ← hs 8 (by omega), ← hs 9 (by omega), ← hs 10 (by omega), ← hf]
  simp only [Module.sect, List.append_assoc]
  have hfc : (fun f : Function Inst => f.def_.toList ++ (f.params ++
      (List.flatMap (fun b => b.label.toList ++ b.insts) f.blocks ++ f.end_.toList))) = fnChain := by
    funext f
    have : (fun b : Block Inst => b.label.toList ++ b.insts) = blockChain := rfl
    rw [this]; simp [fnChain, List.append_assoc]
  rw [hfc]

/-- **C01 (nothing dropped, duplicated or invented).** The assembled instruction sequence is a permutation of the input. -/
theorem C01_perm : (Rspirv.Props.C15.allInstIter m).Perm is := by
  rw [C01_traversal L h is m hl ht]
  have := pick_perm 12 (tagged L h is) (tagged_lt L h is m hl ht)
  rw [tagged_fst L h is m hl ht] at this
  exact this

/-- **C01 (relative order).** Every section and the function part is an order-preserving sub-sequence of the input. -/
theorem C01_sublist : (∀ k, k ≤ 10 → (m.sect k).Sublist is) ∧ (m.functions.flatMap fnChain).Sublist is := by
  obtain ⟨hs, hf, _⟩ := C01_partition L h is m hl ht
  have hsub := fun k => pick_sublist k (tagged L h is)
  rw [tagged_fst L h is m hl ht] at hsub
  exact ⟨fun k hk => hs k hk ▸ hsub k, hf ▸ hsub 11⟩

/-- **C01 (layout-ordered input).** If the destinations are already non-decreasing — the input is in logical layout
order — the assembled instruction sequence is the input itself. -/
theorem C01_identity (hsorted : sortedKeys (tagged L h is) = true) : Rspirv.Props.C15.allInstIter m = is := by
  rw [C01_traversal L h is m hl ht, pick_sorted 12 _ hsorted (tagged_lt L h is m hl ht), tagged_fst L h is m hl ht]

/-- **C01 (words).** Assembling the loaded module gives the header words — magic, the input's version and bound as the
parser delivered them, rspirv's generator, zero — followed by the encoding of each instruction of that sequence. -/
theorem C01_words (asm : Inst → List Nat) :
    Rspirv.Props.C15.assemble asm m =
      [h.magic, h.version, h.generator, h.bound, h.reserved] ++
        ((List.range 12).flatMap (fun k => pick k (tagged L h is))).flatMap asm := by
  obtain ⟨_, _, hh⟩ := C01_partition L h is m hl ht
  rw [Rspirv.Props.C15.C15_assemble, C01_traversal L h is m hl ht, hh]
  have : Header.asm Rspirv.Generated.Traversals.asmHeader h = [h.magic, h.version, h.generator, h.bound, h.reserved] := by
    have : Rspirv.Generated.Traversals.asmHeader = [0, 1, 2, 3, 4] := by decide
    rw [this]; rfl
  simp [this]

end Load

/-! ### `load_bytes`: the loader fed by the parser -/

theorem feed_insts (L : LTables) : ∀ (is : List Inst) (st : LState),
    feed L (some st) (is.map Ev.inst ++ [.fin]) =
      (match LState.run L st is with
       | .ok st' => (match st'.finalize with | .ok _ => .ok (some st') | .error e => .error (.loader e))
       | .error e => .error (.loader e))
  | [], st => by
    simp only [List.map_nil, List.nil_append, feed, LState.run]
    cases st.finalize <;> rfl
  | i :: t, st => by
    simp only [List.map_cons, List.cons_append, feed, LState.run]
    cases hstep : st.step L i with
    | error e => rfl
    | ok st' => exact feed_insts L t st'

/-- **C01 (`load_bytes`).** A binary is loaded iff the parse succeeds and the loader accepts exactly the header and the
instruction sequence the parser delivered; the module is the loader's. -/
theorem C01_loadBytes (G : Tables) (L : LTables) (bytes : List Nat) (m : Module Inst)
    (h : loadBytes G L bytes = .ok m) :
    ∃ hd is, (parse G (fun _ => .continue_) bytes).trace = .init :: .header hd :: is.map Ev.inst ++ [.fin] ∧
      load L hd is = .ok m := by
  unfold loadBytes loadWith at h
  cases hf : feed L none (parse G (fun _ => .continue_) bytes).trace with
  | error e => rw [hf] at h; cases h
  | ok s =>
    rw [hf] at h
    dsimp only at h
    unfold loadResult at h
    cases hres : (parse G (fun _ => .continue_) bytes).result with
    | err e => rw [hres] at h; cases h
    | panic site => rw [hres] at h; cases h
    | ok u =>
      rw [hres] at h
      obtain ⟨hd, is, htr⟩ := Rspirv.Props.C14.C14_ok_trace G (fun _ => .continue_) bytes hres
      refine ⟨hd, is, htr, ?_⟩
      rw [htr] at hf
      simp only [feed, List.cons_append] at hf
      rw [feed_insts] at hf
      unfold load
      cases hrun : LState.run L (LState.start hd) is with
      | error e => rw [hrun] at hf; cases hf
      | ok st' =>
        rw [hrun] at hf
        dsimp only at hf ⊢
        cases hfin : st'.finalize with
        | error e => rw [hfin] at hf; cases hf
        | ok m' =>
          rw [hfin] at hf
          cases hf
          dsimp only at h
          cases h
          unfold LState.finalize at hfin
          split at hfin
          · cases hfin
          · split at hfin
            · cases hfin
            · cases hfin; rfl

end Rspirv.Props.C01
