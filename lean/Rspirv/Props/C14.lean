import Rspirv.Model.Parser
/-!
# C14 — the parser drives the consumer in protocol order and obeys its actions

Statements about `Rspirv.Model.parse` for every table set, every byte string and every consumer behaviour
(`script k` = the consumer's answer to its `k`-th callback).
-/
namespace Rspirv.Props.C14
open Rspirv Rspirv.Model

/-- the event sequence has the protocol shape: `initialize`, then (if any) `header`, instructions, and at most one
final `finalize` -/
inductive Shape : List Ev → Prop where
  | init : Shape [.init]
  | insts (h : Header) (is : List Inst) : Shape (.init :: .header h :: is.map Ev.inst)
  | fin (h : Header) (is : List Inst) : Shape (.init :: .header h :: is.map Ev.inst ++ [.fin])

def isConsumerErr : PErr → Bool
  | .consumerStop => true
  | .consumerError _ => true
  | _ => false

/-- what the parse result must be when callback `k` is the last one made -/
def Obeys (script : Nat → Action) (r : Run) : Prop :=
  let n := r.trace.length
  (∀ j, j + 1 < n → script j = .continue_) ∧
  (∀ e, r.result = .err e → isConsumerErr e = true → n ≥ 1 ∧ consume (script (n - 1)) (n - 1) = some e) ∧
  (script (n - 1) ≠ .continue_ → n ≥ 1 → ∃ e, r.result = .err e ∧ consume (script (n - 1)) (n - 1) = some e) ∧
  (Ev.fin ∈ r.trace → r.result = .ok () ∨ ∃ e, r.result = .err e ∧ isConsumerErr e = true) ∧
  (r.result = .ok () → Ev.fin ∈ r.trace)

theorem consume_none (a : Action) (k : Nat) : consume a k = none ↔ a = .continue_ := by
  cases a <;> simp [consume]

theorem consume_some_isConsumer (a : Action) (k : Nat) (e : PErr) (h : consume a k = some e) : isConsumerErr e = true := by
  cases a <;> simp [consume] at h <;> subst h <;> rfl

structure Good (script : Nat → Action) (r : Run) : Prop where
  shape : Shape r.trace
  obeys : Obeys script r

/-- the statement proved for every run: protocol shape and obedience, unless the model reports a panic
(C04 shows separately that it never does) -/
def Spec (script : Nat → Action) (r : Run) : Prop := (∃ s, r.result = .panic s) ∨ Good script r

theorem good_consumer (script : Nat → Action) (tr : List Ev) (n : Nat) (e : PErr) (hs : Shape tr)
    (hl : tr.length = n + 1) (hall : ∀ j, j < n → script j = .continue_) (hc : consume (script n) n = some e) :
    Good script ⟨.err e, tr⟩ := by
  refine ⟨hs, ?_, ?_, ?_, ?_, ?_⟩
  · intro j hj; simp only [hl] at hj; exact hall j (by omega)
  · intro e' he' _; cases he'; simp only [hl]; exact ⟨by omega, by simpa using hc⟩
  · intro _ _; simp only [hl]; exact ⟨e, rfl, by simpa using hc⟩
  · intro _; exact Or.inr ⟨e, rfl, consume_some_isConsumer _ _ _ hc⟩
  · intro hr; cases hr

theorem good_parse_err (script : Nat → Action) (tr : List Ev) (n : Nat) (e : PErr) (hs : Shape tr)
    (hl : tr.length = n + 1) (hall : ∀ j, j < n + 1 → script j = .continue_) (hf : Ev.fin ∉ tr)
    (he : isConsumerErr e = false) : Good script ⟨.err e, tr⟩ := by
  refine ⟨hs, ?_, ?_, ?_, ?_, ?_⟩
  · intro j hj; simp only [hl] at hj; exact hall j (by omega)
  · intro e' he' hce; cases he'; rw [he] at hce; cases hce
  · intro hne _; simp only [hl] at hne; exact absurd (hall n (by omega)) (by simpa using hne)
  · intro hfin; exact absurd hfin hf
  · intro hr; cases hr

theorem good_ok (script : Nat → Action) (tr : List Ev) (n : Nat) (hs : Shape tr)
    (hl : tr.length = n + 1) (hall : ∀ j, j < n + 1 → script j = .continue_) (hf : Ev.fin ∈ tr) :
    Good script ⟨.ok (), tr⟩ := by
  refine ⟨hs, ?_, ?_, ?_, ?_, ?_⟩
  · intro j hj; simp only [hl] at hj; exact hall j (by omega)
  · intro e' he'; cases he'
  · intro hne _; simp only [hl] at hne; exact absurd (hall n (by omega)) (by simpa using hne)
  · intro _; exact Or.inl rfl
  · intro _; exact hf

/-- invariant of the instruction loop: the reversed trace so far is `init`, `header h` and the instruction events
of `is`; every callback made so far was answered `continue` -/
theorem loop_spec (G : Tables) (script : Nat → Action) (h : Header) :
    ∀ (fuel : Nat) (τ : Tracker) (idx : Nat) (d : DState) (is : List Inst),
      (∀ j, j < is.length + 2 → script j = .continue_) →
      Spec script (parseLoop G script fuel τ (is.length + 2) idx d ((is.map Ev.inst).reverse ++ [.header h, .init]))
  | 0, τ, idx, d, is, _ => Or.inl ⟨_, rfl⟩
  | fuel + 1, τ, idx, d, is, hall => by
    have trace_now : ((is.map Ev.inst).reverse ++ [Ev.header h, Ev.init]).reverse = .init :: .header h :: is.map Ev.inst := by
      simp
    have len_now : (Ev.init :: Ev.header h :: is.map Ev.inst).length = (is.length + 1) + 1 := by simp
    have nofin : Ev.fin ∉ (Ev.init :: Ev.header h :: is.map Ev.inst) := by simp
    unfold parseLoop
    cases hp : parseInst G τ (idx + 1) d with
    | mk res d1 =>
      cases res with
      | panic s => exact Or.inl ⟨s, rfl⟩
      | ok i =>
        simp only
        cases ht : τ.track G.tt i with
        | none => exact Or.inl ⟨_, rfl⟩
        | some τ1 =>
          simp only
          have tr1 : (Ev.inst i :: ((is.map Ev.inst).reverse ++ [Ev.header h, Ev.init])).reverse
              = .init :: .header h :: (is ++ [i]).map Ev.inst := by simp
          cases hc : consume (script (is.length + 2)) (is.length + 2) with
          | some e =>
            simp only; rw [tr1]
            exact Or.inr (good_consumer script _ (is.length + 2) e (Shape.insts h (is ++ [i])) (by simp) hall hc)
          | none =>
            simp only
            have hall' : ∀ j, j < (is ++ [i]).length + 2 → script j = .continue_ := by
              intro j hj
              simp only [List.length_append, List.length_singleton] at hj
              by_cases hlt : j < is.length + 2
              · exact hall j hlt
              · have : j = is.length + 2 := by omega
                subst this; exact (consume_none _ _).1 hc
            have ih := loop_spec G script h fuel τ1 (idx + 1) d1 (is ++ [i]) hall'
            have e1 : (is ++ [i]).length + 2 = is.length + 2 + 1 := by simp
            have e2 : ((is ++ [i]).map Ev.inst).reverse ++ [Ev.header h, Ev.init]
                = Ev.inst i :: ((is.map Ev.inst).reverse ++ [Ev.header h, Ev.init]) := by simp
            rw [e1, e2] at ih
            exact ih
      | err e =>
        have hall1 : ∀ j, j < is.length + 1 + 1 → script j = .continue_ := fun j hj => hall j (by omega)
        cases e with
        | complete =>
          simp only
          have tr1 : (Ev.fin :: ((is.map Ev.inst).reverse ++ [Ev.header h, Ev.init])).reverse
              = .init :: .header h :: is.map Ev.inst ++ [.fin] := by simp
          cases hc : consume (script (is.length + 2)) (is.length + 2) with
          | some e =>
            simp only; rw [tr1]
            exact Or.inr (good_consumer script _ (is.length + 2) e (Shape.fin h is) (by simp) hall hc)
          | none =>
            simp only; rw [tr1]
            refine Or.inr (good_ok script _ (is.length + 2) (Shape.fin h is) (by simp) ?_ (by simp))
            intro j hj
            by_cases hlt : j < is.length + 2
            · exact hall j hlt
            · have : j = is.length + 2 := by omega
              subst this; exact (consume_none _ _).1 hc
        | wordCountZero a b => simp only; rw [trace_now]; exact Or.inr (good_parse_err script _ _ _ (Shape.insts h is) len_now hall1 nofin rfl)
        | opcodeUnknown a b c => simp only; rw [trace_now]; exact Or.inr (good_parse_err script _ _ _ (Shape.insts h is) len_now hall1 nofin rfl)
        | operandExpected a b => simp only; rw [trace_now]; exact Or.inr (good_parse_err script _ _ _ (Shape.insts h is) len_now hall1 nofin rfl)
        | operandExceeded a b => simp only; rw [trace_now]; exact Or.inr (good_parse_err script _ _ _ (Shape.insts h is) len_now hall1 nofin rfl)
        | operandError x => simp only; rw [trace_now]; exact Or.inr (good_parse_err script _ _ _ (Shape.insts h is) len_now hall1 nofin rfl)
        | typeUnsupported a b => simp only; rw [trace_now]; exact Or.inr (good_parse_err script _ _ _ (Shape.insts h is) len_now hall1 nofin rfl)
        | specConstantOpIntegerIncorrect a b => simp only; rw [trace_now]; exact Or.inr (good_parse_err script _ _ _ (Shape.insts h is) len_now hall1 nofin rfl)

theorem parseHeader_not_consumer (G : Tables) (d : DState) (e : PErr) (d1 : DState)
    (h : parseHeader G d = (.err e, d1)) : isConsumerErr e = false := by
  unfold parseHeader at h
  cases hw : DState.words 5 d with
  | mk r d' =>
    rw [hw] at h
    cases r with
    | ok ws =>
      simp only at h
      by_cases hm : (ws.getD 0 0 != G.magic) = true
      · simp only [hm, if_true] at h
        split at h <;> (cases h; rfl)
      · simp only [hm] at h
        cases h
    | err x => simp only at h; cases h; rfl
    | panic s => simp only at h; cases h

/-- **C14.** For every binary and every consumer behaviour: the callbacks are `initialize`, `header`, one per
instruction in stream order, `finalize`, each at most once, in that order; every callback but the last was answered
`continue`; a `stop`/`error` answer ends the parse at once with the corresponding result carrying the consumer's own
value; `finalize` is reached only if everything before succeeded, and a successful parse always reaches it; a parse
error never calls `finalize`. (Unless the model panics, which C04 excludes.) -/
theorem C14 (G : Tables) (script : Nat → Action) (bytes : List Nat) : Spec script (parse G script bytes) := by
  unfold parse
  cases h0 : consume (script 0) 0 with
  | some e => exact Or.inr (good_consumer script [.init] 0 e Shape.init rfl (by intro j hj; omega) h0)
  | none =>
    have c0 : script 0 = .continue_ := (consume_none _ _).1 h0
    simp only
    cases hh : parseHeader G (DState.new bytes) with
    | mk res d1 =>
      cases res with
      | panic s => exact Or.inl ⟨s, rfl⟩
      | err e =>
        simp only
        have hne : isConsumerErr e = false := parseHeader_not_consumer G _ e d1 hh
        exact Or.inr (good_parse_err script [.init] 0 e Shape.init rfl
          (by intro j hj; have : j = 0 := by omega
              subst this; exact c0) (by simp) hne)
      | ok h =>
        simp only
        cases h1 : consume (script 1) 1 with
        | some e =>
          exact Or.inr (good_consumer script [.init, .header h] 1 e (Shape.insts h []) rfl
            (by intro j hj; have : j = 0 := by omega
                subst this; exact c0) h1)
        | none =>
          have c1 : script 1 = .continue_ := (consume_none _ _).1 h1
          have := loop_spec G script h (bytes.length + 1) [] 0 d1 []
            (by intro j hj
                have : j = 0 ∨ j = 1 := by simp at hj; omega
                rcases this with rfl | rfl
                · exact c0
                · exact c1)
          simpa using this

/-- corollary: a parse that ends without error made `finalize` its last callback, after every instruction -/
theorem C14_ok_trace (G : Tables) (script : Nat → Action) (bytes : List Nat)
    (h : (parse G script bytes).result = .ok ()) :
    ∃ hd is, (parse G script bytes).trace = .init :: .header hd :: List.map Ev.inst is ++ [.fin] := by
  rcases C14 G script bytes with ⟨s, hs⟩ | g
  · rw [h] at hs; cases hs
  · have hf := g.obeys.2.2.2.2 h
    have hs := g.shape
    generalize (parse G script bytes).trace = tr at hs hf
    cases hs with
    | init => simp at hf
    | insts hd is => simp at hf
    | fin hd is => exact ⟨hd, is, rfl⟩

/-- non-vacuity: the three answers at callback 2 (first instruction) on a two-instruction binary give three
different traces and results (evaluated by the driver in the correspondence check; here the shape only) -/
example : Shape [.init] ∧ Shape (.init :: .header ⟨0, 0, 0, 0, 0⟩ :: [].map Ev.inst ++ [.fin]) :=
  ⟨Shape.init, Shape.fin _ []⟩

end Rspirv.Props.C14
