import Rspirv.Props.C06Round
import Rspirv.Props.C06
import Rspirv.Instances
/-!
# C06 — end to end, on the tables of this tree

* `method_plain`: every generated instruction-emitting method (not a recorded finding) makes a call that satisfies
  `PlainAt` in every state — its sink is where the loader files its opcode (from `C06_methods`) — provided a
  terminator inserted through `insert_*` is inserted at the end.
* `hand_plain`: the same for the hand-written methods of `dr/build/mod.rs` (all but `begin_block_no_label`, the
  selection methods and `pop_instruction`; `end_function` only when no block is open).
* `C06_roundtrip`: for every complete plain history from a new builder whose module is a stream of instructions of the
  grammar: `load_bytes(module.assemble())` is `Ok` of exactly the built module; its header carries the builder's version
  and `bound = next id`.
-/
namespace Rspirv.Props.C06End
open Rspirv Rspirv.Model Rspirv.Instances Rspirv.Props.Reload Rspirv.Props.RoundTrip Rspirv.Props.C06Round
open Rspirv.Generated.Builder Rspirv.Generated.Grammar Rspirv.Generated.Operands

theorem struct_ok : StructOk theLTables theBTables := by
  refine ⟨?_, ?_, ?_, ?_⟩ <;> decide +kernel

theorem default_version_normal : VersionNormal theBTables.defaultVersion := by
  unfold VersionNormal; decide +kernel

/-! ### the loader's classification read off a row of the extracted reflect table -/

theorem reflect_keys : strictInc (Rspirv.Generated.Extracted.reflectTable.map (·.1)) = true := by decide +kernel

theorem any_row (l : List (Nat × Nat)) (hnd : (l.map (·.1)).Nodup) (o bits i : Nat) (h : (o, bits) ∈ l) :
    l.any (fun r => r.1 == o && r.2.testBit i) = bits.testBit i := by
  induction l with
  | nil => cases h
  | cons x t ih =>
    simp only [List.map_cons, List.nodup_cons] at hnd
    simp only [List.any_cons]
    rcases List.mem_cons.1 h with rfl | ht
    · simp only [beq_self_eq_true, Bool.true_and]
      cases hb : bits.testBit i with
      | true => rfl
      | false =>
        simp only [Bool.false_or]
        rw [List.any_eq_false]
        intro r hr
        by_cases e : r.1 = o
        · exact absurd (List.mem_map.2 ⟨r, hr, e⟩) hnd.1
        · simp [e]
    · have hx : ¬ x.1 = o := by
        intro e
        exact hnd.1 (List.mem_map.2 ⟨(o, bits), ht, e.symm⟩)
      have : (x.1 == o) = false := by simp [hx]
      simp only [this, Bool.false_and, Bool.false_or]
      exact ih hnd.2 ht

theorem reflectBit_row (o bits i : Nat) (h : (o, bits) ∈ Rspirv.Generated.Extracted.reflectTable) :
    reflectBit i o = bits.testBit i :=
  any_row _ (strictInc_nodup _ reflect_keys) o bits i h

theorem classify_row (o bits : Nat) (h : (o, bits) ∈ Rspirv.Generated.Extracted.reflectTable) :
    classify theLTables o = classify (Rspirv.Props.C06.rowL bits) o := by
  simp only [classify, theLTables, Rspirv.Props.C06.rowL, reflectBit_row o bits _ h]
  rfl

/-! ### the generated methods -/

theorem method_plain (g : List MethodSpec) (hg : g ∈ methodGroups) (m : MethodSpec) (hm : m ∈ g)
    (hk : Rspirv.Props.C06.knownBad.contains m.name = false) (vLitString : Nat) (args : List Arg) (c : Call) (s : BState)
    (hcall : m.toCall vLitString args = some c)
    (hterm : m.sink = 2 → m.hasIp = true → args[0]? = some (Arg.ip .end_) ∨ args[0]? = some (Arg.ip (.fromEnd 0))) :
    PlainAt theLTables s c := by
  obtain ⟨p, hp, _, h2, hok⟩ := Rspirv.Props.C06.C06_methods g hg m hm hk
  have hrow : (m.opcode, p.2.2) ∈ Rspirv.Generated.Extracted.reflectTable := by
    have := (List.of_mem_zip (show (p.1, p.2) ∈ Rspirv.Props.C06.joined from hp)).2
    rw [← h2]; exact this
  have hcls := classify_row m.opcode p.2.2 hrow
  unfold Rspirv.Props.C06.methodOk at hok
  simp only [Bool.and_eq_true] at hok
  have hs := hok.2
  unfold Rspirv.Props.C06.sinkAgrees at hs
  rw [← hcls] at hs
  unfold MethodSpec.toCall at hcall
  split at hcall
  · rename_i ops rt ip given _ _ hip _
    simp only [Option.some.injEq] at hcall
    subst hcall
    unfold MethodSpec.mkCall
    by_cases s0 : m.sink = 0
    · simp only [s0, beq_self_eq_true, if_true, PlainAt]
      split at hs <;> simp_all
    · by_cases s1 : m.sink = 1
      · simp only [s1, show ((1 : Nat) == 0) = false from rfl, Bool.false_eq_true, if_false, beq_self_eq_true, if_true, PlainAt]
        split at hs <;> simp_all
      · by_cases s2 : m.sink = 2
        · simp only [s2, show ((2 : Nat) == 0) = false from rfl, show ((2 : Nat) == 1) = false from rfl,
            Bool.false_eq_true, if_false, beq_self_eq_true, if_true, PlainAt]
          refine ⟨?_, ?_⟩
          · unfold MethodSpec.ipArg at hip
            by_cases hi : m.hasIp = true
            · rcases hterm s2 hi with this | this
              · simp only [hi, if_true, this, Option.some.injEq] at hip
                exact Or.inl hip.symm
              · simp only [hi, if_true, this, Option.some.injEq] at hip
                exact Or.inr hip.symm
            · simp only [hi, Bool.false_eq_true, if_false, Option.some.injEq] at hip
              exact Or.inl hip.symm
          · split at hs <;> simp_all
        · have e0 : (m.sink == 0) = false := by simp [s0]
          have e1 : (m.sink == 1) = false := by simp [s1]
          have e2 : (m.sink == 2) = false := by simp [s2]
          simp only [e0, e1, e2, Bool.false_eq_true, if_false, PlainAt]
          split at hs
          · rename_i k hk'
            simp only [e0, Bool.false_and, Bool.false_or, Bool.and_eq_true, beq_iff_eq] at hs
            rw [hk', hs.2]
          · simp [e2] at hs
          · simp [e1] at hs
          · simp at hs
  · cases hcall

/-! ### the hand-written methods -/

theorem hand_entry (p : String × (List Arg → Option Call)) (hp : p ∈ handTable theHTables) (args : List Arg) (c : Call)
    (s : BState) (h : p.2 args = some c)
    (hne : p.1 ≠ "begin_block_no_label" ∧ p.1 ≠ "select_function" ∧ p.1 ≠ "select_block" ∧ p.1 ≠ "pop_instruction")
    (hend : p.1 = "end_function" → s.selBlk = none) : PlainAt theLTables s c := by
  simp only [handTable, List.mem_cons, List.not_mem_nil, or_false] at hp
  rcases hp with rfl | rfl | rfl | rfl | rfl | rfl | rfl | rfl | rfl | rfl | rfl | rfl | rfl | rfl | rfl | rfl | rfl |
    rfl | rfl | rfl | rfl | rfl | rfl | rfl | rfl | rfl | rfl | rfl | rfl | rfl | rfl
  all_goals first
    | (exfalso; simp at hne; done)
    | (simp only at h; split at h <;> first
        | (cases h; done)
        | (cases h <;> simp only [PlainAt] <;> first | (decide +kernel) | (exact hend rfl)))

theorem hand_plain (name : String) (args : List Arg) (c : Call) (s : BState)
    (h : handCall theHTables name args = some c)
    (hne : name ≠ "begin_block_no_label" ∧ name ≠ "select_function" ∧ name ≠ "select_block" ∧ name ≠ "pop_instruction")
    (hend : name = "end_function" → s.selBlk = none) : PlainAt theLTables s c := by
  unfold handCall at h
  cases hf : (handTable theHTables).find? (fun p => p.1 == name) with
  | none => rw [hf] at h; cases h
  | some p =>
    rw [hf] at h
    have hn : p.1 = name := by simpa using List.find?_some hf
    exact hand_entry p (List.mem_of_find?_eq_some hf) args c s h (by rw [hn]; exact hne) (by rw [hn]; exact hend)

/-! ### end to end -/

/-- **C06.** Take any complete plain history `cs` from a new builder (see `PlainAt`; `method_plain` and `hand_plain` show
which public methods make such calls) and let `m` be `Builder::module()` after it. If the traversal of `m` is a stream of
instructions of the grammar ("arguments conforming to the instruction's grammar"), its words fit 32 bits and the binary
is shorter than 2^63 bytes, then `load_bytes` of the bytes of `m.assemble()` returns `Ok(m)` — the same instructions,
operand for operand, in the same sections, functions and blocks — and the header of `m` has rspirv's magic number and
generator, a version word of the form `0x00MMmm00`, and `bound` = the builder's next id. -/
theorem C06_roundtrip (cs : List Call) (hp : PlainRun theLTables theBTables BState.new cs)
    (hc : (BState.run theBTables BState.new cs).1.selFn = none)
    (hg : GrammarStream theTables [] (Rspirv.Props.C15.allInstIter ((BState.run theBTables BState.new cs).1.finish theBTables)))
    (hw : Rspirv.Props.C02.WordsOk (Rspirv.Props.C15.assemble assembleInst ((BState.run theBTables BState.new cs).1.finish theBTables)))
    (hsmall : 4 * (Rspirv.Props.C15.assemble assembleInst ((BState.run theBTables BState.new cs).1.finish theBTables)).length < 2 ^ 63) :
    loadBytes theTables theLTables
        ((Rspirv.Props.C15.assemble assembleInst ((BState.run theBTables BState.new cs).1.finish theBTables)).flatMap Spec.wordBytes) =
      .ok ((BState.run theBTables BState.new cs).1.finish theBTables) ∧
    ∃ hd, ((BState.run theBTables BState.new cs).1.finish theBTables).header = some hd ∧
      VersionNormal hd.version ∧ hd.bound = (BState.run theBTables BState.new cs).1.nextId := by
  have hcanon := C06_canon theLTables theBTables struct_ok cs hp hc
  have hh := run_hdr theLTables theBTables default_version_normal cs BState.new trivial hp
  obtain ⟨hd, e1, e2, e3, e4, e5, e6⟩ := finish_hdr theBTables default_version_normal _ hh
  refine ⟨?_, hd, e1, e5, e6⟩
  exact assemble_load theTables theLTables Rspirv.Props.C04.tables_safe Rspirv.Props.C02.good_tables _ hd e1 hcanon
    e2 e3 e4 e5 hg hw hsmall

/-- the same with the hypotheses in the executable form the driver evaluates for every history of the correspondence
check (`buildhyp` channel: `plain`, `complete`, `grammar`, `words32`) -/
theorem C06_scope (cs : List Call) (h1 : plainRunB theLTables theBTables BState.new cs = true)
    (h2 : (BState.run theBTables BState.new cs).1.selFn.isNone = true)
    (h3 : grammarStreamB theTables [] (Rspirv.Props.C15.allInstIter ((BState.run theBTables BState.new cs).1.finish theBTables)) = true)
    (h4 : (Rspirv.Props.C15.assemble assembleInst ((BState.run theBTables BState.new cs).1.finish theBTables)).all (· < 4294967296) = true)
    (hsmall : 4 * (Rspirv.Props.C15.assemble assembleInst ((BState.run theBTables BState.new cs).1.finish theBTables)).length < 2 ^ 63) :
    loadBytes theTables theLTables
        ((Rspirv.Props.C15.assemble assembleInst ((BState.run theBTables BState.new cs).1.finish theBTables)).flatMap Spec.wordBytes) =
      .ok ((BState.run theBTables BState.new cs).1.finish theBTables) :=
  (C06_roundtrip cs (plainRunB_sound _ _ cs _ h1) (by simpa using h2) (grammarStreamB_sound _ _ _ h3)
    (by intro w hw; simpa using (List.all_eq_true.1 h4) w hw) hsmall).1

/-- non-vacuity: a complete plain history (capability, memory model, a function with one block) -/
example : PlainRun theLTables theBTables BState.new
    [.moduleInst 0 op_Capability none .none [.w v_Capability 1], .beginFunction 1 none 0 2, .beginBlock none,
     .terminator .end_ op_Return [], .endFunction] ∧
    (BState.run theBTables BState.new
      [.moduleInst 0 op_Capability none .none [.w v_Capability 1], .beginFunction 1 none 0 2, .beginBlock none,
       .terminator .end_ op_Return [], .endFunction]).1.selFn = none := by
  refine ⟨⟨?_, trivial, trivial, ⟨Or.inl rfl, ?_⟩, rfl, trivial⟩, rfl⟩
  · show classify theLTables op_Capability = .sect 0
    decide +kernel
  · show classify theLTables op_Return = .term
    decide +kernel

end Rspirv.Props.C06End
