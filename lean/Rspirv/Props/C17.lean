import Rspirv.Model.Reflect
import Rspirv.Generated.Reflect
import Rspirv.Generated.Operands
import Rspirv.Generated.Spirv
import Rspirv.Reference.PinnedReflect
import Rspirv.Generated.Findings
/-!
# C17 — operand reflection agrees with the parser and the grammar

Two generated copies of the per-value parameter lists exist in the tree: the parser's (`autogen_parse_operand.rs`,
per enumerant / per bit, in source order) and the reflection's (`autogen_operand.rs::additional_operands`, grouped).
Both are translated on every run; the theorems compare them with each other, for every enumerant and for EVERY bit
pattern, and with the pinned snapshot.
-/
namespace Rspirv.Props.C17
open Rspirv Rspirv.Model Rspirv.Generated.Operands
open Rspirv.Generated.Reflect (additionalOperands requiredCapabilities requiredExtensions idRefAny idRefAnyMut fromImpls unwraps variantPayloadType)

/-- kind index of the parameterised kind represented by Operand variant `v` (the kind whose `parse_operand` arm decodes
variant `v` with parameters) -/
def actOf (v : Nat) : Option KindAct :=
  kindActs.find? (fun a => match a with
    | .maskParams e _ => e.variant == v
    | .enumParams e _ => e.variant == v
    | _ => false)

/-- reflection's answer, expanded to decode elements through the kind table -/
def reflectElems (isMask : Bool) (rows : List (List Nat × List (Nat × Nat))) (v : Nat) : List Elem :=
  (addOperandsOf isMask rows v).flatMap (fun lo => kindElems kindActs lo.1)

/-! ### enumerant kinds: the same sequence, for every declared enumerant -/

def enumValues (v : Nat) : List Nat :=
  match operandVariants[v]? with
  | some (_, 0, ix) => match Rspirv.Generated.Spirv.enums[ix]? with
    | some E => E.declVals
    | none => []
  | _ => []

def enumAgree : Bool :=
  additionalOperands.all (fun r =>
    r.2.1 || (match actOf r.1 with
      | some act => (enumValues r.1).all (fun x => reflectElems false r.2.2 x == parserParams act x) &&
                    -- every reflected operand is required exactly once (the parser reads one element per listed kind),
                    -- except for recorded findings (value, kind) whose quantifier the parser ignores
                    r.2.2.all (fun row => row.2.all (fun lo => lo.2 == 0 ||
                      row.1.all (fun x => Rspirv.Generated.Findings.c17KnownQuant.contains (r.1, x))))
      | none => false))

theorem enum_agree : enumAgree = true := by decide +kernel

/-- **C17 (enumerants).** For every enumerant of `ExecutionMode` and `Decoration`, the extra operands reflection
reports are exactly the kinds the parser consumes after that value, as a sequence. -/
theorem C17_enum (r : Nat × Bool × List (List Nat × List (Nat × Nat))) (hr : r ∈ additionalOperands) (hm : r.2.1 = false) :
    ∃ act, actOf r.1 = some act ∧ ∀ x ∈ enumValues r.1, reflectElems false r.2.2 x = parserParams act x := by
  have h := List.all_eq_true.1 enum_agree r hr
  simp only [hm, Bool.false_or] at h
  cases ha : actOf r.1 with
  | none => simp [ha] at h
  | some act =>
    simp only [ha, Bool.and_eq_true, List.all_eq_true, beq_iff_eq] at h
    exact ⟨act, rfl, fun x hx => h.1 x hx⟩

/-! ### bit-mask kinds: the same multiset, for every bit pattern -/

/-- reflection groups flattened to one `(flag, elements)` pair per flag -/
def expand (rows : List (List Nat × List (Nat × Nat))) : List (Nat × List Elem) :=
  rows.flatMap (fun r => r.1.map (fun f => (f, r.2.flatMap (fun lo => kindElems kindActs lo.1))))

def maskRows : KindAct → List (Nat × List Elem)
  | .maskParams _ rows => rows
  | _ => []

def maskAgree : Bool :=
  additionalOperands.all (fun r =>
    !r.2.1 || (match actOf r.1 with
      | some act => (expand r.2.2).isPerm (maskRows act) && (match act with | .maskParams _ _ => true | _ => false)
      | none => false))

theorem mask_agree : maskAgree = true := by decide +kernel

theorem reflectElems_mask (rows : List (List Nat × List (Nat × Nat))) (v : Nat) :
    reflectElems true rows v = ((expand rows).filter (fun p => maskContains v p.1)).flatMap (·.2) := by
  unfold reflectElems addOperandsOf expand
  simp only [if_true]
  induction rows with
  | nil => rfl
  | cons r t ih =>
    simp only [List.flatMap_cons, List.flatMap_append, List.filter_append, ih]
    congr 1
    -- one group: flags filtered, each contributing the group's elements
    induction r.1 with
    | nil => rfl
    | cons f fs ih2 =>
      simp only [List.filter_cons, List.map_cons]
      by_cases hc : maskContains v f = true
      · simp only [hc, if_true, List.flatMap_cons, List.flatMap_append, ih2]
      · simp only [hc, Bool.false_eq_true, if_false, ih2]

/-- **C17 (bit-masks).** For EVERY bit pattern `x` of the four parameterised masks (image operands, loop control,
memory access, tensor addressing) the extra operands reflection reports are a permutation of what the parser consumes
after that value. -/
theorem C17_mask (r : Nat × Bool × List (List Nat × List (Nat × Nat))) (hr : r ∈ additionalOperands) (hm : r.2.1 = true)
    (x : Nat) :
    ∃ act, actOf r.1 = some act ∧ List.Perm (reflectElems true r.2.2 x) (parserParams act x) := by
  have h := List.all_eq_true.1 mask_agree r hr
  simp only [hm, Bool.not_true, Bool.false_or] at h
  cases ha : actOf r.1 with
  | none => simp [ha] at h
  | some act =>
    simp only [ha, Bool.and_eq_true] at h
    refine ⟨act, rfl, ?_⟩
    have hp : List.Perm (expand r.2.2) (maskRows act) := List.isPerm_iff.1 h.1
    cases act with
    | maskParams e rows =>
      rw [reflectElems_mask]
      simp only [parserParams, maskRows] at hp ⊢
      exact (hp.filter _).flatMap_right _
    | elems es => simp at h
    | enumParams e rows => simp at h
    | panics => simp at h

/-! ### pinned reference, ids, conversions -/


/-- **C17 (grammar).** Parameters, required capabilities and required extensions equal the snapshot of the pinned SDK
release. -/
theorem pinned_check :
    (additionalOperands == Rspirv.Reference.PinnedReflect.additionalOperands &&
     requiredCapabilities == Rspirv.Reference.PinnedReflect.requiredCapabilities &&
     requiredExtensions == Rspirv.Reference.PinnedReflect.requiredExtensions) = true := by decide +kernel

theorem C17_pinned :
    additionalOperands = Rspirv.Reference.PinnedReflect.additionalOperands ∧
    requiredCapabilities = Rspirv.Reference.PinnedReflect.requiredCapabilities ∧
    requiredExtensions = Rspirv.Reference.PinnedReflect.requiredExtensions := by
  have h := pinned_check
  simp only [Bool.and_eq_true, beq_iff_eq] at h
  exact ⟨h.1.1, h.1.2, h.2⟩

/-- variants whose payload is a `spirv::Word` id, by the enum declaration -/
def idVariants : List Nat :=
  (operandVariants.zipIdx.filter (fun p => p.1.2.1 == 2)).map (·.2)

/-- **C17 (ids).** `id_ref_any` / `id_ref_any_mut` report an id exactly for the three id kinds (the variants declared
with a `spirv::Word` payload). -/
theorem C17_ids : sameSet idRefAny idVariants = true ∧ idRefAny = idRefAnyMut ∧ idRefAny.length = 3 := by decide +kernel

/-- **C17 (rewriting an id).** Replacing a one-word operand by another value of the same variant changes exactly the
corresponding word of the assembled instruction: the words before and after are untouched and the length is the same.
(Position = 1 + result type + result id + words of the preceding operands.) -/
theorem C17_rewrite (i : Inst) (k variant old new : Nat) (hk : i.operands[k]? = some (.w variant old)) :
    let pre := (i.operands.take k).flatMap encodeOperand
    let post := (i.operands.drop (k + 1)).flatMap encodeOperand
    assembleInst i = (i.opcode ||| ((i.rtype.toList ++ i.rid.toList ++ pre ++ [old] ++ post).length + 1) * 65536 % 4294967296) ::
        (i.rtype.toList ++ i.rid.toList ++ pre ++ [old] ++ post) ∧
    assembleInst (i.setOperand k (.w variant new)) =
      (i.opcode ||| ((i.rtype.toList ++ i.rid.toList ++ pre ++ [new] ++ post).length + 1) * 65536 % 4294967296) ::
        (i.rtype.toList ++ i.rid.toList ++ pre ++ [new] ++ post) := by
  intro pre post
  have hlt : k < i.operands.length := (List.getElem?_eq_some_iff.1 hk).1
  have hsplit : i.operands = i.operands.take k ++ (.w variant old) :: i.operands.drop (k + 1) := by
    conv => lhs; rw [← List.take_append_drop k i.operands]
    congr 1
    rw [List.drop_eq_getElem_cons hlt]
    congr 1
    have := (List.getElem?_eq_some_iff.1 hk).2
    exact this
  have hset : (i.setOperand k (.w variant new)).operands = i.operands.take k ++ (.w variant new) :: i.operands.drop (k + 1) := by
    simp only [Inst.setOperand]
    rw [List.set_eq_take_append_cons_drop]
    simp [hlt]
  constructor
  · unfold assembleInst
    conv => lhs; rw [hsplit]
    simp only [List.flatMap_append, List.flatMap_cons, encodeOperand, List.append_assoc, List.singleton_append]
    rfl
  · unfold assembleInst
    rw [hset]
    simp only [Inst.setOperand, List.flatMap_append, List.flatMap_cons, encodeOperand, List.append_assoc, List.singleton_append]
    rfl

/-- **C17 (conversions).** Every `From<T> for Operand` builds the variant whose declared payload type is `T`, and the
`unwrap_*` accessor of that variant returns a `T` (`&str` for `String`): converting a payload into an operand and
extracting it again returns the payload. -/
def conversionsOk : Bool :=
  fromImpls.all (fun f => variantPayloadType[f.2]? == some f.1 && unwraps.contains (f.1, f.2)) &&
  -- each accessor is declared for the variant's own payload type
  unwraps.all (fun u => variantPayloadType[u.2]? == some u.1) &&
  nodupCheck (unwraps.map (·.2)) && decide (unwraps.length = operandVariants.length)

theorem C17_conversions : conversionsOk = true := by decide +kernel

example : additionalOperands.length = 6 ∧ (additionalOperands.filter (·.2.1)).length = 4 := by decide +kernel

end Rspirv.Props.C17
