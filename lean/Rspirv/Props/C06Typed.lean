import Rspirv.Props.C02TypedInst
/-!
# C06 with the grammar hypothesis stated instruction by instruction

`C06_roundtrip` asks that the traversal of the built module be a `GrammarStream` — a condition on the whole sequence, with
the type tracker threaded through it. For instructions whose grammar entry has no context-dependent operand (everything
but `OpConstant`, `OpSpecConstant`, `OpSpecConstantOp`, `OpSwitch`) conformance does not depend on the tracked types
(`instT_indep`), and a conforming instruction is always digestible by the tracker (`typed_track`). So it suffices that
**each instruction of the module conforms by its own fields** (`InstT0`): `typedAll_stream`, `C06_roundtrip_typed`.
-/
namespace Rspirv.Props.C06Typed
open Rspirv Rspirv.Model Rspirv.Model.DState Rspirv.Model.Typed Rspirv.Instances Rspirv.Props.C02 Rspirv.Props.C02Typed
  Rspirv.Props.C02TypedInst Rspirv.Props.RoundTrip Rspirv.Props.C06Round Rspirv.Props.C06End

/-- no context-dependent kind among the logical operands -/
def NoCtx (G : Tables) (ops : List (Nat × Nat)) : Prop := ∀ o ∈ ops, isCtxKind G o.1 = false

theorem oneT_indep (G : Tables) (τ τ' : Tracker) (opcode : Nat) (rt : Option Nat) (pre : List Operand) (k : Nat)
    (g : List Operand) (hk : isCtxKind G k = false) (h : OneT G τ opcode rt pre k g) : OneT G τ' opcode rt pre k g := by
  simp only [isCtxKind, Bool.or_eq_false_iff] at hk
  unfold OneT at h ⊢
  simp only [hk.1.1, hk.1.2, hk.2, Bool.false_eq_true, if_false] at h ⊢
  exact h

theorem loopT_indep (G : Tables) (τ τ' : Tracker) (opcode : Nat) (rt : Option Nat) {ops : List (Nat × Nat)}
    {pre os : List Operand} (h : LoopT G τ opcode rt ops pre os) : NoCtx G ops → LoopT G τ' opcode rt ops pre os := by
  induction h with
  | nil => intro _; exact LoopT.nil
  | stop hq => intro _; exact LoopT.stop hq
  | step hq hone _ ih =>
    intro hn
    exact LoopT.step hq (oneT_indep G τ τ' opcode rt _ _ _ (hn _ List.mem_cons_self) hone)
      (ih (fun o ho => hn o (List.mem_cons_of_mem _ ho)))
  | rep hq hone _ ih =>
    intro hn
    exact LoopT.rep hq (oneT_indep G τ τ' opcode rt _ _ _ (hn _ List.mem_cons_self) hone) (ih hn)

/-- conformance of an instruction whose entry has no context-dependent operand, whatever the tracked types -/
def InstT0 (G : Tables) (i : Inst) : Prop :=
  InstT G [] i ∧ ∀ e, lookupOpcode G.core i.opcode = some e → NoCtx G e.ops

theorem instT_indep (G : Tables) (τ : Tracker) (i : Inst) (h : InstT0 G i) : InstT G τ i := by
  obtain ⟨⟨e, hl, h1, h2, h3, h4⟩, hn⟩ := h
  refine ⟨e, hl, h1, h2, ?_, h4⟩
  exact loopT_indep G [] τ i.opcode i.rtype h3 (fun o ho => hn e hl o (List.mem_filter.1 ho).1)

/-- a conforming instruction (32-bit words) is digestible by the type tracker -/
theorem typed_track (τ : Tracker) (i : Inst) (h : InstT theTables τ i) (hw : WordsOk (assembleInst i)) :
    ∃ τ1, τ.track theTables.tt i = some τ1 := by
  have hlen : (assembleInst i).length < 65536 := h.choose_spec.2.2.2.2
  have hbl : ((assembleInst i).flatMap Spec.wordBytes).length < 2 ^ 63 := by
    rw [Rspirv.Props.C02.flatMap_wordBytes_length]
    omega
  obtain ⟨d', hp, _⟩ := C02_typed τ 1 i h [] [] (by simpa using hw) (by intro b hb; cases hb)
    (by simpa using hbl)
  have hsafe := Rspirv.Props.C04.parseInst_safe (G := theTables) Rspirv.Props.C04.tables_safe τ 1
    ⟨[] ++ (assembleInst i ++ []).flatMap Spec.wordBytes, ([] : List Nat).length, none⟩
    (by
      simp only [Rspirv.Props.C11.Inv, List.nil_append, List.length_nil]
      omega)
    (by
      simp only [Rspirv.Props.C11.Small, List.nil_append, List.append_nil]
      exact hbl)
    rfl
  have := (hsafe.2.2.2 i (by rw [hp])).2.2
  exact Option.isSome_iff_exists.1 this

/-- instructions that conform one by one form a typed stream under any tracker -/
theorem typedAll_stream : ∀ (is : List Inst) (τ : Tracker),
    (∀ i ∈ is, InstT0 theTables i ∧ WordsOk (assembleInst i)) → TypedStream theTables τ is
  | [], _, _ => trivial
  | i :: t, τ, h => by
    obtain ⟨h0, hw⟩ := h i (by simp)
    have hi := instT_indep theTables τ i h0
    obtain ⟨τ1, ht⟩ := typed_track τ i hi hw
    exact ⟨hi, τ1, ht, typedAll_stream t τ1 (fun x hx => h x (by simp [hx]))⟩

/-- **C06, grammar hypothesis per instruction.** A complete plain history whose module consists of instructions that each
conform to the grammar by their own fields (entries without context-dependent operands) and assemble to 32-bit words:
`load_bytes(bytes(module.assemble())) = Ok(module)`. -/
theorem C06_roundtrip_typed (cs : List Call) (hp : PlainRun theLTables theBTables BState.new cs)
    (hc : (BState.run theBTables BState.new cs).1.selFn = none)
    (ht : ∀ i ∈ Rspirv.Props.C15.allInstIter ((BState.run theBTables BState.new cs).1.finish theBTables),
      InstT0 theTables i ∧ WordsOk (assembleInst i))
    (hw : WordsOk (Rspirv.Props.C15.assemble assembleInst ((BState.run theBTables BState.new cs).1.finish theBTables)))
    (hsmall : 4 * (Rspirv.Props.C15.assemble assembleInst ((BState.run theBTables BState.new cs).1.finish theBTables)).length < 2 ^ 63) :
    loadBytes theTables theLTables
        ((Rspirv.Props.C15.assemble assembleInst ((BState.run theBTables BState.new cs).1.finish theBTables)).flatMap Spec.wordBytes) =
      .ok ((BState.run theBTables BState.new cs).1.finish theBTables) :=
  (C06_roundtrip cs hp hc (typedStream_grammar theTables typed_tables _ [] (typedAll_stream _ [] ht)) hw hsmall).1

/-! ### from typed argument groups to a conforming instruction -/

/-- the operand groups the slots of a Builder method contribute, against the logical operands of the entry: a required
operand gets one occurrence of its kind, an optional one gets one or nothing, a variadic one a run; after an absent
optional operand or a variadic one nothing more is contributed -/
inductive GroupsT (G : Tables) : List (Nat × Nat) → List (List Operand) → Prop
  | nil : GroupsT G [] []
  | one {k q : Nat} {ops : List (Nat × Nat)} {g : List Operand} {gs : List (List Operand)} :
      (q == 2) = false → OperandT G k g → GroupsT G ops gs → GroupsT G ((k, q) :: ops) (g :: gs)
  | absent {k q : Nat} {ops : List (Nat × Nat)} {gs : List (List Operand)} :
      (q == 0) = false → (∀ x ∈ gs, x = []) → GroupsT G ((k, q) :: ops) ([] :: gs)
  | many {k q : Nat} {ops : List (Nat × Nat)} {g : List Operand} {gs : List (List Operand)} :
      (q == 2) = true → ManyT G k g → (∀ x ∈ gs, x = []) → GroupsT G ((k, q) :: ops) (g :: gs)

theorem flatten_nils {α : Type} : ∀ (gs : List (List α)), (∀ x ∈ gs, x = []) → gs.flatten = []
  | [], _ => rfl
  | g :: gs, h => by
    rw [List.flatten_cons, h g (by simp), flatten_nils gs (fun x hx => h x (by simp [hx]))]
    rfl

theorem oneT_of_operandT (G : Tables) (τ : Tracker) (opcode : Nat) (rt : Option Nat) (pre : List Operand) (k : Nat)
    (g : List Operand) (hk : isCtxKind G k = false) (h : OperandT G k g) : OneT G τ opcode rt pre k g := by
  simp only [isCtxKind, Bool.or_eq_false_iff] at hk
  unfold OneT
  simp only [hk.1.1, hk.1.2, hk.2, Bool.false_eq_true, if_false]
  exact h

theorem many_loopT (G : Tables) (τ : Tracker) (opcode : Nat) (rt : Option Nat) (k q : Nat) (rest : List (Nat × Nat))
    (hq : (q == 2) = true) (hk : isCtxKind G k = false) {g : List Operand} (h : ManyT G k g) :
    ∀ pre, LoopT G τ opcode rt ((k, q) :: rest) pre g := by
  induction h with
  | nil =>
    intro pre
    exact LoopT.stop (by
      have := eq_of_beq hq
      subst this
      rfl)
  | cons hg _ ih =>
    intro pre
    exact LoopT.rep hq (oneT_of_operandT G τ opcode rt pre k _ hk hg) (ih _)

theorem groups_loopT (G : Tables) (τ : Tracker) (opcode : Nat) (rt : Option Nat) {ops : List (Nat × Nat)}
    {gs : List (List Operand)} (h : GroupsT G ops gs) : NoCtx G ops → ∀ pre, LoopT G τ opcode rt ops pre gs.flatten := by
  induction h with
  | nil => intro _ pre; exact LoopT.nil
  | one hq hg _ ih =>
    intro hn pre
    rw [List.flatten_cons]
    exact LoopT.step hq (oneT_of_operandT G τ opcode rt pre _ _ (hn _ List.mem_cons_self) hg)
      (ih (fun o ho => hn o (List.mem_cons_of_mem _ ho)) _)
  | absent hq hnil =>
    intro _ pre
    rw [List.flatten_cons, flatten_nils _ hnil]
    exact LoopT.stop hq
  | many hq hm hnil =>
    intro hn pre
    rw [List.flatten_cons, flatten_nils _ hnil, List.append_nil]
    exact many_loopT G τ opcode rt _ _ _ hq (hn _ List.mem_cons_self) hm pre

/-- **a Builder call with typed argument groups emits a conforming instruction.** Let `e` be the grammar entry of
`opcode`, without context-dependent operands. If the operand list is the concatenation of groups typed for the entry's
logical operands (other than the result kinds), a result type is given exactly when the entry lists one, a result id
exactly when the entry lists one, and the encoding fits the 16-bit word count, then the instruction conforms to the
grammar whatever types are tracked (`InstT0`). With `C06_roundtrip_typed`: a complete plain history of such calls
survives assemble-then-load unchanged. -/
theorem call_typed (G : Tables) (opcode : Nat) (rt rid : Option Nat) (e : Entry) (gs : List (List Operand))
    (hl : lookupOpcode G.core opcode = some e) (hn : NoCtx G e.ops)
    (hrt : rt.isSome = e.ops.any (fun o => o.1 == G.kIdResultType))
    (hrid : rid.isSome = e.ops.any (fun o => o.1 == G.kIdResult))
    (hg : GroupsT G (e.ops.filter (fun o => !isRes G o.1)) gs)
    (hlen : (assembleInst ⟨opcode, rt, rid, gs.flatten⟩).length < 65536) :
    InstT0 G ⟨opcode, rt, rid, gs.flatten⟩ := by
  refine ⟨⟨e, hl, hrt, hrid, ?_, hlen⟩, ?_⟩
  · exact groups_loopT G [] opcode rt hg (fun o ho => hn o (List.mem_filter.1 ho).1) []
  · intro e' hl'
    rw [hl] at hl'
    cases hl'
    exact hn

/-- what the slots of a generated method contribute is the concatenation of the per-slot groups -/
theorem collect_flatten {α : Type} : ∀ (l : List (Option (List α))) (ops : List α), collect l = some ops →
    ∃ gs : List (List α), l = gs.map some ∧ ops = gs.flatten
  | [], ops, h => by simp only [collect, Option.some.injEq] at h; exact ⟨[], rfl, h.symm⟩
  | none :: t, ops, h => by simp [collect] at h
  | some g :: t, ops, h => by
    simp only [collect, Option.map_eq_some_iff] at h
    obtain ⟨r, hr, rfl⟩ := h
    obtain ⟨gs, e1, e2⟩ := collect_flatten t r hr
    exact ⟨g :: gs, by rw [e1]; rfl, by rw [e2]; rfl⟩

/-- non-vacuity: `type_int(32, 0)` with result id 1 — two typed groups, one per required literal — emits a conforming
instruction -/
example : InstT0 theTables ⟨21, none, some 1, [[Operand.w 59 32], [Operand.w 59 0]].flatten⟩ := by
  have hl : lookupOpcode theTables.core 21 = some ⟨95835015724232308, 21, [], [], [(57, 0), (61, 0), (61, 0)]⟩ := by
    decide +kernel
  have hk : theTables.kindActs[61]? = some (.elems [⟨59, 2, 0, 0⟩]) := by decide +kernel
  have op : ∀ x, OperandT theTables 61 [.w 59 x] := by
    intro x
    unfold OperandT
    rw [hk]
    exact ElemsT.cons ⟨rfl, by simp⟩ ElemsT.nil
  refine call_typed theTables 21 none (some 1) _ _ hl ?_ (by decide +kernel) (by decide +kernel) ?_ (by decide)
  · intro o ho
    have : ([(57, 0), (61, 0), (61, 0)] : List (Nat × Nat)).all (fun o => !isCtxKind theTables o.1) = true := by
      decide +kernel
    simpa using (List.all_eq_true.1 this) o ho
  · have hf : ([(57, 0), (61, 0), (61, 0)] : List (Nat × Nat)).filter (fun o => !isRes theTables o.1) = [(61, 0), (61, 0)] := by
      decide +kernel
    rw [hf]
    exact GroupsT.one rfl (op 32) (GroupsT.one rfl (op 0) GroupsT.nil)

end Rspirv.Props.C06Typed
