import Rspirv.Model.Typed
import Rspirv.Props.C02
/-!
# C02 — every instruction that conforms to the grammar (typing judgement) is read back from its encoding

`Model/Typed.lean` states the grammar as a typing judgement `InstT G τ i` on data-representation instructions, with no
reference to words or to the recogniser. Here: the recogniser `Spec.inst` reads a conforming instruction back from the
words the assembler emits for it, whatever follows (`typed_spec`). Hence a conforming instruction is "an instruction of
the grammar" in the sense used by `C02_spec`, `GrammarStream`, `C06_roundtrip`, `assemble_load` (`typed_grammar`,
`typedStream_grammar`), and those theorems apply to instructions characterised by their fields alone.
-/
namespace Rspirv.Props.C02Typed
open Rspirv Rspirv.Model Rspirv.Model.DState Rspirv.Model.Typed Rspirv.Props.C02 Rspirv.Props.C04

/-! ### leaves -/

theorem str_T (bs : List Nat) (h : StrOk bs) (r' : List Nat) : Spec.str (packStr bs ++ r') = some (bs, r') := by
  obtain ⟨hlt, hnz, hutf⟩ := h
  obtain ⟨hbytes, hlen⟩ := packStr_bytes bs.length bs rfl hlt
  unfold Spec.str
  rw [List.flatMap_append, hbytes]
  have hrep : List.replicate (4 - bs.length % 4) 0 = 0 :: List.replicate (3 - bs.length % 4) 0 := by
    have : 4 - bs.length % 4 = (3 - bs.length % 4) + 1 := by omega
    rw [this, List.replicate_succ]
  rw [hrep, List.append_assoc, List.cons_append, findIdx_zero bs _ hnz]
  dsimp only
  rw [List.take_left' rfl]
  simp only [hutf, if_true]
  rw [← hlen, List.drop_left' rfl]

theorem elem_T (G : Tables) (e : Elem) (o : Operand) (h : ElemT G e o) (r' : List Nat) :
    Spec.elem G e (encodeOperand o ++ r') = some (o, r') := by
  cases o with
  | w v x =>
    obtain ⟨hv, hc⟩ := h
    subst hv
    unfold Spec.elem
    by_cases h0 : (e.dec == 0) = true
    · simp only [h0, if_true] at hc ⊢
      obtain ⟨E, hE, hf⟩ := hc
      simp only [encodeOperand, List.cons_append, List.nil_append, hE, hf]
    · simp only [h0, Bool.false_eq_true, if_false] at hc ⊢
      by_cases h1 : (e.dec == 1) = true
      · simp only [h1, if_true] at hc ⊢
        obtain ⟨M, hM, hf⟩ := hc
        simp only [encodeOperand, List.cons_append, List.nil_append, hM, hf]
      · simp only [h1, Bool.false_eq_true, if_false] at hc ⊢
        simp only [hc, if_true, encodeOperand, List.cons_append, List.nil_append]
  | s bs =>
    obtain ⟨h0, h1, h2, hs⟩ := h
    unfold Spec.elem
    simp only [h0, h1, h2, Bool.false_eq_true, if_false, encodeOperand, str_T bs hs r']
  | q v => exact absurd h (by simp [ElemT])

theorem elems_T (G : Tables) {es : List Elem} {os : List Operand} (h : ElemsT G es os) :
    ∀ r', Spec.elems G es (encOps os ++ r') = some (os, r') := by
  induction h with
  | nil => intro r'; rfl
  | cons he _ ih =>
    intro r'
    unfold Spec.elems
    rw [encOps_cons, List.append_assoc, elem_T G _ _ he]
    dsimp only
    rw [ih r']

theorem operand_T (G : Tables) (k : Nat) (os : List Operand) (h : OperandT G k os) (r' : List Nat) :
    Spec.operand G k (encOps os ++ r') = some (os, r') := by
  unfold OperandT at h
  unfold Spec.operand
  cases ha : G.kindActs[k]? with
  | none => rw [ha] at h; exact absurd h (by simp)
  | some act =>
    rw [ha] at h
    cases act with
    | panics => exact absurd h (by simp)
    | elems es => exact elems_T G h r'
    | maskParams e rows =>
      obtain ⟨v, ps, rfl, hv, hps⟩ := h
      dsimp only
      rw [encOps_cons, List.append_assoc, elem_T G e v hv]
      dsimp only
      rw [elems_T G hps r']
    | enumParams e rows =>
      obtain ⟨v, ps, rfl, hv, hps⟩ := h
      dsimp only
      rw [encOps_cons, List.append_assoc, elem_T G e v hv]
      dsimp only
      rw [elems_T G hps r']

theorem operand_T_ne (G : Tables) (k : Nat) (hk : kindOk G k = true) (os : List Operand) (h : OperandT G k os) : os ≠ [] := by
  have := operand_T G k os h []
  exact operand_nonempty G k hk _ os [] this

theorem lit1_T (G : Tables) (o : Operand) (h : Lit1T G o) (r' : List Nat) :
    Spec.lit1 G (encodeOperand o ++ r') = some (o, r') := by
  obtain ⟨x, rfl⟩ := h
  rfl

theorem lit2_T (o : Operand) (h : Lit2T o) (r' : List Nat) : Spec.lit2 (encodeOperand o ++ r') = some (o, r') := by
  obtain ⟨v, rfl, hv⟩ := h
  simp only [encodeOperand, List.cons_append, List.nil_append, Spec.lit2, Option.some.injEq, Prod.mk.injEq, and_true,
    Operand.q.injEq]
  omega

theorem literal_T (G : Tables) (τ : Tracker) (ty : Nat) (o : Operand) (h : LiteralT G τ ty o) (r' : List Nat) :
    Spec.literal G τ ty (encodeOperand o ++ r') = some (o, r') := by
  unfold LiteralT at h
  unfold Spec.literal
  cases hr : τ.resolve ty with
  | none => rw [hr] at h; exact lit1_T G o h r'
  | some t =>
    rw [hr] at h
    cases t with
    | int w s =>
      dsimp only at h ⊢
      split
      · rename_i hw; rw [if_pos hw] at h; exact lit1_T G o h r'
      · rename_i hw
        rw [if_neg hw] at h
        split
        · rename_i hw2; rw [if_pos hw2] at h; exact lit2_T o h r'
        · rename_i hw2; rw [if_neg hw2] at h; exact absurd h (by simp)
    | float w =>
      dsimp only at h ⊢
      split
      · rename_i hw; rw [if_pos hw] at h; exact lit1_T G o h r'
      · rename_i hw
        rw [if_neg hw] at h
        split
        · rename_i hw2; rw [if_pos hw2] at h; exact lit2_T o h r'
        · rename_i hw2; rw [if_neg hw2] at h; exact absurd h (by simp)

theorem literal_T_ne (o : Operand) : encodeOperand o ≠ [] := encodeOperand_ne o

/-! ### runs and nested operands -/

theorem many_T (G : Tables) (k : Nat) (hk : kindOk G k = true) {os : List Operand} (h : ManyT G k os) :
    ∀ fuel, (encOps os).length < fuel → Spec.many G k fuel (encOps os) = some os := by
  induction h with
  | nil =>
    intro fuel hf
    cases fuel with
    | zero => exact absurd hf (Nat.not_lt_zero _)
    | succ f => simp [Spec.many, encOps]
  | @cons g os hg _ ih =>
    intro fuel hf
    have hne : encOps g ≠ [] := encOps_ne g (operand_T_ne G k hk g hg)
    have hlen : 0 < (encOps g).length := List.length_pos_iff.2 hne
    cases fuel with
    | zero => exact absurd hf (Nat.not_lt_zero _)
    | succ f =>
      unfold Spec.many
      rw [encOps_append] at hf ⊢
      have hnil : (encOps g ++ encOps os).isEmpty = false := by
        cases hx : encOps g with
        | nil => exact absurd hx hne
        | cons _ _ => rfl
      simp only [hnil, Bool.false_eq_true, if_false, operand_T G k g hg]
      rw [ih f (by simp only [List.length_append] at hf; omega)]

theorem nested_T (G : Tables) {ops : List (Nat × Nat)} {os : List Operand} (h : NestedT G ops os) :
    nestedOk G ops = true → Spec.nested G ops (encOps os) = some (os, []) := by
  induction h with
  | nil => intro _; rfl
  | @res k q rest os hres _ ih =>
    intro hok
    simp only [nestedOk, List.all_cons, Bool.and_eq_true] at hok
    unfold Spec.nested
    simp only [hres, if_true]
    exact ih hok.2
  | @one k q rest g os hres hq hg _ ih =>
    intro hok
    simp only [nestedOk, List.all_cons, Bool.and_eq_true] at hok
    unfold Spec.nested
    simp only [hres, Bool.false_eq_true, if_false, hq, if_true, encOps_append, operand_T G k g hg, ih hok.2]
  | @optNone k q rest hres hq0 hq1 _ ih =>
    intro hok
    simp only [nestedOk, List.all_cons, Bool.and_eq_true] at hok
    unfold Spec.nested
    have := ih hok.2
    simp only [encOps, List.flatMap_nil] at this
    simp [hres, hq0, hq1, encOps, this]
  | @optSome k q rest g os hres hq0 hq1 hg _ ih =>
    intro hok
    simp only [nestedOk, List.all_cons, Bool.and_eq_true] at hok
    have hk : kindOk G k = true := by
      have := hok.1
      simp only [Bool.or_eq_true] at this hres
      rcases this with (h1 | h1) | h1
      · simp [h1] at hres
      · simp [h1] at hres
      · exact h1
    have hne : encOps g ≠ [] := encOps_ne g (operand_T_ne G k hk g hg)
    unfold Spec.nested
    rw [encOps_append]
    have hnil : (encOps g ++ encOps os).isEmpty = false := by
      cases hx : encOps g with
      | nil => exact absurd hx hne
      | cons _ _ => rfl
    simp only [hres, Bool.false_eq_true, if_false, hq0, hq1, if_true, hnil, operand_T G k g hg, ih hok.2]
  | @many k q rest g hres hq0 hq1 hg _ ih =>
    intro hok
    simp only [nestedOk, List.all_cons, Bool.and_eq_true] at hok
    have hk : kindOk G k = true := by
      have := hok.1
      simp only [Bool.or_eq_true] at this hres
      rcases this with (h1 | h1) | h1
      · simp [h1] at hres
      · simp [h1] at hres
      · exact h1
    have hm := many_T G k hk hg ((encOps g).length + 1) (Nat.lt_succ_self _)
    have hr := ih hok.2
    simp only [encOps, List.flatMap_nil] at hr
    unfold Spec.nested
    simp only [hres, Bool.false_eq_true, if_false, hq0, hq1, hm, hr, List.append_nil]

theorem specOp_T (G : Tables) (hc : coreKindsOk G = true) (os : List Operand) (h : SpecOpT G os) :
    Spec.specOp G (encOps os) = some (os, []) ∧ os ≠ [] := by
  obtain ⟨e, rest, rfl, h16, hlook, hctx, hn⟩ := h
  refine ⟨?_, by simp⟩
  have hmem := (lookupOpcode_some _ _ _ hlook).1
  have hok : nestedOk G e.ops = true := by
    simp only [coreKindsOk, List.all_eq_true] at hc
    simp only [nestedOk, List.all_eq_true]
    intro o ho
    have h1 := hc e hmem o ho
    have h2 : isCtxKind G o.1 = false := by
      have := hctx
      simp only [List.any_eq_false] at this
      simpa using this o ho
    simpa [h2] using h1
  unfold Spec.specOp
  simp only [encOps_cons, encodeOperand, List.cons_append, List.nil_append, h16, if_true, hlook, Option.filter, hctx,
    Bool.not_false, nested_T G hn hok]

/-! ### one logical operand, and the loop -/

/-- where `OpSpecConstantOp`'s embedded operation may stand in an entry: last and not variadic -/
def specLast (G : Tables) : List (Nat × Nat) → Bool
  | [] => true
  | (k, q) :: rest => (!(k == G.kSpecOp) || (rest.isEmpty && !(q == 2))) && specLast G rest

theorem one_T (G : Tables) (hc : coreKindsOk G = true) (τ : Tracker) (opcode : Nat) (rt : Option Nat) (pre : List Operand)
    (k : Nat) (g : List Operand) (h : OneT G τ opcode rt pre k g)
    (hres : (k == G.kIdResultType) = false ∧ (k == G.kIdResult) = false)
    (hk : (isCtxKind G k || kindOk G k) = true) (a : Acc) (hart : a.rtype = rt) (haops : a.ops = pre) (r' : List Nat)
    (hr' : (k == G.kSpecOp) = true → r' = []) :
    Spec.one G τ opcode k a (encOps g ++ r') = some ({ a with ops := a.ops ++ g }, r') ∧ encOps g ≠ [] := by
  unfold OneT at h
  unfold Spec.one
  simp only [hres.1, hres.2, Bool.false_eq_true, if_false]
  by_cases h1 : (k == G.kCtxNumber) = true
  · simp only [h1, if_true] at h ⊢
    obtain ⟨hop, ty, o, hty, rfl, hl⟩ := h
    have hop' : (!(opcode == G.opConstant || opcode == G.opSpecConstant)) = false := by simp [hop]
    simp only [hop', Bool.false_eq_true, if_false, hart, hty]
    have : encOps [o] = encodeOperand o := by simp [encOps]
    rw [this, literal_T G τ ty o hl r']
    exact ⟨rfl, encodeOperand_ne o⟩
  · simp only [h1, Bool.false_eq_true, if_false] at h ⊢
    by_cases h2 : (k == G.kPairLitId) = true
    · simp only [h2, if_true] at h ⊢
      obtain ⟨hop, sel, tl, lit, tgt, hpre, rfl, hl⟩ := h
      have hop' : (opcode != G.opSwitch) = false := by simp [bne, hop]
      simp only [hop', Bool.false_eq_true, if_false, haops, hpre]
      have hv : (G.vIdRef != G.vIdRef) = false := by simp
      simp only [hv, Bool.false_eq_true, if_false]
      have : encOps [lit, .w G.vIdRef tgt] ++ r' = encodeOperand lit ++ (tgt :: r') := by simp [encOps, encodeOperand]
      rw [this, literal_T G τ sel lit hl (tgt :: r')]
      refine ⟨rfl, ?_⟩
      simp [encOps, encodeOperand]
    · simp only [h2, Bool.false_eq_true, if_false] at h ⊢
      by_cases h3 : (k == G.kSpecOp) = true
      · simp only [h3, if_true] at h ⊢
        obtain ⟨hs, hne⟩ := specOp_T G hc g h
        rw [hr' h3, List.append_nil, hs]
        exact ⟨rfl, encOps_ne g hne⟩
      · simp only [h3, Bool.false_eq_true, if_false] at h ⊢
        have hkk : kindOk G k = true := by
          simp only [isCtxKind, h1, h2, h3, Bool.or_self, Bool.false_or] at hk
          exact hk
        rw [operand_T G k g h r']
        exact ⟨rfl, encOps_ne g (operand_T_ne G k hkk g h)⟩

theorem loopT_nil {G : Tables} {τ : Tracker} {opcode : Nat} {rt : Option Nat} {pre os : List Operand}
    (h : LoopT G τ opcode rt [] pre os) : os = [] := by
  cases h; rfl

theorem loop_T (G : Tables) (hc : coreKindsOk G = true) (τ : Tracker) (opcode : Nat) (rt : Option Nat)
    {ops : List (Nat × Nat)} {pre os : List Operand} (h : LoopT G τ opcode rt ops pre os) :
    NoRes G ops → KindsOk G ops → specLast G ops = true → ∀ (a : Acc), a.rtype = rt → a.ops = pre →
    ∀ fuel, ops.length + (encOps os).length < fuel →
      Spec.loop G τ opcode fuel ops a (encOps os) = some ({ a with ops := pre ++ os }, []) := by
  induction h with
  | @nil pre =>
    intro _ _ _ a _ haops fuel hf
    cases fuel with
    | zero => exact absurd hf (Nat.not_lt_zero _)
    | succ f =>
      simp only [Spec.loop, encOps, List.flatMap_nil, List.append_nil, ← haops]
  | @stop k q rest pre hq =>
    intro _ _ _ a _ haops fuel hf
    cases fuel with
    | zero => exact absurd hf (Nat.not_lt_zero _)
    | succ f =>
      simp only [Spec.loop, encOps, List.flatMap_nil, List.isEmpty_nil, Bool.not_true, Bool.false_eq_true, if_false, hq,
        List.append_nil, ← haops]
  | @step k q rest pre g os hq hone _ ih =>
    intro hnr hko hsl a hart haops fuel hf
    have hres := hnr (k, q) (by simp)
    have hkk := hko (k, q) (by simp)
    simp only [hres.1, hres.2, Bool.false_or] at hkk
    simp only [specLast, Bool.and_eq_true, Bool.or_eq_true, Bool.not_eq_true'] at hsl
    have hos : (k == G.kSpecOp) = true → encOps os = [] := by
      intro hs
      rcases hsl.1 with h' | h'
      · rw [hs] at h'; cases h'
      · have : rest = [] := by simpa using h'.1
        subst this
        rename_i hl
        rw [loopT_nil hl]; rfl
    obtain ⟨h1, hne⟩ := one_T G hc τ opcode rt pre k g hone hres hkk a hart haops (encOps os) hos
    cases fuel with
    | zero => exact absurd hf (Nat.not_lt_zero _)
    | succ f =>
      unfold Spec.loop
      rw [encOps_append] at hf ⊢
      have hnil : (encOps g ++ encOps os).isEmpty = false := by
        cases hx : encOps g with
        | nil => exact absurd hx hne
        | cons _ _ => rfl
      simp only [hnil, Bool.not_false, if_true, h1, hq, Bool.false_eq_true, if_false]
      have := ih (fun o ho => hnr o (List.mem_cons_of_mem _ ho)) (fun o ho => hko o (List.mem_cons_of_mem _ ho)) hsl.2
        { a with ops := a.ops ++ g } hart (by simp [haops]) f (by
          simp only [List.length_cons, List.length_append] at hf
          have := List.length_pos_iff.2 hne
          omega)
      rw [this]
      simp [List.append_assoc]
  | @rep k q rest pre g os hq hone _ ih =>
    intro hnr hko hsl a hart haops fuel hf
    have hres := hnr (k, q) (by simp)
    have hkk := hko (k, q) (by simp)
    simp only [hres.1, hres.2, Bool.false_or] at hkk
    have hsl' := hsl
    simp only [specLast, Bool.and_eq_true, Bool.or_eq_true, Bool.not_eq_true'] at hsl'
    have hos : (k == G.kSpecOp) = true → encOps os = [] := by
      intro hs
      rcases hsl'.1 with h' | h'
      · rw [hs] at h'; cases h'
      · rw [hq] at h'; cases h'.2
    obtain ⟨h1, hne⟩ := one_T G hc τ opcode rt pre k g hone hres hkk a hart haops (encOps os) hos
    cases fuel with
    | zero => exact absurd hf (Nat.not_lt_zero _)
    | succ f =>
      unfold Spec.loop
      rw [encOps_append] at hf ⊢
      have hnil : (encOps g ++ encOps os).isEmpty = false := by
        cases hx : encOps g with
        | nil => exact absurd hx hne
        | cons _ _ => rfl
      simp only [hnil, Bool.not_false, if_true, h1, hq]
      have := ih hnr hko hsl { a with ops := a.ops ++ g } hart (by simp [haops]) f (by
          simp only [List.length_cons, List.length_append] at hf ⊢
          have := List.length_pos_iff.2 hne
          omega)
      rw [this]
      simp [List.append_assoc]

/-! ### the instruction -/

theorem noRes_filter (G : Tables) (ops : List (Nat × Nat)) (h : NoRes G ops) :
    ops.filter (fun o => !isRes G o.1) = ops := by
  apply List.filter_eq_self.2
  intro o ho
  have := h o ho
  simp [isRes, this.1, this.2]

theorem noRes_any (G : Tables) (ops : List (Nat × Nat)) (h : NoRes G ops) :
    ops.any (fun o => o.1 == G.kIdResultType) = false ∧ ops.any (fun o => o.1 == G.kIdResult) = false := by
  constructor <;> (simp only [List.any_eq_false]; intro o ho; have := h o ho; simp [this.1, this.2])

theorem specLast_tail {G : Tables} {o : Nat × Nat} {t : List (Nat × Nat)} (h : specLast G (o :: t) = true) :
    specLast G t = true := by
  obtain ⟨k, q⟩ := o
  simp only [specLast, Bool.and_eq_true] at h
  exact h.2

theorem acc_eta (a : Acc) : ({ a with ops := a.ops } : Acc) = a := by cases a; rfl

/-- the operand words of a conforming instruction are consumed by the logical operands of its entry -/
theorem lead_T (G : Tables) (hc : coreKindsOk G = true) (hne : (G.kIdResult == G.kIdResultType) = false) (τ : Tracker)
    (opcode : Nat) (ops : List (Nat × Nat)) (rt rid : Option Nat) (os : List Operand)
    (hlead : LeadOk G ops ⟨none, none, []⟩) (hko : KindsOk G ops) (hsl : specLast G ops = true)
    (hrt : rt.isSome = ops.any (fun o => o.1 == G.kIdResultType))
    (hrid : rid.isSome = ops.any (fun o => o.1 == G.kIdResult))
    (hloop : LoopT G τ opcode rt (ops.filter (fun o => !isRes G o.1)) [] os) :
    ∀ fuel, ops.length + (rt.toList ++ rid.toList ++ encOps os).length < fuel →
      Spec.loop G τ opcode fuel ops ⟨none, none, []⟩ (rt.toList ++ rid.toList ++ encOps os) = some (⟨rt, rid, os⟩, []) := by
  have hne' : ∀ k, (k == G.kIdResultType) = true → (k == G.kIdResult) = false := by
    intro k hk
    have := eq_of_beq hk
    subst this
    cases hx : (G.kIdResultType == G.kIdResult) with
    | false => rfl
    | true => have := eq_of_beq hx; rw [← this] at hne; simp at hne
  -- the tail without result kinds
  have tail : ∀ (ops' : List (Nat × Nat)) (a : Acc), NoRes G ops' → KindsOk G ops' → specLast G ops' = true →
      a.rtype = rt → a.ops = [] → LoopT G τ opcode rt ops' [] os → ∀ fuel, ops'.length + (encOps os).length < fuel →
      Spec.loop G τ opcode fuel ops' a (encOps os) = some (⟨rt, a.rid, os⟩, []) := by
    intro ops' a h1 h2 h3 h4 h5 h6 fuel hf
    have := loop_T G hc τ opcode rt h6 h1 h2 h3 a h4 h5 fuel hf
    rw [this]
    cases a
    simp_all
  intro fuel hf
  cases ops with
  | nil =>
    simp only [List.any_nil, Option.isSome_eq_false_iff, Option.isNone_iff_eq_none] at hrt hrid
    subst hrt hrid
    simp only [List.filter_nil] at hloop
    have := tail [] ⟨none, none, []⟩ (by intro o ho; cases ho) (by intro o ho; cases ho) rfl rfl rfl hloop fuel
      (by simpa using hf)
    simpa using this
  | cons o t =>
    obtain ⟨k, q⟩ := o
    by_cases hk1 : (k == G.kIdResultType) = true
    · -- result type first
      have hk1' := hne' k hk1
      simp only [LeadOk, hk1, if_true] at hlead
      obtain ⟨hq, _, _, _, hrest⟩ := hlead
      have : rt.isSome = true := by rw [hrt]; simp [hk1]
      obtain ⟨tv, rfl⟩ := Option.isSome_iff_exists.1 this
      cases fuel with
      | zero => exact absurd hf (Nat.not_lt_zero _)
      | succ f =>
        unfold Spec.loop
        simp only [Option.toList, List.cons_append, List.nil_append, List.isEmpty_cons, Bool.not_false, if_true,
          Spec.one, hk1]
        have hq2 : (q == 2) = false := by subst hq; rfl
        simp only [hq2, Bool.false_eq_true, if_false]
        cases t with
        | nil =>
          simp only [List.any_cons, hk1', List.any_nil, Bool.or_false, Option.isSome_eq_false_iff,
            Option.isNone_iff_eq_none] at hrid
          subst hrid
          have hfil : ([(k, q)] : List (Nat × Nat)).filter (fun o => !isRes G o.1) = [] := by simp [isRes, hk1]
          rw [hfil] at hloop
          have := tail [] ⟨some tv, none, []⟩ (by intro o ho; cases ho) (by intro o ho; cases ho) rfl rfl rfl hloop f
            (by simp only [List.length_cons, List.length_nil, Option.toList, List.length_append] at hf ⊢; omega)
          simpa using this
        | cons o2 t2 =>
          obtain ⟨k2, q2⟩ := o2
          dsimp only at hrest
          by_cases hk22 : (k2 == G.kIdResult) = true
          · simp only [hk22, if_true] at hrest
            obtain ⟨hq2', hnr⟩ := hrest
            have hk21 : (k2 == G.kIdResultType) = false := by
              cases hx : (k2 == G.kIdResultType) with
              | false => rfl
              | true => have := hne' k2 hx; rw [hk22] at this; cases this
            have : rid.isSome = true := by rw [hrid]; simp [hk22]
            obtain ⟨rv, rfl⟩ := Option.isSome_iff_exists.1 this
            cases f with
            | zero => simp only [List.length_cons, Option.toList, List.length_append] at hf; omega
            | succ f2 =>
              unfold Spec.loop
              simp only [Option.toList, List.cons_append, List.nil_append, List.isEmpty_cons, Bool.not_false, if_true,
                Spec.one, hk21, hk22, Bool.false_eq_true, if_false]
              have hq22 : (q2 == 2) = false := by subst hq2'; rfl
              simp only [hq22, Bool.false_eq_true, if_false]
              have hfil : ((k, q) :: (k2, q2) :: t2).filter (fun o => !isRes G o.1) = t2 := by
                simp only [List.filter_cons, isRes, hk1, hk22, Bool.true_or, Bool.or_true, Bool.not_true,
                  Bool.false_eq_true, if_false]
                exact noRes_filter G t2 hnr
              rw [hfil] at hloop
              have := tail t2 ⟨some tv, some rv, []⟩ hnr
                (fun o ho => hko o (List.mem_cons_of_mem _ (List.mem_cons_of_mem _ ho)))
                (specLast_tail (specLast_tail hsl)) rfl rfl hloop f2
                (by simp only [List.length_cons, Option.toList, List.length_append] at hf ⊢; omega)
              simpa using this
          · simp only [hk22, Bool.false_eq_true, if_false] at hrest
            have hany := noRes_any G _ hrest
            simp only [List.any_cons, hk1', Bool.false_or] at hrid
            have hrid' : rid = none := by
              have : rid.isSome = false := by rw [hrid]; exact hany.2
              simpa using this
            subst hrid'
            have hfil : ((k, q) :: (k2, q2) :: t2).filter (fun o => !isRes G o.1) = (k2, q2) :: t2 := by
              rw [List.filter_cons]
              simp only [isRes, hk1, Bool.true_or, Bool.not_true, Bool.false_eq_true, if_false]
              exact noRes_filter G _ hrest
            rw [hfil] at hloop
            have := tail ((k2, q2) :: t2) ⟨some tv, none, []⟩ hrest
              (fun o ho => hko o (List.mem_cons_of_mem _ ho)) (specLast_tail hsl) rfl rfl hloop f
              (by simp only [List.length_cons, Option.toList, List.length_append, List.length_nil] at hf ⊢; omega)
            simpa using this
    · by_cases hk2 : (k == G.kIdResult) = true
      · simp only [LeadOk, hk1, hk2, Bool.false_eq_true, if_false, if_true] at hlead
        obtain ⟨hq, _, _, hnr⟩ := hlead
        have hany := noRes_any G _ hnr
        have hrt' : rt = none := by
          have : rt.isSome = false := by rw [hrt]; simp [hk1, hany.1]
          simpa using this
        subst hrt'
        have : rid.isSome = true := by rw [hrid]; simp [hk2]
        obtain ⟨rv, rfl⟩ := Option.isSome_iff_exists.1 this
        cases fuel with
        | zero => exact absurd hf (Nat.not_lt_zero _)
        | succ f =>
          unfold Spec.loop
          simp only [Option.toList, List.cons_append, List.nil_append, List.isEmpty_cons, Bool.not_false, if_true,
            Spec.one, hk1, hk2, Bool.false_eq_true, if_false]
          have hq2 : (q == 2) = false := by subst hq; rfl
          simp only [hq2, Bool.false_eq_true, if_false]
          have hfil : ((k, q) :: t).filter (fun o => !isRes G o.1) = t := by
            rw [List.filter_cons]
            simp only [isRes, hk2, Bool.or_true, Bool.not_true, Bool.false_eq_true, if_false]
            exact noRes_filter G _ hnr
          rw [hfil] at hloop
          have := tail t ⟨none, some rv, []⟩ hnr (fun o ho => hko o (List.mem_cons_of_mem _ ho)) (specLast_tail hsl)
            rfl rfl hloop f
            (by simp only [List.length_cons, Option.toList, List.length_append, List.length_nil] at hf ⊢; omega)
          simpa using this
      · simp only [LeadOk, hk1, hk2, Bool.false_eq_true, if_false] at hlead
        have hany := noRes_any G _ hlead
        have hrt' : rt = none := by
          have : rt.isSome = false := by rw [hrt]; exact hany.1
          simpa using this
        have hrid' : rid = none := by
          have : rid.isSome = false := by rw [hrid]; exact hany.2
          simpa using this
        subst hrt' hrid'
        rw [noRes_filter G _ hlead] at hloop
        have := tail ((k, q) :: t) ⟨none, none, []⟩ hlead hko hsl rfl rfl hloop fuel (by simpa using hf)
        simpa using this

/-- the table facts the typing theorems need, on top of `GoodTables` -/
structure TypedTables (G : Tables) : Prop where
  good : GoodTables G
  specLast : ∀ e ∈ G.core, specLast G e.ops = true
  op16 : ∀ e ∈ G.core, e.opcode < 65536

/-- **C02 (typing judgement).** An instruction that conforms to the grammar is read back by the recogniser from the words
the assembler emits for it, followed by any continuation. -/
theorem typed_spec (G : Tables) (tt : TypedTables G) (τ : Tracker) (i : Inst) (h : InstT G τ i) (r' : List Nat) :
    Spec.inst G τ (assembleInst i ++ r') = some (i, r') := by
  obtain ⟨e, hlook, hrt, hrid, hloop, hlen⟩ := h
  obtain ⟨hmem, hop⟩ := lookupOpcode_some _ _ _ hlook
  have good := tt.good
  have hkinds : KindsOk G e.ops := by
    have := good.kinds
    simp only [coreKindsOk, List.all_eq_true] at this
    exact fun o ho => this e hmem o ho
  have hl := lead_T G good.kinds good.distinct τ i.opcode e.ops i.rtype i.rid i.operands
    (leadOk_of_resultsLead G e.ops (good.lead e hmem)) hkinds (tt.specLast e hmem) hrt hrid hloop
  have hbody : i.rtype.toList ++ i.rid.toList ++ encOps i.operands = accWords ⟨i.rtype, i.rid, i.operands⟩ := rfl
  have hasm : assembleInst i = (i.opcode ||| ((accWords ⟨i.rtype, i.rid, i.operands⟩).length + 1) * 65536 % 4294967296) ::
      accWords ⟨i.rtype, i.rid, i.operands⟩ := by
    simp [assembleInst, accWords, encOps]
  rw [hasm] at hlen ⊢
  simp only [List.length_cons] at hlen
  have hop16 : i.opcode < 65536 := by rw [← hop]; exact tt.op16 e hmem
  obtain ⟨f1, f2⟩ := first_word i.opcode ((accWords ⟨i.rtype, i.rid, i.operands⟩).length + 1) hop16 hlen
  unfold Spec.inst
  simp only [List.cons_append, f1, f2, hlook]
  have hwc' : ((accWords ⟨i.rtype, i.rid, i.operands⟩).length + 1 == 0) = false := by simp
  simp only [hwc', Bool.false_eq_true, if_false, Nat.add_sub_cancel, List.length_append]
  have hnl : ¬ ((accWords ⟨i.rtype, i.rid, i.operands⟩).length + r'.length < (accWords ⟨i.rtype, i.rid, i.operands⟩).length) := by
    omega
  simp only [hnl, if_false, List.take_left' rfl, List.drop_left' rfl]
  rw [← hbody, hop, hl _ (by rw [hbody]; omega)]

/-- a conforming instruction is an instruction of the grammar in the recogniser's sense -/
theorem typed_grammar (G : Tables) (tt : TypedTables G) (τ : Tracker) (i : Inst) (h : InstT G τ i) :
    (∃ ws rest, Spec.inst G τ ws = some (i, rest)) ∧ (assembleInst i).length < 65536 :=
  ⟨⟨assembleInst i ++ [], [], typed_spec G tt τ i h []⟩, h.choose_spec.2.2.2.2⟩

/-- a sequence of conforming instructions, the type tracker following the sequence -/
def TypedStream (G : Tables) : Tracker → List Inst → Prop
  | _, [] => True
  | τ, i :: t => InstT G τ i ∧ ∃ τ1, τ.track G.tt i = some τ1 ∧ TypedStream G τ1 t

end Rspirv.Props.C02Typed
