import Rspirv.Props.ParserSpec
/-!
# Where a parse error points

Every error an operand-level routine returns carries a byte offset between the routine's starting offset and the end of
the words its limit allows (`ErrAt`), and, when it names an instruction, names the instruction number it was given.
`parseInst_errAt`: the error of `parse_inst` points into the declared extent `[start, start + 4 * word count]` of the
instruction it was reading and carries the number it was called with.
-/
namespace Rspirv.Props.ParserErr
open Rspirv Rspirv.Model Rspirv.Model.DState Rspirv.Props.C11 Rspirv.Props.ParserSpec

def DErr.offset : DErr → Nat
  | .streamExpected o => o
  | .limitReached o => o
  | .decodeStringFailed o => o
  | .unknown _ o _ => o

/-- the error points into `[lo, hi]` and, if it names an instruction, names `idx` -/
def ErrAt (lo hi idx : Nat) : IErr → Prop
  | .complete => True
  | .wordCountZero o i => lo ≤ o ∧ o ≤ hi ∧ i = idx
  | .opcodeUnknown o i _ => lo ≤ o ∧ o ≤ hi ∧ i = idx
  | .operandExpected o i => lo ≤ o ∧ o ≤ hi ∧ i = idx
  | .operandExceeded o i => lo ≤ o ∧ o ≤ hi ∧ i = idx
  | .typeUnsupported o i => lo ≤ o ∧ o ≤ hi ∧ i = idx
  | .specConstantOpIntegerIncorrect o i => lo ≤ o ∧ o ≤ hi ∧ i = idx
  | .operandError x => lo ≤ DErr.offset x ∧ DErr.offset x ≤ hi

theorem ErrAt.mono {lo hi lo' hi' idx : Nat} {e : IErr} (h : ErrAt lo hi idx e) (h1 : lo' ≤ lo) (h2 : hi ≤ hi') :
    ErrAt lo' hi' idx e := by
  cases e <;> simp only [ErrAt] at h ⊢ <;> omega

/-- errors of a routine started at `d` under limit `l` -/
def Bounded {α : Type} (idx : Nat) (d : DState) (r : PRes IErr α × DState) : Prop :=
  ∀ l, d.limit = some l → ∀ e d', r = (.err e, d') → ErrAt d.offset (d.offset + 4 * l) idx e

/-- continuing from a state reached on a successful path keeps the bounds of the start -/
theorem Bounded.after {α : Type} {idx : Nat} {d d1 : DState} {r : PRes IErr α × DState} (k : Keeps d d1)
    (h : Bounded idx d1 r) : Bounded idx d r := by
  intro l hl e d' he
  obtain ⟨l1, hl1, hp⟩ := k.pos l hl
  have := h l1 hl1 e d' he
  exact this.mono k.mono (by omega)

theorem word_err (d : DState) (x : DErr) (d' : DState) (h : word d = (.err x, d')) (l : Nat) (_ : d.limit = some l) :
    d.offset ≤ DErr.offset x ∧ DErr.offset x ≤ d.offset + 4 * l := by
  obtain ⟨_, hx⟩ := word_fail_offset d x d' h
  rcases hx with rfl | rfl <;> simp [DErr.offset]

theorem string_err (d : DState) (x : DErr) (d' : DState) (h : DState.string d = (.err x, d')) (l : Nat)
    (hl : d.limit = some l) : d.offset ≤ DErr.offset x ∧ DErr.offset x ≤ d.offset + 4 * l := by
  unfold DState.string at h
  rw [hl] at h
  generalize (if d.offset ≤ d.bytes.length then d.bytes.drop d.offset else []) = rest at h
  have hw : strWindow (some l) rest.length ≤ 4 * l := by simp only [strWindow]; omega
  dsimp only at h
  split at h
  · cases h
  · split at h
    · split at h
      · cases h
        simp only [DErr.offset, List.length_take]
        omega
      · cases h; simp [DErr.offset]
    · split at h
      · cases h
      · split at h
        · cases h; simp [DErr.offset]
        · split at h
          · cases h; simp [DErr.offset]
          · split at h
            · cases h
            · split at h <;> cases h

theorem enum_err (E : EnumSpec) (ev : Nat) (d : DState) (x : DErr) (d' : DState) (h : DState.enum E ev d = (.err x, d'))
    (l : Nat) (hl : d.limit = some l) : d.offset ≤ DErr.offset x ∧ DErr.offset x ≤ d.offset + 4 * l := by
  unfold DState.enum at h
  cases hw : word d with
  | mk r d1 =>
    rw [hw] at h
    cases r with
    | ok w =>
      have k := word_keeps d w d1 hw
      obtain ⟨l1, _, hp⟩ := k.pos l hl
      have hm := k.mono
      have h4 : d1.offset = d.offset + 4 := by
        rcases word_spec d with ⟨_, hw'⟩ | ⟨_, _, hw'⟩ | ⟨_, _, hw'⟩ <;> rw [hw'] at hw <;> cases hw
        rfl
      dsimp only at h
      split at h
      · cases h
      · split at h
        · cases h
        · have hx : x = .unknown ev (d1.offset - 4) w := by cases h; rfl
          rw [hx]
          simp only [DErr.offset]
          omega
    | err e =>
      dsimp only at h
      obtain ⟨ho, _⟩ := word_fail_offset d e d1 hw
      have hx : x = .streamExpected d1.offset := by cases h; rfl
      rw [hx]
      simp only [DErr.offset, ho]
      omega
    | panic _ => cases h

theorem mask_err (M : MaskSpec) (ev : Nat) (d : DState) (x : DErr) (d' : DState) (h : DState.mask M ev d = (.err x, d'))
    (l : Nat) (hl : d.limit = some l) : d.offset ≤ DErr.offset x ∧ DErr.offset x ≤ d.offset + 4 * l := by
  unfold DState.mask at h
  cases hw : word d with
  | mk r d1 =>
    rw [hw] at h
    cases r with
    | ok w =>
      have k := word_keeps d w d1 hw
      obtain ⟨l1, _, hp⟩ := k.pos l hl
      have h4 : d1.offset = d.offset + 4 := by
        rcases word_spec d with ⟨_, hw'⟩ | ⟨_, _, hw'⟩ | ⟨_, _, hw'⟩ <;> rw [hw'] at hw <;> cases hw
        rfl
      dsimp only at h
      split at h
      · cases h
      · split at h
        · cases h
        · have hx : x = .unknown ev (d1.offset - 4) w := by cases h; rfl
          rw [hx]
          simp only [DErr.offset]
          omega
    | err e =>
      dsimp only at h
      obtain ⟨ho, _⟩ := word_fail_offset d e d1 hw
      have hx : x = .streamExpected d1.offset := by cases h; rfl
      rw [hx]
      simp only [DErr.offset, ho]
      omega
    | panic _ => cases h

theorem decodeElem_bounded (G : Tables) (idx : Nat) (e : Elem) (d : DState) : Bounded idx d (decodeElem G e d) := by
  intro l hl err d' h
  unfold decodeElem at h
  split at h
  · split at h
    · rename_i E _
      cases hr : DState.enum E e.ev d with
      | mk r d1 =>
        rw [hr] at h
        cases r with
        | ok _ => cases h
        | err x => cases h; exact enum_err E e.ev d x _ hr l hl
        | panic _ => cases h
    · cases h
  · split at h
    · split at h
      · rename_i M _
        cases hr : DState.mask M e.ev d with
        | mk r d1 =>
          rw [hr] at h
          cases r with
          | ok _ => cases h
          | err x => cases h; exact mask_err M e.ev d x _ hr l hl
          | panic _ => cases h
      · cases h
    · split at h
      · cases hr : word d with
        | mk r d1 =>
          rw [hr] at h
          cases r with
          | ok _ => cases h
          | err x => cases h; exact word_err d x _ hr l hl
          | panic _ => cases h
      · cases hr : DState.string d with
        | mk r d1 =>
          rw [hr] at h
          cases r with
          | ok _ => cases h
          | err x => cases h; exact string_err d x _ hr l hl
          | panic _ => cases h

theorem decodeElems_bounded (G : Tables) (idx : Nat) : ∀ (es : List Elem) (d : DState), C11.Inv d → Small d →
    Bounded idx d (decodeElems G es d)
  | [], d, _, _ => by intro l _ e d' h; simp only [decodeElems] at h; cases h
  | el :: es, d, hi, hs => by
    intro l hl e d' h
    unfold decodeElems at h
    cases hr : decodeElem G el d with
    | mk r d1 =>
      rw [hr] at h
      cases r with
      | ok o =>
        have k1 := decodeElem_keeps G el d hi hs o d1 hr
        dsimp only at h
        cases hr2 : decodeElems G es d1 with
        | mk r2 d2 =>
          rw [hr2] at h
          cases r2 with
          | ok _ => cases h
          | err x =>
            dsimp only at h; cases h
            exact (Bounded.after k1 (decodeElems_bounded G idx es d1 (k1.inv hi) (k1.small hs))) l hl _ _ hr2
          | panic _ => cases h
      | err x => cases h; exact decodeElem_bounded G idx el d l hl _ _ hr
      | panic _ => cases h

theorem parseOperand_bounded (G : Tables) (idx k : Nat) (d : DState) (hi : C11.Inv d) (hs : Small d) :
    Bounded idx d (parseOperand G k d) := by
  intro l hl e d' h
  unfold parseOperand at h
  split at h
  · cases h
  · cases h
  · exact decodeElems_bounded G idx _ d hi hs l hl e d' h
  · rename_i el rows _
    cases hr : decodeElem G el d with
    | mk r d1 =>
      rw [hr] at h
      cases r with
      | ok v =>
        have k1 := decodeElem_keeps G el d hi hs v d1 hr
        dsimp only at h
        cases hr2 : decodeElems G (maskSel rows v.num) d1 with
        | mk r2 d2 =>
          rw [hr2] at h
          cases r2 with
          | ok _ => cases h
          | err x =>
            dsimp only at h; cases h
            exact (Bounded.after k1 (decodeElems_bounded G idx _ d1 (k1.inv hi) (k1.small hs))) l hl _ _ hr2
          | panic _ => cases h
      | err x => cases h; exact decodeElem_bounded G idx el d l hl _ _ hr
      | panic _ => cases h
  · rename_i el rows _
    cases hr : decodeElem G el d with
    | mk r d1 =>
      rw [hr] at h
      cases r with
      | ok v =>
        have k1 := decodeElem_keeps G el d hi hs v d1 hr
        dsimp only at h
        cases hr2 : decodeElems G (enumSel rows v.num) d1 with
        | mk r2 d2 =>
          rw [hr2] at h
          cases r2 with
          | ok _ => cases h
          | err x =>
            dsimp only at h; cases h
            exact (Bounded.after k1 (decodeElems_bounded G idx _ d1 (k1.inv hi) (k1.small hs))) l hl _ _ hr2
          | panic _ => cases h
      | err x => cases h; exact decodeElem_bounded G idx el d l hl _ _ hr
      | panic _ => cases h

theorem parseLiteral_bounded (G : Tables) (τ : Tracker) (idx ty : Nat) (d : DState) :
    Bounded idx d (parseLiteral G τ idx ty d) := by
  have h1 : Bounded idx d (litOne G d) := by
    intro l hl e d' h
    unfold litOne at h
    cases hw : word d with
    | mk r d1 =>
      rw [hw] at h
      cases r with
      | ok _ => cases h
      | err x => cases h; exact word_err d x _ hw l hl
      | panic _ => cases h
  have h2 : Bounded idx d (litTwo d) := by
    intro l hl e d' h
    unfold litTwo bit64 at h
    cases hw : word d with
    | mk r d1 =>
      rw [hw] at h
      cases r with
      | ok lo =>
        have k1 := word_keeps d lo d1 hw
        obtain ⟨l1, hl1, hp⟩ := k1.pos l hl
        dsimp only at h
        cases hw2 : word d1 with
        | mk r2 d2 =>
          rw [hw2] at h
          cases r2 with
          | ok _ => cases h
          | err x =>
            dsimp only at h
            have := word_err d1 x _ hw2 l1 hl1
            have hm := k1.mono
            have he : e = .operandError x := by cases h; rfl
            rw [he]
            simp only [ErrAt]; omega
          | panic _ => cases h
      | err x => dsimp only at h; cases h; exact word_err d x _ hw l hl
      | panic _ => cases h
  intro l hl e d' h
  unfold parseLiteral at h
  split at h
  · split at h
    · exact h1 l hl e d' h
    · split at h
      · exact h2 l hl e d' h
      · cases h; simp [ErrAt]
  · split at h
    · exact h1 l hl e d' h
    · split at h
      · exact h2 l hl e d' h
      · cases h; simp [ErrAt]
  · exact h1 l hl e d' h

theorem parseMany_bounded (G : Tables) (idx k : Nat) : ∀ (fuel : Nat) (d : DState), C11.Inv d → Small d →
    Bounded idx d (parseMany G k fuel d)
  | 0, d, _, _ => by intro l _ e d' h; simp only [parseMany] at h; cases h
  | fuel + 1, d, hi, hs => by
    intro l hl e d' h
    unfold parseMany at h
    split at h
    · cases h
    · cases hr : parseOperand G k d with
      | mk r d1 =>
        rw [hr] at h
        cases r with
        | ok os =>
          have k1 := parseOperand_keeps G k d hi hs os d1 hr
          dsimp only at h
          cases hr2 : parseMany G k fuel d1 with
          | mk r2 d2 =>
            rw [hr2] at h
            cases r2 with
            | ok _ => cases h
            | err x =>
              dsimp only at h; cases h
              exact (Bounded.after k1 (parseMany_bounded G idx k fuel d1 (k1.inv hi) (k1.small hs))) l hl _ _ hr2
            | panic _ => cases h
        | err x => dsimp only at h; cases h; exact parseOperand_bounded G idx k d hi hs l hl _ _ hr
        | panic _ => cases h

theorem parseNested_bounded (G : Tables) (idx : Nat) : ∀ (ops : List (Nat × Nat)) (d : DState), C11.Inv d → Small d →
    Bounded idx d (parseNested G ops d)
  | [], d, _, _ => by intro l _ e d' h; simp only [parseNested] at h; cases h
  | (k, q) :: rest, d, hi, hs => by
    intro l hl e d' h
    unfold parseNested at h
    split at h
    · exact parseNested_bounded G idx rest d hi hs l hl e d' h
    · have hhere : Bounded idx d (if q == 0 then parseOperand G k d
               else if q == 1 then (if d.limitReached then (.ok [], d) else parseOperand G k d)
               else parseMany G k ((d.limit.getD 0) + 1) d) := by
        intro l' hl' e' d'' he
        split at he
        · exact parseOperand_bounded G idx k d hi hs l' hl' e' d'' he
        · split at he
          · split at he
            · cases he
            · exact parseOperand_bounded G idx k d hi hs l' hl' e' d'' he
          · exact parseMany_bounded G idx k _ d hi hs l' hl' e' d'' he
      have hkeeps : ∀ os1 d1, (if q == 0 then parseOperand G k d
               else if q == 1 then (if d.limitReached then (.ok [], d) else parseOperand G k d)
               else parseMany G k ((d.limit.getD 0) + 1) d) = (.ok os1, d1) → Keeps d d1 := by
        intro os1 d1 he
        split at he
        · exact parseOperand_keeps G k d hi hs os1 d1 he
        · split at he
          · split at he
            · cases he; exact Keeps.refl d
            · exact parseOperand_keeps G k d hi hs os1 d1 he
          · exact parseMany_keeps G k _ d hi hs os1 d1 he
      generalize (if q == 0 then parseOperand G k d
               else if q == 1 then (if d.limitReached then (.ok [], d) else parseOperand G k d)
               else parseMany G k ((d.limit.getD 0) + 1) d) = here at h hhere hkeeps
      obtain ⟨r, d1⟩ := here
      cases r with
      | ok os1 =>
        have k1 := hkeeps os1 d1 rfl
        dsimp only at h
        cases hr2 : parseNested G rest d1 with
        | mk r2 d2 =>
          rw [hr2] at h
          cases r2 with
          | ok _ => cases h
          | err x =>
            dsimp only at h; cases h
            exact (Bounded.after k1 (parseNested_bounded G idx rest d1 (k1.inv hi) (k1.small hs))) l hl _ _ hr2
          | panic _ => cases h
      | err x => dsimp only at h; cases h; exact hhere l hl _ _ rfl
      | panic _ => cases h

theorem parseSpecConstantOp_bounded (G : Tables) (idx : Nat) (d : DState) (hi : C11.Inv d) (hs : Small d) :
    Bounded idx d (parseSpecConstantOp G idx d) := by
  intro l hl e d' h
  unfold parseSpecConstantOp at h
  cases hw : word d with
  | mk r d1 =>
    rw [hw] at h
    cases r with
    | err x => cases h; exact word_err d x _ hw l hl
    | panic _ => cases h
    | ok number =>
      have k1 := word_keeps d number d1 hw
      obtain ⟨l1, hl1, hp⟩ := k1.pos l hl
      have hm := k1.mono
      dsimp only at h
      split at h
      · rename_i ent _
        cases hr2 : parseNested G ent.ops d1 with
        | mk r2 d2 =>
          rw [hr2] at h
          cases r2 with
          | ok _ => cases h
          | err x =>
            dsimp only at h; cases h
            exact (Bounded.after k1 (parseNested_bounded G idx ent.ops d1 (k1.inv hi) (k1.small hs))) l hl _ _ hr2
          | panic _ => cases h
      · have he : e = .specConstantOpIntegerIncorrect d1.offset idx := by cases h; rfl
        rw [he]
        simp only [ErrAt]
        refine ⟨?_, ?_, ?_⟩ <;> first | trivial | omega

theorem parseOne_bounded (G : Tables) (τ : Tracker) (idx opcode k : Nat) (a : Acc) (d : DState) (hi : C11.Inv d)
    (hs : Small d) : Bounded idx d (parseOne G τ idx opcode k a d) := by
  intro l hl e d' h
  unfold parseOne at h
  split at h
  · cases hw : word d with
    | mk r d1 =>
      rw [hw] at h
      cases r with
      | ok _ => cases h
      | err x => cases h; exact word_err d x _ hw l hl
      | panic _ => cases h
  · split at h
    · cases hw : word d with
      | mk r d1 =>
        rw [hw] at h
        cases r with
        | ok _ => cases h
        | err x => cases h; exact word_err d x _ hw l hl
        | panic _ => cases h
    · split at h
      · split at h
        · cases h
        · split at h
          · cases h
          · rename_i ty _
            cases hr : parseLiteral G τ idx ty d with
            | mk r d1 =>
              rw [hr] at h
              cases r with
              | ok _ => cases h
              | err x => cases h; exact parseLiteral_bounded G τ idx ty d l hl _ _ hr
              | panic _ => cases h
      · split at h
        · split at h
          · cases h
          · split at h
            · cases h
            · split at h
              · split at h
                · cases h
                · rename_i sel _ _
                  cases hr : parseLiteral G τ idx sel d with
                  | mk r d1 =>
                    rw [hr] at h
                    cases r with
                    | ok lit =>
                      have k1 := parseLiteral_keeps G τ idx sel d lit d1 hr
                      obtain ⟨l1, hl1, hp⟩ := k1.pos l hl
                      have hm := k1.mono
                      dsimp only at h
                      cases hw : word d1 with
                      | mk r2 d2 =>
                        rw [hw] at h
                        cases r2 with
                        | ok _ => cases h
                        | err x =>
                          have := word_err d1 x _ hw l1 hl1
                          have he : e = .operandError x := by cases h; rfl
                          rw [he]
                          simp only [ErrAt]; omega
                        | panic _ => cases h
                    | err x => cases h; exact parseLiteral_bounded G τ idx sel d l hl _ _ hr
                    | panic _ => cases h
              · cases h
        · split at h
          · cases hr : parseSpecConstantOp G idx d with
            | mk r d1 =>
              rw [hr] at h
              cases r with
              | ok _ => cases h
              | err x => cases h; exact parseSpecConstantOp_bounded G idx d hi hs l hl _ _ hr
              | panic _ => cases h
          · cases hr : parseOperand G k d with
            | mk r d1 =>
              rw [hr] at h
              cases r with
              | ok _ => cases h
              | err x => cases h; exact parseOperand_bounded G idx k d hi hs l hl _ _ hr
              | panic _ => cases h

theorem loop_bounded (G : Tables) (τ : Tracker) (idx opcode : Nat) : ∀ (fuel : Nat) (ops : List (Nat × Nat)) (a : Acc)
    (d : DState), C11.Inv d → Small d → Bounded idx d (parseOperandsLoop G τ idx opcode fuel ops a d)
  | 0, _, _, _, _, _ => by intro l _ e d' h; simp only [parseOperandsLoop] at h; cases h
  | fuel + 1, [], a, d, _, _ => by intro l _ e d' h; simp only [parseOperandsLoop] at h; cases h
  | fuel + 1, (k, q) :: rest, a, d, hi, hs => by
    intro l hl e d' h
    unfold parseOperandsLoop at h
    split at h
    · cases hr : parseOne G τ idx opcode k a d with
      | mk r d1 =>
        rw [hr] at h
        cases r with
        | ok a1 =>
          have k1 := parseOne_keeps G τ idx opcode k a d hi hs a1 d1 hr
          dsimp only at h
          split at h
          · exact (Bounded.after k1 (loop_bounded G τ idx opcode fuel _ a1 d1 (k1.inv hi) (k1.small hs))) l hl _ _ h
          · exact (Bounded.after k1 (loop_bounded G τ idx opcode fuel _ a1 d1 (k1.inv hi) (k1.small hs))) l hl _ _ h
        | err x => dsimp only at h; cases h; exact parseOne_bounded G τ idx opcode k a d hi hs l hl _ _ hr
        | panic _ => cases h
    · split at h
      · cases h; simp [ErrAt]
      · cases h

/-- **where the error of `parse_inst` points.** Started between instructions at offset `start` on a whole first word `w0`,
an error other than `Complete` carries the instruction number `idx` (where the kind has one) and a byte offset inside
the instruction's declared extent `[start, start + 4 * (w0 >> 16)]`. -/
theorem parseInst_errAt (G : Tables) (τ : Tracker) (idx : Nat) (d : DState) (B : List Nat) (w0 : Nat) (t : List Nat)
    (hv : SView B d (w0 :: t)) (e : IErr) (d' : DState) (h : parseInst G τ idx d = (.err e, d')) :
    ErrAt d.offset (d.offset + 4 * (w0 / 65536)) idx e := by
  have hb := hv.bytes
  have hfits := hv.fits
  simp only [List.length_cons] at hfits
  have hw : word d = (.ok w0, { d with offset := d.offset + 4 }) := by
    rcases word_spec d with ⟨h0, _⟩ | ⟨_, _, hw⟩ | ⟨_, hb', _⟩
    · rw [hv.limit] at h0; cases h0
    · have h0 := hv.words 0 (by simp)
      simp only [Nat.mul_zero, Nat.add_zero, List.getD_eq_getElem?_getD, List.getElem?_cons_zero, Option.getD_some] at h0
      rw [hw, hb, h0, hv.limit]; rfl
    · rw [hb] at hb'; exact absurd (by omega) hb'
  unfold parseInst at h
  rw [hw] at h
  dsimp only at h
  split at h
  · rename_i hwc
    have he : e = .wordCountZero (d.offset + 4 - 4) idx := by cases h; rfl
    rw [he]
    simp only [ErrAt]
    refine ⟨?_, ?_, ?_⟩ <;> first | trivial | omega
  · rename_i hwc
    have hwc0 : w0 / 65536 ≠ 0 := by simpa using hwc
    split at h
    · rename_i ent _
      have hi2 : C11.Inv (DState.setLimit (w0 / 65536 - 1) { d with offset := d.offset + 4 }) := by
        unfold C11.Inv DState.setLimit; simp only; rw [hb]; omega
      have hs2 : Small (DState.setLimit (w0 / 65536 - 1) { d with offset := d.offset + 4 }) := by
        unfold Small DState.setLimit; simp only; rw [hb]; exact hv.small
      cases hr : parseOperandsLoop G τ idx ent.opcode (w0 / 65536 + ent.ops.length + 1) ent.ops ⟨none, none, []⟩
          (DState.setLimit (w0 / 65536 - 1) { d with offset := d.offset + 4 }) with
      | mk r d3 =>
        rw [hr] at h
        cases r with
        | ok a =>
          have kp := loop_keeps G τ idx ent.opcode _ _ _ _ hi2 hs2 a d3 hr
          obtain ⟨l3, _, hpos⟩ := kp.pos (w0 / 65536 - 1) rfl
          have hm := kp.mono
          simp only [DState.setLimit] at hpos hm
          dsimp only at h
          split at h
          · have he : e = .operandExceeded d3.offset idx := by cases h; rfl
            rw [he]
            simp only [ErrAt]
            refine ⟨?_, ?_, ?_⟩ <;> first | trivial | omega
          · cases h
        | err x =>
          dsimp only at h
          cases h
          have := loop_bounded G τ idx ent.opcode _ _ _ _ hi2 hs2 (w0 / 65536 - 1) rfl _ _ hr
          simp only [DState.setLimit] at this
          exact this.mono (by omega) (by omega)
        | panic _ => cases h
    · have he : e = .opcodeUnknown (d.offset + 4 - 4) idx (w0 % 65536) := by cases h; rfl
      rw [he]
      simp only [ErrAt]
      refine ⟨?_, ?_, ?_⟩ <;> first | trivial | omega

end Rspirv.Props.ParserErr
