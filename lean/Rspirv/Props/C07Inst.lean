import Rspirv.Props.C07
/-!
# C07 — an instruction line determines the instruction

The piecewise injectivity theorems of `Props/C07.lean` (operand tokens per variant, opcode names) put together: two
instructions of the grammar table whose operand lists have the same *shape* (the same operand variant position by
position — what a reader reconstructs from the opcode's grammar entry and the tokens' lexical classes) and whose payloads
are legal, and which `impl Disassemble for dr::Instruction` prints as the same line (before rendering to characters), are
the same instruction: same opcode, result id, result type and operands. Hence (`C07_insts_inj`) two instruction
sequences of the same shape printed as the same lines are equal.
-/
namespace Rspirv.Props.C07Inst
open Rspirv Rspirv.Model Rspirv.Props.C07

def SameShape : Operand → Operand → Prop
  | .w v _, .w v' _ => v = v'
  | .q _, .q _ => True
  | .s _, .s _ => True
  | _, _ => False

def ValidOperand (D : DisTables) : Operand → Prop
  | .w v x => ValidPayload D v x
  | _ => True

def SameShapes : List Operand → List Operand → Prop
  | [], [] => True
  | a :: as, b :: bs => SameShape a b ∧ SameShapes as bs
  | _, _ => False

theorem operand_inj (D : DisTables) (hv : vocabularyOk D = true) (o o' : Operand) (hs : SameShape o o')
    (h1 : ValidOperand D o) (h2 : ValidOperand D o') (h : operandTok D o = operandTok D o') : o = o' := by
  cases o with
  | w v x =>
    cases o' with
    | w v' x' =>
      simp only [SameShape] at hs
      subst hs
      rw [C07_operand_inj D hv v x x' h1 h2 h]
    | q _ => cases hs
    | s _ => cases hs
  | q x =>
    cases o' with
    | q x' => simp only [operandTok, Tok.num.injEq] at h; rw [h]
    | w _ _ => cases hs
    | s _ => cases hs
  | s b =>
    cases o' with
    | s b' => simp only [operandTok, Tok.str.injEq] at h; rw [h]
    | w _ _ => cases hs
    | q _ => cases hs

theorem operands_inj (D : DisTables) (hv : vocabularyOk D = true) : ∀ (os os' : List Operand), SameShapes os os' →
    (∀ o ∈ os, ValidOperand D o) → (∀ o ∈ os', ValidOperand D o) → os.map (operandTok D) = os'.map (operandTok D) →
    os = os'
  | [], [], _, _, _, _ => rfl
  | a :: as, b :: bs, hs, h1, h2, h => by
    simp only [List.map_cons, List.cons.injEq] at h
    rw [operand_inj D hv a b hs.1 (h1 a List.mem_cons_self) (h2 b List.mem_cons_self) h.1,
      operands_inj D hv as bs hs.2 (fun o ho => h1 o (List.mem_cons_of_mem _ ho))
        (fun o ho => h2 o (List.mem_cons_of_mem _ ho)) h.2]
  | [], _ :: _, hs, _, _, _ => by cases hs
  | _ :: _, [], hs, _, _, _ => by cases hs

/-- **C07 (an instruction line determines the instruction).** -/
theorem C07_inst_inj (D : DisTables) (hv : vocabularyOk D = true) (i j : Inst)
    (hi : (lookupOpcode D.core i.opcode).isSome) (hj : (lookupOpcode D.core j.opcode).isSome)
    (hs : SameShapes i.operands j.operands) (h1 : ∀ o ∈ i.operands, ValidOperand D o)
    (h2 : ∀ o ∈ j.operands, ValidOperand D o) (h : instLine D i = instLine D j) : i = j := by
  obtain ⟨io, it, ir, ios⟩ := i
  obtain ⟨jo, jt, jr, jos⟩ := j
  simp only [instLine, lineWith, Line.mk.injEq] at h
  obtain ⟨e1, e2, e3, e4⟩ := h
  have := C07_opcode_inj D hv io jo hi hj e2
  have := operands_inj D hv ios jos hs h1 h2 e4
  subst_vars
  rfl

def SameShapeInsts : List Inst → List Inst → Prop
  | [], [] => True
  | a :: as, b :: bs => SameShapes a.operands b.operands ∧ SameShapeInsts as bs
  | _, _ => False

/-- two instruction sequences of the same shape with the same lines are the same sequence -/
theorem C07_insts_inj (D : DisTables) (hv : vocabularyOk D = true) : ∀ (is js : List Inst), SameShapeInsts is js →
    (∀ i ∈ is, (lookupOpcode D.core i.opcode).isSome ∧ ∀ o ∈ i.operands, ValidOperand D o) →
    (∀ j ∈ js, (lookupOpcode D.core j.opcode).isSome ∧ ∀ o ∈ j.operands, ValidOperand D o) →
    is.map (instLine D) = js.map (instLine D) → is = js
  | [], [], _, _, _, _ => rfl
  | a :: as, b :: bs, hs, h1, h2, h => by
    simp only [List.map_cons, List.cons.injEq] at h
    have ha := h1 a List.mem_cons_self
    have hb := h2 b List.mem_cons_self
    rw [C07_inst_inj D hv a b ha.1 hb.1 hs.1 ha.2 hb.2 h.1,
      C07_insts_inj D hv as bs hs.2 (fun i hi => h1 i (List.mem_cons_of_mem _ hi))
        (fun i hi => h2 i (List.mem_cons_of_mem _ hi)) h.2]
  | [], _ :: _, hs, _, _, _ => by cases hs
  | _ :: _, [], hs, _, _, _ => by cases hs

/-- the same at the tables of this tree -/
theorem C07_lines_inj (is js : List Inst) (hs : SameShapeInsts is js)
    (h1 : ∀ i ∈ is, (lookupOpcode theD.core i.opcode).isSome ∧ ∀ o ∈ i.operands, ValidOperand theD o)
    (h2 : ∀ j ∈ js, (lookupOpcode theD.core j.opcode).isSome ∧ ∀ o ∈ j.operands, ValidOperand theD o)
    (h : is.map (instLine theD) = js.map (instLine theD)) : is = js :=
  C07_insts_inj theD vocabulary_ok is js hs h1 h2 h

end Rspirv.Props.C07Inst
