import Rspirv.Props.C18Content
/-!
# C18 — the contents of the lifted types and constants

`liftGlobals_counts` (C18.lean) says how many types and constants the first loop of `convert` produces and that they are
appended in order. Here their **contents** and the meaning of the tokens:

* `gstep` — what one instruction of `types_global_values` does to the context; `liftGlobals_step`,
  `liftGlobals_append`: the loop is the iteration of `gstep`, so a run over `pre ++ post` is a run over `pre` followed by
  a run over `post`;
* `IdsInv` — every id in the type (constant) map designates an existing entry and different ids designate different
  entries; preserved (`gstep_inv`, `liftGlobals_inv`);
* `gstep_mono`/`liftGlobals_mono` — entries and id ↦ token assignments are never changed afterwards;
* **`C18_type_at`** / **`C18_const_at`**: in a successful run over `pre ++ i :: post`, if `i` is a type (constant)
  declaration with result id `id`, the entry appended for it is `lift_type` (`lift_constant`) of `i` **in the context of the
  declarations before it** (`c1`, the result of the run over `pre`), it sits at the token `c1.types.length` — one token per
  declaration, in declaration order — and in the final context `id` designates exactly that token. With `liftWith_congr`
  (the value depends on the context only through the id ↦ token maps), `C18_table` and `liftFields_req` (field `j` of a
  lifted value is operand `j`, ids replaced through those maps) this is the clause "every operand carried over
  positionally, type and constant ids replaced by tokens of the referenced entry" for types and constants.
-/
namespace Rspirv.Props.C18Globals
open Rspirv Rspirv.Model Rspirv.Props.C18

/-- one iteration of the first loop of `convert` -/
def gstep (T : LiftTables) (c : LCtx) (i : Inst) : LRes ConvErr LCtx :=
  match liftWith T c T.type_ i with
  | .ok v =>
    (match i.rid with
     | some id =>
       if (lookupId c.typeIds id).isSome then .panic "Id is already used"
       else .ok { c with types := c.types ++ [v], typeIds := (id, c.types.length) :: c.typeIds }
     | none => .ok c)
  | .panic s => .panic s
  | .err .wrongOpcode =>
    (match liftConstant T c i with
     | .ok v =>
       (match i.rid with
        | some id =>
          if (lookupId c.constIds id).isSome then .panic "Id is already used"
          else .ok { c with consts := c.consts ++ [v], constIds := (id, c.consts.length) :: c.constIds }
        | none => .ok c)
     | .panic s => .panic s
     | .err .wrongOpcode => .ok c
     | .err _ => .panic "Constant lift error")
  | .err _ => .panic "Type lift error"

/-- continue with the rest after one step -/
def andThen (r : LRes ConvErr LCtx) (k : LCtx → LRes ConvErr LCtx) : LRes ConvErr LCtx :=
  match r with
  | .ok c => k c
  | .err e => .err e
  | .panic s => .panic s

theorem liftGlobals_step (T : LiftTables) (c : LCtx) (i : Inst) (rest : List Inst) :
    liftGlobals T c (i :: rest) = andThen (gstep T c i) (fun c1 => liftGlobals T c1 rest) := by
  rw [liftGlobals]
  unfold gstep
  cases hw : liftWith T c T.type_ i with
  | ok v =>
    dsimp only
    cases hr : i.rid with
    | none => rfl
    | some id =>
      dsimp only
      split <;> rfl
  | panic s => rfl
  | err e =>
    cases e with
    | missingResult => rfl
    | operand _ => rfl
    | wrongOpcode =>
      dsimp only
      cases hc : liftConstant T c i with
      | ok v =>
        dsimp only
        cases hr : i.rid with
        | none => rfl
        | some id =>
          dsimp only
          split <;> rfl
      | panic s => rfl
      | err e2 =>
        cases e2 with
        | missingResult => rfl
        | operand _ => rfl
        | wrongOpcode => rfl

theorem liftGlobals_append (T : LiftTables) : ∀ (pre post : List Inst) (c : LCtx),
    liftGlobals T c (pre ++ post) = andThen (liftGlobals T c pre) (fun c1 => liftGlobals T c1 post)
  | [], post, c => by simp [liftGlobals, andThen]
  | i :: pre, post, c => by
    rw [List.cons_append, liftGlobals_step, liftGlobals_step]
    cases hg : gstep T c i with
    | ok c1 => simp only [andThen]; exact liftGlobals_append T pre post c1
    | err e => rfl
    | panic s => rfl

/-- a successful run over `pre ++ post` is a successful run over `pre` followed by one over `post` -/
theorem liftGlobals_split (T : LiftTables) (pre post : List Inst) (c c' : LCtx)
    (h : liftGlobals T c (pre ++ post) = .ok c') :
    ∃ c1, liftGlobals T c pre = .ok c1 ∧ liftGlobals T c1 post = .ok c' := by
  rw [liftGlobals_append] at h
  cases hp : liftGlobals T c pre with
  | ok c1 => rw [hp] at h; exact ⟨c1, rfl, h⟩
  | err e => rw [hp] at h; cases h
  | panic s => rw [hp] at h; cases h

/-! ### what a successful step is -/

/-- the three outcomes of a successful step -/
inductive GStep (T : LiftTables) (c : LCtx) (i : Inst) : LCtx → Prop
  | type (v : LNode) (id : Nat) : liftWith T c T.type_ i = .ok v → i.rid = some id → lookupId c.typeIds id = none →
      GStep T c i { c with types := c.types ++ [v], typeIds := (id, c.types.length) :: c.typeIds }
  | const (v : LNode) (id : Nat) : liftWith T c T.type_ i = .err .wrongOpcode → liftConstant T c i = .ok v →
      i.rid = some id → lookupId c.constIds id = none →
      GStep T c i { c with consts := c.consts ++ [v], constIds := (id, c.consts.length) :: c.constIds }
  | skip : GStep T c i c

theorem gstep_ok (T : LiftTables) (c : LCtx) (i : Inst) (c1 : LCtx) (h : gstep T c i = .ok c1) : GStep T c i c1 := by
  unfold gstep at h
  cases hw : liftWith T c T.type_ i with
  | ok v =>
    rw [hw] at h
    dsimp only at h
    cases hr : i.rid with
    | none => rw [hr] at h; cases h; exact GStep.skip
    | some id =>
      rw [hr] at h
      dsimp only at h
      split at h
      · cases h
      · rename_i hn
        cases h
        exact GStep.type v id hw hr (by simpa using hn)
  | panic s => rw [hw] at h; cases h
  | err e =>
    rw [hw] at h
    cases e with
    | missingResult => cases h
    | operand _ => cases h
    | wrongOpcode =>
      dsimp only at h
      cases hc : liftConstant T c i with
      | ok v =>
        rw [hc] at h
        dsimp only at h
        cases hr : i.rid with
        | none => rw [hr] at h; cases h; exact GStep.skip
        | some id =>
          rw [hr] at h
          dsimp only at h
          split at h
          · cases h
          · rename_i hn
            cases h
            exact GStep.const v id hw hc hr (by simpa using hn)
      | panic s => rw [hc] at h; cases h
      | err e2 =>
        rw [hc] at h
        cases e2 with
        | missingResult => cases h
        | operand _ => cases h
        | wrongOpcode => cases h; exact GStep.skip

/-! ### ids designate entries; assignments are permanent -/

theorem lookupId_cons (m : List (Nat × Nat)) (id k x : Nat) :
    lookupId ((id, k) :: m) x = if id == x then some k else lookupId m x := by
  unfold lookupId
  simp only [List.find?_cons]
  split <;> simp_all

/-- every id designates an existing entry, and different ids different entries -/
def MapInv (ids : List (Nat × Nat)) (n : Nat) : Prop :=
  (∀ id k, lookupId ids id = some k → k < n) ∧
  (∀ id1 id2 k, lookupId ids id1 = some k → lookupId ids id2 = some k → id1 = id2)

def IdsInv (c : LCtx) : Prop := MapInv c.typeIds c.types.length ∧ MapInv c.constIds c.consts.length

theorem mapInv_push (ids : List (Nat × Nat)) (n id : Nat) (h : MapInv ids n) (_ : lookupId ids id = none) :
    MapInv ((id, n) :: ids) (n + 1) := by
  constructor
  · intro x k hk
    rw [lookupId_cons] at hk
    split at hk
    · cases hk; omega
    · have := h.1 x k hk; omega
  · intro x y k hx hy
    rw [lookupId_cons] at hx hy
    split at hx
    · rename_i ex
      cases hx
      split at hy
      · rename_i ey
        have := eq_of_beq ex; have := eq_of_beq ey; omega
      · have := h.1 y _ hy; omega
    · split at hy
      · cases hy
        have := h.1 x _ hx; omega
      · exact h.2 x y k hx hy

theorem idsInv_empty : IdsInv LCtx.empty := by
  refine ⟨⟨?_, ?_⟩, ⟨?_, ?_⟩⟩ <;> intros <;> simp_all [LCtx.empty, lookupId]

theorem gstep_inv (T : LiftTables) (c : LCtx) (i : Inst) (c1 : LCtx) (h : GStep T c i c1) (hi : IdsInv c) : IdsInv c1 := by
  cases h with
  | type v id _ _ hn =>
    refine ⟨?_, hi.2⟩
    simpa using mapInv_push c.typeIds c.types.length id hi.1 hn
  | const v id _ _ _ hn =>
    refine ⟨hi.1, ?_⟩
    simpa using mapInv_push c.constIds c.consts.length id hi.2 hn
  | skip => exact hi

/-- what a later context keeps of an earlier one -/
structure Extends (c c' : LCtx) : Prop where
  types : ∀ k, k < c.types.length → c'.types[k]? = c.types[k]?
  consts : ∀ k, k < c.consts.length → c'.consts[k]? = c.consts[k]?
  typeIds : ∀ id k, lookupId c.typeIds id = some k → lookupId c'.typeIds id = some k
  constIds : ∀ id k, lookupId c.constIds id = some k → lookupId c'.constIds id = some k
  tlen : c.types.length ≤ c'.types.length
  clen : c.consts.length ≤ c'.consts.length

theorem Extends.refl (c : LCtx) : Extends c c :=
  ⟨fun _ _ => rfl, fun _ _ => rfl, fun _ _ h => h, fun _ _ h => h, Nat.le_refl _, Nat.le_refl _⟩

theorem Extends.trans {a b c : LCtx} (h1 : Extends a b) (h2 : Extends b c) : Extends a c :=
  ⟨fun k hk => (h2.types k (Nat.lt_of_lt_of_le hk h1.tlen)).trans (h1.types k hk),
   fun k hk => (h2.consts k (Nat.lt_of_lt_of_le hk h1.clen)).trans (h1.consts k hk),
   fun id k h => h2.typeIds id k (h1.typeIds id k h), fun id k h => h2.constIds id k (h1.constIds id k h),
   Nat.le_trans h1.tlen h2.tlen, Nat.le_trans h1.clen h2.clen⟩

theorem gstep_mono (T : LiftTables) (c : LCtx) (i : Inst) (c1 : LCtx) (h : GStep T c i c1) : Extends c c1 := by
  cases h with
  | type v id _ _ hn =>
    refine ⟨?_, fun _ _ => rfl, ?_, fun _ _ h => h, by simp, Nat.le_refl _⟩
    · intro k hk
      simp only [List.getElem?_append_left hk]
    · intro x k hx
      simp only [lookupId_cons]
      split
      · rename_i ex
        have := eq_of_beq ex
        subst this
        rw [hn] at hx; cases hx
      · exact hx
  | const v id _ _ _ hn =>
    refine ⟨fun _ _ => rfl, ?_, fun _ _ h => h, ?_, Nat.le_refl _, by simp⟩
    · intro k hk
      simp only [List.getElem?_append_left hk]
    · intro x k hx
      simp only [lookupId_cons]
      split
      · rename_i ex
        have := eq_of_beq ex
        subst this
        rw [hn] at hx; cases hx
      · exact hx
  | skip => exact Extends.refl c

theorem liftGlobals_inv (T : LiftTables) : ∀ (insts : List Inst) (c c' : LCtx), liftGlobals T c insts = .ok c' →
    IdsInv c → IdsInv c' ∧ Extends c c'
  | [], c, c', h, hi => by
    simp only [liftGlobals, LRes.ok.injEq] at h
    subst h
    exact ⟨hi, Extends.refl c⟩
  | i :: rest, c, c', h, hi => by
    rw [liftGlobals_step] at h
    cases hg : gstep T c i with
    | ok c1 =>
      rw [hg] at h
      simp only [andThen] at h
      have hs := gstep_ok T c i c1 hg
      obtain ⟨r1, r2⟩ := liftGlobals_inv T rest c1 c' h (gstep_inv T c i c1 hs hi)
      exact ⟨r1, (gstep_mono T c i c1 hs).trans r2⟩
    | err e => rw [hg] at h; cases h
    | panic s => rw [hg] at h; cases h

/-! ### the entry of a declaration -/

/-- **C18 (content of a type).** -/
theorem C18_type_at (T : LiftTables) (pre post : List Inst) (i : Inst) (c c' : LCtx) (hi : IdsInv c)
    (h : liftGlobals T c (pre ++ i :: post) = .ok c') (id : Nat) (hr : i.rid = some id) (v : LNode) :
    ∃ c1, liftGlobals T c pre = .ok c1 ∧ IdsInv c1 ∧ Extends c c1 ∧ Extends c1 c' ∧
      (liftWith T c1 T.type_ i = .ok v →
        c'.types[c1.types.length]? = some v ∧ lookupId c'.typeIds id = some c1.types.length ∧
        ∀ id', lookupId c'.typeIds id' = some c1.types.length → id' = id) := by
  obtain ⟨c1, h1, h2⟩ := liftGlobals_split T pre (i :: post) c c' h
  obtain ⟨inv1, ext1⟩ := liftGlobals_inv T pre c c1 h1 hi
  obtain ⟨inv', ext'⟩ := liftGlobals_inv T (i :: post) c1 c' h2 inv1
  refine ⟨c1, h1, inv1, ext1, ext', ?_⟩
  intro hv
  rw [liftGlobals_step] at h2
  cases hg : gstep T c1 i with
  | err e => rw [hg] at h2; cases h2
  | panic s => rw [hg] at h2; cases h2
  | ok c2 =>
    rw [hg] at h2
    simp only [andThen] at h2
    have hs := gstep_ok T c1 i c2 hg
    have hc2 : c2 = { c1 with types := c1.types ++ [v], typeIds := (id, c1.types.length) :: c1.typeIds } := by
      cases hs with
      | type v' id' hw hr' _ =>
        rw [hv] at hw; cases hw
        rw [hr] at hr'; cases hr'
        rfl
      | const v' id' hw _ _ _ => rw [hv] at hw; cases hw
      | skip =>
        -- a type declaration with a result id is never skipped
        exfalso
        unfold gstep at hg
        rw [hv, hr] at hg
        dsimp only at hg
        split at hg
        · cases hg
        · have := congrArg (fun x => x.types.length) (LRes.ok.inj hg)
          simp at this
    obtain ⟨inv2, ext2⟩ := liftGlobals_inv T post c2 c' h2 (gstep_inv T c1 i c2 hs inv1)
    have e1 : c2.types[c1.types.length]? = some v := by rw [hc2]; simp
    have e2 : lookupId c2.typeIds id = some c1.types.length := by rw [hc2]; simp [lookupId_cons]
    have hlt : c1.types.length < c2.types.length := by rw [hc2]; simp
    refine ⟨(ext2.types _ hlt).trans e1, ext2.typeIds _ _ e2, ?_⟩
    intro id' h'
    exact inv2.1.2 id' id _ h' (ext2.typeIds _ _ e2)

/-- **C18 (content of a constant).** -/
theorem C18_const_at (T : LiftTables) (pre post : List Inst) (i : Inst) (c c' : LCtx) (hi : IdsInv c)
    (h : liftGlobals T c (pre ++ i :: post) = .ok c') (id : Nat) (hr : i.rid = some id) (v : LNode) :
    ∃ c1, liftGlobals T c pre = .ok c1 ∧ IdsInv c1 ∧ Extends c c1 ∧ Extends c1 c' ∧
      (liftWith T c1 T.type_ i = .err .wrongOpcode → liftConstant T c1 i = .ok v →
        c'.consts[c1.consts.length]? = some v ∧ lookupId c'.constIds id = some c1.consts.length ∧
        ∀ id', lookupId c'.constIds id' = some c1.consts.length → id' = id) := by
  obtain ⟨c1, h1, h2⟩ := liftGlobals_split T pre (i :: post) c c' h
  obtain ⟨inv1, ext1⟩ := liftGlobals_inv T pre c c1 h1 hi
  obtain ⟨inv', ext'⟩ := liftGlobals_inv T (i :: post) c1 c' h2 inv1
  refine ⟨c1, h1, inv1, ext1, ext', ?_⟩
  intro hw hv
  rw [liftGlobals_step] at h2
  cases hg : gstep T c1 i with
  | err e => rw [hg] at h2; cases h2
  | panic s => rw [hg] at h2; cases h2
  | ok c2 =>
    rw [hg] at h2
    simp only [andThen] at h2
    have hs := gstep_ok T c1 i c2 hg
    have hc2 : c2 = { c1 with consts := c1.consts ++ [v], constIds := (id, c1.consts.length) :: c1.constIds } := by
      cases hs with
      | type v' id' hw' _ _ => rw [hw] at hw'; cases hw'
      | const v' id' _ hc' hr' _ =>
        rw [hv] at hc'; cases hc'
        rw [hr] at hr'; cases hr'
        rfl
      | skip =>
        exfalso
        unfold gstep at hg
        rw [hw] at hg
        dsimp only at hg
        rw [hv, hr] at hg
        dsimp only at hg
        split at hg
        · cases hg
        · have := congrArg (fun x => x.consts.length) (LRes.ok.inj hg)
          simp at this
    obtain ⟨inv2, ext2⟩ := liftGlobals_inv T post c2 c' h2 (gstep_inv T c1 i c2 hs inv1)
    have e1 : c2.consts[c1.consts.length]? = some v := by rw [hc2]; simp
    have e2 : lookupId c2.constIds id = some c1.consts.length := by rw [hc2]; simp [lookupId_cons]
    have hlt : c1.consts.length < c2.consts.length := by rw [hc2]; simp
    refine ⟨(ext2.consts _ hlt).trans e1, ext2.constIds _ _ e2, ?_⟩
    intro id' h'
    exact inv2.2.2 id' id _ h' (ext2.constIds _ _ e2)

/-- **C18 (a reference resolves to the referenced declaration).** In a successful run, an id that the context of a
later declaration maps to token `k` is the result id of the declaration whose entry sits at `k` in the final module —
tokens are never reassigned and entries never overwritten. -/
theorem C18_reference (T : LiftTables) (insts : List Inst) (c' : LCtx)
    (h : liftGlobals T LCtx.empty insts = .ok c') (pre post : List Inst) (hsplit : insts = pre ++ post) :
    ∃ c1, liftGlobals T LCtx.empty pre = .ok c1 ∧
      (∀ id k, lookupId c1.typeIds id = some k →
        lookupId c'.typeIds id = some k ∧ k < c1.types.length ∧ c'.types[k]? = c1.types[k]?) ∧
      (∀ id k, lookupId c1.constIds id = some k →
        lookupId c'.constIds id = some k ∧ k < c1.consts.length ∧ c'.consts[k]? = c1.consts[k]?) := by
  subst hsplit
  obtain ⟨c1, h1, h2⟩ := liftGlobals_split T pre post _ c' h
  obtain ⟨inv1, _⟩ := liftGlobals_inv T pre _ c1 h1 idsInv_empty
  obtain ⟨_, ext⟩ := liftGlobals_inv T post c1 c' h2 inv1
  refine ⟨c1, h1, ?_, ?_⟩
  · intro id k hk
    have hlt := inv1.1.1 id k hk
    exact ⟨ext.typeIds id k hk, hlt, ext.types k hlt⟩
  · intro id k hk
    have hlt := inv1.2.1 id k hk
    exact ⟨ext.constIds id k hk, hlt, ext.consts k hlt⟩

end Rspirv.Props.C18Globals
