import Rspirv.Props.RoundTrip
import Rspirv.Props.C01Full
import Rspirv.Instances
/-!
# C01 — reload, on the tables of this tree, with the hypotheses in executable form

`C01_reload_scope`: what the driver's `reloadhyp` channel evaluates for every accepted binary of the correspondence check
(`grammar`, `words32`) are exactly the hypotheses under which loading the assembled output again returns the same module.
-/
namespace Rspirv.Props.C01End
open Rspirv Rspirv.Model Rspirv.Model.DState Rspirv.Instances Rspirv.Props.RoundTrip

theorem C01_reload_scope (bytes : List Nat) (m : Module Inst) (h : loadBytes theTables theLTables bytes = .ok m)
    (hg : grammarStreamB theTables [] (Rspirv.Props.C15.allInstIter m) = true)
    (hw : (Rspirv.Props.C15.assemble assembleInst m).all (· < 4294967296) = true)
    (hsmall : 4 * (Rspirv.Props.C15.assemble assembleInst m).length < 2 ^ 63) :
    loadBytes theTables theLTables ((Rspirv.Props.C15.assemble assembleInst m).flatMap Spec.wordBytes) = .ok m :=
  C01_reload_bytes theTables theLTables Rspirv.Props.C04.tables_safe Rspirv.Props.C02.good_tables bytes m h
    (grammarStreamB_sound _ _ _ hg) (by intro w hw'; simpa using (List.all_eq_true.1 hw) w hw') hsmall

/-- `C01_full` on the tables regenerated from this tree -/
theorem C01_full_inst (bytes : List Nat) (hb : ∀ b ∈ bytes, b < 256) (hs : bytes.length < 2 ^ 63) (m : Module Inst)
    (h : loadBytes theTables theLTables bytes = .ok m) :
    20 ≤ bytes.length ∧ le32 bytes 0 = theTables.magic ∧
    ∃ hd is, hd = ⟨theTables.magic, (le32 bytes 4 / 65536 % 256) * 65536 + (le32 bytes 4 / 256 % 256) * 256, 0x000f0000,
        le32 bytes 12, 0⟩ ∧
      Rspirv.Props.C01Full.Chunks is (Spec.streamWords bytes) ∧ load theLTables hd is = .ok m ∧
      (∀ i ∈ is, Rspirv.Props.C01Words.InstWords i (assembleInst i) ∧ Rspirv.Props.C02.WordsOk (assembleInst i)) ∧
      (Rspirv.Props.C01.TidyRun theLTables (LState.start hd) is →
        (Rspirv.Props.C15.allInstIter m).Perm is ∧
        (∀ k, k ≤ 10 → (m.sect k).Sublist is) ∧ (m.functions.flatMap Rspirv.Props.C01.fnChain).Sublist is ∧
        Rspirv.Props.C15.assemble assembleInst m =
          [hd.magic, hd.version, hd.generator, hd.bound, hd.reserved] ++
            (Rspirv.Props.C15.allInstIter m).flatMap assembleInst ∧
        (Rspirv.Props.C15.assemble assembleInst m).length = 5 + (Spec.streamWords bytes).length) :=
  Rspirv.Props.C01Full.C01_full theTables theLTables Rspirv.Props.C04.tables_safe Rspirv.Props.C02.good_tables bytes hb hs m h

end Rspirv.Props.C01End
