import Rspirv.Props.RoundTrip
import Rspirv.Instances
/-!
# C01 — reload, on the tables of this tree, with the hypotheses in executable form

`C01_reload_scope`: what the driver's `reloadhyp` channel evaluates for every accepted binary of the correspondence check
(`grammar`, `words32`) are exactly the hypotheses under which loading the assembled output again returns the same module.
-/
namespace Rspirv.Props.C01End
open Rspirv Rspirv.Model Rspirv.Instances Rspirv.Props.RoundTrip

theorem C01_reload_scope (bytes : List Nat) (m : Module Inst) (h : loadBytes theTables theLTables bytes = .ok m)
    (hg : grammarStreamB theTables [] (Rspirv.Props.C15.allInstIter m) = true)
    (hw : (Rspirv.Props.C15.assemble assembleInst m).all (· < 4294967296) = true)
    (hsmall : 4 * (Rspirv.Props.C15.assemble assembleInst m).length < 2 ^ 63) :
    loadBytes theTables theLTables ((Rspirv.Props.C15.assemble assembleInst m).flatMap Spec.wordBytes) = .ok m :=
  C01_reload_bytes theTables theLTables Rspirv.Props.C04.tables_safe Rspirv.Props.C02.good_tables bytes m h
    (grammarStreamB_sound _ _ _ hg) (by intro w hw'; simpa using (List.all_eq_true.1 hw) w hw') hsmall

end Rspirv.Props.C01End
