import Rspirv.Model.Assemble
import Rspirv.Props.C11
/-!
# C10 — context-dependent literal widths follow the types declared earlier

The width decision is `parseLiteral` applied to the tracker state; the tracker state is a fold of
`Tracker.track` over the instructions already delivered in the *current* parse, starting from the empty
tracker (`parse` takes no tracker argument). Statements hold for every table set.
-/
namespace Rspirv.Props.C10
open Rspirv Rspirv.Model Rspirv.Model.DState

/-- number of words the literal occupies, as a function of the resolved type alone: `none` = unsupported width -/
def litWords : Option TType → Option Nat
  | some (.int w _) => if w = 8 ∨ w = 16 ∨ w = 32 then some 1 else if w = 64 then some 2 else none
  | some (.float w) => if w = 16 ∨ w = 32 then some 1 else if w = 64 then some 2 else none
  | none => some 1

/-- **C10 (decision).** `parse_literal` reads one word for the supported widths up to 32 bits and for unknown
types, two words low word first for 64 bits, and answers `TypeUnsupported` (at the current offset and instruction
number, consuming nothing) for every other width. -/
theorem C10_literal (G : Tables) (τ : Tracker) (idx t : Nat) (d : DState) :
    (litWords (τ.resolve t) = some 1 → parseLiteral G τ idx t d = litOne G d) ∧
    (litWords (τ.resolve t) = some 2 → parseLiteral G τ idx t d = litTwo d) ∧
    (litWords (τ.resolve t) = none → parseLiteral G τ idx t d = (.err (.typeUnsupported d.offset idx), d)) := by
  unfold parseLiteral litWords
  cases τ.resolve t with
  | none => simp
  | some ty =>
    cases ty with
    | int w s =>
      simp only
      by_cases h1 : w = 8 ∨ w = 16 ∨ w = 32
      · have : (w == 8 || w == 16 || w == 32) = true := by
          rcases h1 with rfl | rfl | rfl <;> rfl
        simp [h1, this]
      · have hb : (w == 8 || w == 16 || w == 32) = false := by
          simp only [Bool.or_eq_false_iff, beq_eq_false_iff_ne]; omega
        by_cases h2 : w = 64
        · subst h2; simp [hb]
        · have : (w == 64) = false := by simpa using h2
          simp [h1, h2, hb, this]
    | float w =>
      simp only
      by_cases h1 : w = 16 ∨ w = 32
      · have : (w == 16 || w == 32) = true := by
          rcases h1 with rfl | rfl <;> rfl
        simp [h1, this]
      · have hb : (w == 16 || w == 32) = false := by
          simp only [Bool.or_eq_false_iff, beq_eq_false_iff_ne]; omega
        by_cases h2 : w = 64
        · subst h2; simp [hb]
        · have : (w == 64) = false := by simpa using h2
          simp [h1, h2, hb, this]

/-- one word: a 32-bit literal operand holding the little-endian word at the offset -/
theorem litOne_spec (G : Tables) (d : DState) (o : Operand) (d' : DState) (h : litOne G d = (.ok o, d')) :
    o = .w G.vLit32 (le32 d.bytes d.offset) ∧ d'.offset = d.offset + 4 := by
  unfold litOne at h
  rcases Rspirv.Props.C11.word_spec d with ⟨_, hw⟩ | ⟨_, _, hw⟩ | ⟨_, _, hw⟩ <;> rw [hw] at h <;> simp only at h
  · cases h
  · cases h; exact ⟨rfl, rfl⟩
  · cases h

/-- two words: a 64-bit literal operand, low word first -/
theorem litTwo_spec (d : DState) (o : Operand) (d' : DState) (h : litTwo d = (.ok o, d')) :
    o = .q (le32 d.bytes (d.offset + 4) * 4294967296 + le32 d.bytes d.offset) ∧ d'.offset = d.offset + 8 := by
  unfold litTwo at h
  obtain ⟨_, _, hok⟩ := Rspirv.Props.C11.bit64_spec d
  cases hb : DState.bit64 d with
  | mk r d2 =>
    rw [hb] at h
    cases r with
    | ok v =>
      simp only at h; cases h
      have := hok v (by rw [hb])
      rw [hb] at this
      exact ⟨by rw [this.1], this.2⟩
    | err e => simp only at h; cases h
    | panic s => simp only at h; cases h

/-- two-word literals are assembled low word first and one-word literals as one word: the assembler emits exactly
the number of words the parser consumed -/
theorem C10_asm (v variant : Nat) :
    encodeOperand (.q v) = [v % 4294967296, v / 4294967296] ∧ (encodeOperand (.q v)).length = 2 ∧
    (encodeOperand (.w variant v)).length = 1 := by
  simp [encodeOperand]

/-! ### the tracker -/

/-- **C10 (declarations).** An `OpTypeInt`/`OpTypeFloat` declaration with two/one 32-bit literal operands binds its
result id to that width; the newest binding wins; other ids are untouched. -/
theorem C10_track_int (G : TTables) (τ : Tracker) (rid bits sign : Nat) (rest : List Operand)
    (hT : G.isType G.opTypeInt = true) :
    τ.track G ⟨G.opTypeInt, none, some rid, .w G.vLit32 bits :: .w G.vLit32 sign :: rest⟩
      = some ((rid, .int bits (sign == 1)) :: τ) := by
  simp [Tracker.track, hT]

theorem C10_track_float (G : TTables) (τ : Tracker) (rid bits : Nat) (rest : List Operand)
    (hT : G.isType G.opTypeFloat = true) (hne : G.opTypeFloat ≠ G.opTypeInt) :
    τ.track G ⟨G.opTypeFloat, none, some rid, .w G.vLit32 bits :: rest⟩ = some ((rid, .float bits) :: τ) := by
  have : (G.opTypeFloat == G.opTypeInt) = false := by simpa using hne
  simp [Tracker.track, hT, this]

theorem resolve_cons (τ : Tracker) (rid id : Nat) (t : TType) :
    Tracker.resolve ((rid, t) :: τ) id = if rid = id then some t else τ.resolve id := by
  simp only [Tracker.resolve, List.find?_cons]
  by_cases h : rid = id
  · simp [h]
  · have : (rid == id) = false := by simpa using h
    simp [this, h]

/-- **C10 (propagation).** A value-defining instruction (any non-type opcode with a result id) gives its result id the
tracked type of its result type, when that one is tracked; otherwise the tracker is unchanged. This is how the
selector of an `OpSwitch` gets its width. -/
theorem C10_track_value (G : TTables) (τ : Tracker) (i : Inst) (rid : Nat) (hr : i.rid = some rid)
    (hT : G.isType i.opcode = false) :
    τ.track G i = some (match i.rtype.bind τ.resolve with
      | some t => (rid, t) :: τ
      | none => τ) := by
  simp only [Tracker.track, hr, hT]
  cases i.rtype.bind τ.resolve <;> simp

/-- instructions without a result id never change the tracker -/
theorem C10_track_noid (G : TTables) (τ : Tracker) (i : Inst) (hr : i.rid = none) : τ.track G i = some τ := by
  simp [Tracker.track, hr]

/-- **C10 (freshness).** Every parse starts from the empty tracker: `parse` has no tracker parameter and its
instruction loop is entered with `[]`. -/
theorem C10_fresh (G : Tables) (script : Nat → Action) (bytes : List Nat) (h : Header) (d1 : DState)
    (h0 : consume (script 0) 0 = none) (h1 : consume (script 1) 1 = none)
    (hh : parseHeader G (DState.new bytes) = (.ok h, d1)) :
    parse G script bytes = parseLoop G script (bytes.length + 1) [] 2 0 d1 [.header h, .init] := by
  simp [parse, h0, h1, hh]

/-- where the context comes from: the literal of `OpConstant`/`OpSpecConstant` is sized by the instruction's own
result type, each case literal of `OpSwitch` by the selector (first operand) -/
theorem C10_constant_uses_rtype (G : Tables) (τ : Tracker) (idx opcode t : Nat) (a : Acc) (d : DState)
    (hk : G.kCtxNumber ≠ G.kIdResultType ∧ G.kCtxNumber ≠ G.kIdResult)
    (hop : opcode = G.opConstant ∨ opcode = G.opSpecConstant) (hrt : a.rtype = some t) :
    (∀ o d1, parseLiteral G τ idx t d = (.ok o, d1) →
      parseOne G τ idx opcode G.kCtxNumber a d = (.ok { a with ops := a.ops ++ [o] }, d1)) ∧
    (∀ x d1, parseLiteral G τ idx t d = (.err x, d1) →
      parseOne G τ idx opcode G.kCtxNumber a d = (.err x, d1)) := by
  have h1 : (G.kCtxNumber == G.kIdResultType) = false := by simpa using hk.1
  have h2 : (G.kCtxNumber == G.kIdResult) = false := by simpa using hk.2
  have h3 : (opcode == G.opConstant || opcode == G.opSpecConstant) = true := by
    rcases hop with rfl | rfl <;> simp
  constructor
  · intro o d1 h; simp [parseOne, h1, h2, h3, hrt, h]
  · intro x d1 h; simp [parseOne, h1, h2, h3, hrt, h]

example : litWords (some (.int 16 true)) = some 1 ∧ litWords (some (.float 64)) = some 2 ∧
    litWords (some (.int 128 false)) = none ∧ litWords (some (.float 8)) = none ∧ litWords none = some 1 := by decide

end Rspirv.Props.C10
