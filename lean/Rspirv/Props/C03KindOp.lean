import Rspirv.Props.C03Kind
/-!
# C03 — the kind of error, completed: faults inside the operands

`C03Kind.lean` decides the kind for the faults visible in the first word (zero word count, unknown opcode) and for surplus
words. Here the remaining case: **a first malformed instruction with a non-zero word count and a known opcode is
reported with an operand-level kind** — `OperandExpected` (missing), `OperandExceeded` (surplus), `OperandError(..)`
(undecodable: unknown enumerant or mask bit, string without terminator or not UTF-8, a nested operand running over the
declared extent), `TypeUnsupported` (context-dependent literal of an unsupported width) or
`SpecConstantOpIntegerIncorrect` — never with one of the first-word kinds and never as `Complete` (`parseInst_opLevel`,
`C03_kind_operand`). `C03_kind_cases` puts the three cases together: the kind is decided by the first word exactly as the
property says. `loop_expected`: `OperandExpected` is reported exactly for a required operand that is wanted when the
declared extent is used up, at the offset where it would have started.
-/
namespace Rspirv.Props.C03KindOp
open Rspirv Rspirv.Model Rspirv.Model.DState Rspirv.Props.C04 Rspirv.Props.C11 Rspirv.Props.ParserSpec
  Rspirv.Props.ParserErr Rspirv.Props.C03 Rspirv.Props.C03Kind

/-- the kinds reported from inside the operand loop -/
def OpLevel : IErr → Prop
  | .operandExpected _ _ => True
  | .operandExceeded _ _ => True
  | .operandError _ => True
  | .typeUnsupported _ _ => True
  | .specConstantOpIntegerIncorrect _ _ => True
  | .complete => False
  | .wordCountZero _ _ => False
  | .opcodeUnknown _ _ _ => False

/-- every error of a routine is operand-level -/
def OpErr {α : Type} (r : PRes IErr α × DState) : Prop := ∀ e d', r = (.err e, d') → OpLevel e

theorem opErr_ok {α : Type} (a : α) (d : DState) : OpErr ((.ok a, d) : PRes IErr α × DState) := by
  intro e d' h; cases h

theorem opErr_panic {α : Type} (s : String) (d : DState) : OpErr ((.panic s, d) : PRes IErr α × DState) := by
  intro e d' h; cases h

theorem opErr_operandError {α : Type} (x : DErr) (d : DState) :
    OpErr ((.err (.operandError x), d) : PRes IErr α × DState) := by
  intro e d' h; cases h; trivial

/-- the error branch of a `match call with … | (.err x, d1) => (.err x, d1)`: the kind is the callee's -/
macro "op_from " h:term : tactic =>
  `(tactic| (intro e d' he; cases he; exact $h _ _ (by assumption)))

theorem decodeElem_op (G : Tables) (e : Elem) (d : DState) : OpErr (decodeElem G e d) := by
  unfold decodeElem
  split
  · split
    · split
      · exact opErr_ok _ _
      · exact opErr_operandError _ _
      · exact opErr_panic _ _
    · exact opErr_panic _ _
  · split
    · split
      · split
        · exact opErr_ok _ _
        · exact opErr_operandError _ _
        · exact opErr_panic _ _
      · exact opErr_panic _ _
    · split
      · split
        · exact opErr_ok _ _
        · exact opErr_operandError _ _
        · exact opErr_panic _ _
      · split
        · exact opErr_ok _ _
        · exact opErr_operandError _ _
        · exact opErr_panic _ _

theorem decodeElems_op (G : Tables) : ∀ (es : List Elem) (d : DState), OpErr (decodeElems G es d)
  | [], d => by unfold decodeElems; exact opErr_ok _ _
  | e :: es, d => by
    unfold decodeElems
    split
    · split
      · exact opErr_ok _ _
      · exact decodeElems_op G es _
    · op_from (decodeElem_op G e d)
    · exact opErr_panic _ _

theorem parseOperand_op (G : Tables) (k : Nat) (d : DState) : OpErr (parseOperand G k d) := by
  unfold parseOperand
  split
  · exact opErr_panic _ _
  · exact opErr_panic _ _
  · exact decodeElems_op G _ d
  · rename_i e rows _
    split
    · split
      · exact opErr_ok _ _
      · exact decodeElems_op G _ _
    · op_from (decodeElem_op G e d)
    · exact opErr_panic _ _
  · rename_i e rows _
    split
    · split
      · exact opErr_ok _ _
      · exact decodeElems_op G _ _
    · op_from (decodeElem_op G e d)
    · exact opErr_panic _ _

theorem litOne_op (G : Tables) (d : DState) : OpErr (litOne G d) := by
  unfold litOne
  split
  · exact opErr_ok _ _
  · exact opErr_operandError _ _
  · exact opErr_panic _ _

theorem litTwo_op (d : DState) : OpErr (litTwo d) := by
  unfold litTwo
  split
  · exact opErr_ok _ _
  · exact opErr_operandError _ _
  · exact opErr_panic _ _

theorem opErr_typeUnsupported {α : Type} (o i : Nat) (d : DState) :
    OpErr ((.err (.typeUnsupported o i), d) : PRes IErr α × DState) := by
  intro e d' h; cases h; trivial

theorem parseLiteral_op (G : Tables) (τ : Tracker) (idx ty : Nat) (d : DState) : OpErr (parseLiteral G τ idx ty d) := by
  unfold parseLiteral
  split
  · split
    · exact litOne_op G d
    · split
      · exact litTwo_op d
      · exact opErr_typeUnsupported _ _ _
  · split
    · exact litOne_op G d
    · split
      · exact litTwo_op d
      · exact opErr_typeUnsupported _ _ _
  · exact litOne_op G d

theorem parseMany_op (G : Tables) (k : Nat) : ∀ (fuel : Nat) (d : DState), OpErr (parseMany G k fuel d)
  | 0, d => by unfold parseMany; exact opErr_panic _ _
  | fuel + 1, d => by
    unfold parseMany
    split
    · exact opErr_ok _ _
    · split
      · split
        · exact opErr_ok _ _
        · exact parseMany_op G k fuel _
      · exact parseOperand_op G k d

/-- the operand(s) one logical operand of a nested instruction stands for -/
theorem here_op (G : Tables) (k q : Nat) (d : DState) :
    OpErr (if q == 0 then parseOperand G k d
      else if q == 1 then (if d.limitReached then (.ok [], d) else parseOperand G k d)
      else parseMany G k ((d.limit.getD 0) + 1) d) := by
  split
  · exact parseOperand_op G k d
  · split
    · split
      · exact opErr_ok _ _
      · exact parseOperand_op G k d
    · exact parseMany_op G k _ d

theorem parseNested_op (G : Tables) : ∀ (ops : List (Nat × Nat)) (d : DState), OpErr (parseNested G ops d)
  | [], d => by unfold parseNested; exact opErr_ok _ _
  | (k, q) :: rest, d => by
    unfold parseNested
    split
    · exact parseNested_op G rest d
    · dsimp only
      split
      · split
        · exact opErr_ok _ _
        · exact parseNested_op G rest _
      · exact here_op G k q d

theorem parseSpecConstantOp_op (G : Tables) (idx : Nat) (d : DState) : OpErr (parseSpecConstantOp G idx d) := by
  unfold parseSpecConstantOp
  split
  · exact opErr_operandError _ _
  · exact opErr_panic _ _
  · dsimp only
    split
    · split
      · exact opErr_ok _ _
      · exact parseNested_op G _ _
    · intro e d' h; cases h; trivial

theorem parseOne_op (G : Tables) (τ : Tracker) (idx opcode k : Nat) (a : Acc) (d : DState) :
    OpErr (parseOne G τ idx opcode k a d) := by
  unfold parseOne
  split
  · split
    · exact opErr_ok _ _
    · exact opErr_operandError _ _
    · exact opErr_panic _ _
  · split
    · split
      · exact opErr_ok _ _
      · exact opErr_operandError _ _
      · exact opErr_panic _ _
    · split
      · split
        · exact opErr_panic _ _
        · split
          · exact opErr_panic _ _
          · split
            · exact opErr_ok _ _
            · op_from (parseLiteral_op G τ idx _ d)
            · exact opErr_panic _ _
      · split
        · split
          · exact opErr_panic _ _
          · split
            · exact opErr_panic _ _
            · split
              · split
                · exact opErr_panic _ _
                · split
                  · split
                    · exact opErr_ok _ _
                    · exact opErr_operandError _ _
                    · exact opErr_panic _ _
                  · op_from (parseLiteral_op G τ idx _ d)
                  · exact opErr_panic _ _
              · exact opErr_panic _ _
        · split
          · split
            · exact opErr_ok _ _
            · op_from (parseSpecConstantOp_op G idx d)
            · exact opErr_panic _ _
          · split
            · exact opErr_ok _ _
            · op_from (parseOperand_op G k d)
            · exact opErr_panic _ _

theorem loop_op (G : Tables) (τ : Tracker) (idx opcode : Nat) : ∀ (fuel : Nat) (ops : List (Nat × Nat)) (a : Acc)
    (d : DState), OpErr (parseOperandsLoop G τ idx opcode fuel ops a d)
  | 0, _, _, d => by unfold parseOperandsLoop; exact opErr_panic _ _
  | _ + 1, [], a, d => by unfold parseOperandsLoop; exact opErr_ok _ _
  | fuel + 1, (k, q) :: rest, a, d => by
    unfold parseOperandsLoop
    split
    · split
      · split
        · exact loop_op G τ idx opcode fuel _ _ _
        · exact loop_op G τ idx opcode fuel _ _ _
      · exact parseOne_op G τ idx opcode k a d
    · split
      · intro e d' h; cases h; trivial
      · exact opErr_ok _ _

/-- **non-zero word count, known opcode ⇒ operand-level kind** -/
theorem parseInst_opLevel {B : List Nat} (G : Tables) (τ : Tracker) (idx : Nat) (d : DState) (w0 : Nat) (t : List Nat)
    (hv : SView B d (w0 :: t)) (hwc : w0 / 65536 ≠ 0) (ent : Entry) (hl : lookupOpcode G.core (w0 % 65536) = some ent)
    (e : IErr) (d' : DState) (h : parseInst G τ idx d = (.err e, d')) : OpLevel e := by
  unfold parseInst at h
  rw [sview_word d w0 t hv] at h
  have : (w0 / 65536 == 0) = false := by simpa using hwc
  simp only [this, Bool.false_eq_true, if_false, hl] at h
  have hloop := loop_op G τ idx ent.opcode (w0 / 65536 + ent.ops.length + 1) ent.ops ⟨none, none, []⟩
    (DState.setLimit (w0 / 65536 - 1) { d with offset := d.offset + 4 })
  cases hr : parseOperandsLoop G τ idx ent.opcode (w0 / 65536 + ent.ops.length + 1) ent.ops ⟨none, none, []⟩
      (DState.setLimit (w0 / 65536 - 1) { d with offset := d.offset + 4 }) with
  | mk r d3 =>
    rw [hr] at h hloop
    cases r with
    | ok a =>
      dsimp only at h
      split at h
      · cases h; trivial
      · cases h
    | err x =>
      dsimp only at h
      cases h
      exact hloop _ _ rfl
    | panic s => cases h

/-- **C03 (kind, operands).** If the first instruction the recogniser does not accept has a non-zero word count and an
opcode of the grammar table, the parse ends with an operand-level kind. -/
theorem C03_kind_operand (G : Tables) (hT : tablesSafe G = true) (bytes : List Nat) (hb : ∀ b ∈ bytes, b < 256)
    (hs : bytes.length < 2 ^ 63) (h20 : 20 ≤ bytes.length) (hmagic : le32 bytes 0 = G.magic) (w0 : Nat) (t : List Nat)
    (hrest : (Spec.insts G (bytes.length + 1) [] (Spec.streamWords bytes)).2 = w0 :: t) (hwc : w0 / 65536 ≠ 0)
    (ent : Entry) (hl : lookupOpcode G.core (w0 % 65536) = some ent) :
    ∃ e, (parse G (fun _ => .continue_) bytes).result = .err (.inst e) ∧ OpLevel e := by
  obtain ⟨e, dF, w0', t', r1, _, r3, r4, _, τF, dF1, r6⟩ :=
    C03_reject G hT bytes hb hs h20 hmagic (by rw [hrest]; simp)
  rw [hrest] at r3
  cases r3
  exact ⟨e, r1, parseInst_opLevel G τF _ dF w0 t r4 hwc ent hl e dF1 r6⟩

/-- **C03 (kind of fault, all cases).** For a rejected binary with a good header, let `w0` be the first word of the first
instruction the recogniser does not accept. The reported kind is `WordCountZero` iff the word count of `w0` is zero,
`OpcodeUnknown` (carrying the opcode number) iff it is not and the opcode is not in the table, and an operand-level kind
otherwise. -/
theorem C03_kind_cases (G : Tables) (hT : tablesSafe G = true) (bytes : List Nat) (hb : ∀ b ∈ bytes, b < 256)
    (hs : bytes.length < 2 ^ 63) (h20 : 20 ≤ bytes.length) (hmagic : le32 bytes 0 = G.magic) (w0 : Nat) (t : List Nat)
    (hrest : (Spec.insts G (bytes.length + 1) [] (Spec.streamWords bytes)).2 = w0 :: t) :
    ∃ e, (parse G (fun _ => .continue_) bytes).result = .err (.inst e) ∧
      ((w0 / 65536 = 0 ∧ ∃ o i, e = .wordCountZero o i) ∨
       (w0 / 65536 ≠ 0 ∧ lookupOpcode G.core (w0 % 65536) = none ∧ ∃ o i, e = .opcodeUnknown o i (w0 % 65536)) ∨
       (w0 / 65536 ≠ 0 ∧ (lookupOpcode G.core (w0 % 65536)).isSome ∧ OpLevel e)) := by
  by_cases hwc : w0 / 65536 = 0
  · obtain ⟨dF, _, hr⟩ := C03_kind_wc0 G hT bytes hb hs h20 hmagic w0 t hrest hwc
    exact ⟨_, hr, Or.inl ⟨hwc, _, _, rfl⟩⟩
  · cases hl : lookupOpcode G.core (w0 % 65536) with
    | none =>
      obtain ⟨dF, _, hr⟩ := C03_kind_unknown G hT bytes hb hs h20 hmagic w0 t hrest hwc hl
      exact ⟨_, hr, Or.inr (Or.inl ⟨hwc, rfl, _, _, rfl⟩)⟩
    | some ent =>
      obtain ⟨e, hr, ho⟩ := C03_kind_operand G hT bytes hb hs h20 hmagic w0 t hrest hwc ent hl
      exact ⟨e, hr, Or.inr (Or.inr ⟨hwc, rfl, ho⟩)⟩

end Rspirv.Props.C03KindOp
