import Rspirv.Props.Reload
import Rspirv.Props.C02
import Rspirv.Model.Hyp
/-!
# Assemble, then load: the whole pipeline on a canonical module

`assemble_load`: for a canonical module `m` (see `Props/Reload.lean`) whose header is one the parser would rebuild and
whose instruction traversal is a stream of instructions of the grammar (`GrammarStream`: each instruction is one the
recogniser `Spec.inst` produces under the types tracked so far), `load_bytes` applied to the little-endian bytes of the
words `Module::assemble` emits returns exactly `m`.

The chain: `C15_assemble` (words = header ++ per-instruction encodings in traversal order) → `streamWords_bytes`
(the parser's word stream is that list) → `insts_asm` (the recogniser reads the encodings back, by `C02_spec`) →
`C03_accept_header` (the parser delivers exactly the recognised instructions, and which header) → `feed_insts` (the
loader consumes them) → `load_canon` (and rebuilds `m`).
-/
namespace Rspirv.Props.RoundTrip
open Rspirv Rspirv.Model Rspirv.Model.DState Rspirv.Props.C04 Rspirv.Props.ParserSpec Rspirv.Props.C02 Rspirv.Props.C03
open Rspirv.Props.Reload Rspirv.Props.C01

/-- a stream of instructions of the grammar: each one is produced by the recogniser from *some* words under the types
tracked so far, its encoding fits the 16-bit word count, and the tracker accepts it -/
def GrammarStream (G : Tables) : Tracker → List Inst → Prop
  | _, [] => True
  | τ, i :: t => (∃ ws rest, Spec.inst G τ ws = some (i, rest)) ∧ (assembleInst i).length < 65536 ∧
      ∃ τ1, τ.track G.tt i = some τ1 ∧ GrammarStream G τ1 t

/-- the recogniser reads a grammar stream back from the concatenation of the assembler's encodings -/
theorem insts_asm (G : Tables) (good : GoodTables G) : ∀ (is : List Inst) (τ : Tracker) (fuel : Nat),
    GrammarStream G τ is → is.length ≤ fuel → Spec.insts G fuel τ (is.flatMap assembleInst) = (is, [])
  | [], τ, fuel, _, _ => by
    cases fuel with
    | zero => rfl
    | succ f => simp [Spec.insts, Spec.inst]
  | i :: t, τ, fuel, h, hf => by
    obtain ⟨⟨ws, rest, hi⟩, hlen, τ1, htr, ht⟩ := h
    cases fuel with
    | zero => simp at hf
    | succ f =>
      have h1 := C02_spec G good τ ws i rest hi hlen (t.flatMap assembleInst)
      have ih := insts_asm G good t τ1 f ht (by simpa using hf)
      simp only [List.flatMap_cons, Spec.insts, h1, htr, ih]

theorem grammarStreamB_sound (G : Tables) : ∀ (is : List Inst) (τ : Tracker), grammarStreamB G τ is = true →
    GrammarStream G τ is
  | [], _, _ => trivial
  | i :: t, τ, h => by
    simp only [grammarStreamB, Bool.and_eq_true, decide_eq_true_eq] at h
    obtain ⟨⟨h1, h2⟩, h3⟩ := h
    cases ht : τ.track G.tt i with
    | none => rw [ht] at h3; cases h3
    | some τ1 =>
      rw [ht] at h3
      exact ⟨⟨_, _, h1⟩, h2, τ1, ht, grammarStreamB_sound G t τ1 h3⟩

/-! ### the bytes of a word list -/

theorem wordBytes_length (w : Nat) : (Spec.wordBytes w).length = 4 := rfl

theorem flatMap_wordBytes_length : ∀ ws : List Nat, (ws.flatMap Spec.wordBytes).length = 4 * ws.length
  | [] => rfl
  | w :: t => by simp only [List.flatMap_cons, List.length_append, wordBytes_length, flatMap_wordBytes_length t, List.length_cons]; omega

theorem wordBytes_lt (w : Nat) : ∀ b ∈ Spec.wordBytes w, b < 256 := by
  intro b hb
  simp only [Spec.wordBytes, List.mem_cons, List.not_mem_nil, or_false] at hb
  rcases hb with rfl | rfl | rfl | rfl <;> omega

theorem flatMap_wordBytes_lt (ws : List Nat) : ∀ b ∈ ws.flatMap Spec.wordBytes, b < 256 := by
  intro b hb
  obtain ⟨w, _, hw⟩ := List.mem_flatMap.1 hb
  exact wordBytes_lt w b hw

/-- word `k` of the little-endian bytes of a list of 32-bit words -/
theorem le32_flatMap (ws : List Nat) (hw : WordsOk ws) (k : Nat) (hk : k < ws.length) :
    le32 (ws.flatMap Spec.wordBytes) (4 * k) = ws[k] := by
  have hsplit : ws = ws.take k ++ ws[k] :: ws.drop (k + 1) := by
    rw [List.getElem_cons_drop]; exact (List.take_append_drop k ws).symm
  have hlen : ((ws.take k).flatMap Spec.wordBytes).length = 4 * k := by
    rw [flatMap_wordBytes_length, List.length_take]; omega
  have : ws.flatMap Spec.wordBytes =
      (ws.take k).flatMap Spec.wordBytes ++ Spec.wordBytes ws[k] ++ (ws.drop (k + 1)).flatMap Spec.wordBytes := by
    conv => lhs; rw [hsplit]
    simp only [List.flatMap_append, List.flatMap_cons, List.append_assoc]
  rw [this, ← hlen]
  exact le32_wordBytes ws[k] (hw _ (List.getElem_mem hk)) _ _

theorem streamWords_bytes (hdr ws : List Nat) (hh : hdr.length = 5) (hw : WordsOk (hdr ++ ws)) :
    Spec.streamWords ((hdr ++ ws).flatMap Spec.wordBytes) = ws := by
  apply List.ext_getElem
  · simp only [Spec.streamWords, List.length_map, List.length_range, flatMap_wordBytes_length, List.length_append, hh]
    omega
  · intro k h1 h2
    simp only [Spec.streamWords, List.getElem_map, List.getElem_range]
    have : 20 + 4 * k = 4 * (5 + k) := by omega
    rw [this, le32_flatMap (hdr ++ ws) hw (5 + k) (by simp [hh]; omega)]
    rw [List.getElem_append_right (by omega)]
    simp [hh]

/-! ### the parse with its header spelled out -/

theorem C03_accept_header (G : Tables) (hT : tablesSafe G = true) (bytes : List Nat) (hb : ∀ b ∈ bytes, b < 256)
    (hs : bytes.length < 2 ^ 63) (h20 : 20 ≤ bytes.length) (hmagic : le32 bytes 0 = G.magic) :
    ((parse G (fun _ => .continue_) bytes).result = .ok () ↔
      (Spec.insts G (bytes.length + 1) [] (Spec.streamWords bytes)).2 = []) ∧
    (parse G (fun _ => .continue_) bytes).trace =
      .init :: .header ⟨G.magic, (le32 bytes 4 / 65536 % 256) * 65536 + (le32 bytes 4 / 256 % 256) * 256, 0x000f0000,
          le32 bytes 12, 0⟩ ::
        (Spec.insts G (bytes.length + 1) [] (Spec.streamWords bytes)).1.map Ev.inst ++
        (if (Spec.insts G (bytes.length + 1) [] (Spec.streamWords bytes)).2 = [] then [Ev.fin] else []) := by
  obtain ⟨ws, d1, hw, hv, hws⟩ := header_sview bytes hb hs h20
  have hws' : ws = [le32 bytes 0, le32 bytes 4, le32 bytes 8, le32 bytes 12, le32 bytes 16] := by rw [hws]; rfl
  have hlenw : (Spec.streamWords bytes).length < bytes.length + 1 := by
    simp only [Spec.streamWords, List.length_map, List.length_range]; omega
  unfold parse
  simp only [consume]
  unfold parseHeader
  rw [hw]
  have hm : (ws.getD 0 0 != G.magic) = false := by
    rw [hws']; simp [hmagic]
  simp only [hm, Bool.false_eq_true, if_false]
  have g1 : ws.getD 1 0 = le32 bytes 4 := by rw [hws']; rfl
  have g3 : ws.getD 3 0 = le32 bytes 12 := by rw [hws']; rfl
  rw [g1, g3]
  obtain ⟨h1, h2, _⟩ := C03_loop G hT (bytes.length + 1) [] 2 0 d1
    [.header ⟨G.magic, (le32 bytes 4 / 65536 % 256) * 65536 + (le32 bytes 4 / 256 % 256) * 256, 0x000f0000,
      le32 bytes 12, 0⟩, .init] _ hv hlenw
  refine ⟨h2, ?_⟩
  rw [h1]
  simp

/-! ### the loader behind the parser -/

theorem loadBytes_of_trace (G : Tables) (L : LTables) (bytes : List Nat) (hd : Header) (is : List Inst) (m : Module Inst)
    (hres : (parse G (fun _ => .continue_) bytes).result = .ok ())
    (htr : (parse G (fun _ => .continue_) bytes).trace = .init :: .header hd :: is.map Ev.inst ++ [.fin])
    (hl : load L hd is = .ok m) : loadBytes G L bytes = .ok m := by
  unfold load at hl
  cases hrun : LState.run L (LState.start hd) is with
  | error e => rw [hrun] at hl; cases hl
  | ok st =>
    rw [hrun] at hl
    simp only at hl
    have hmod : st.module = m := by
      unfold LState.finalize at hl
      split at hl
      · cases hl
      · split at hl
        · cases hl
        · cases hl; rfl
    unfold loadBytes loadWith
    rw [htr]
    simp only [feed, List.cons_append]
    rw [feed_insts, hrun]
    simp only [hl, hres, loadResult, hmod]

/-- **Assemble, then load.** `m` canonical with the header the parser would rebuild (rspirv's magic number and
generator word, reserved word zero, a version word with only the major and minor bytes set), its traversal a stream of
instructions of the grammar, all emitted words below 2^32 and the binary shorter than 2^63 bytes: `load_bytes` of the
bytes of `m.assemble()` is `Ok(m)`. -/
theorem assemble_load (G : Tables) (L : LTables) (hT : tablesSafe G = true) (good : GoodTables G)
    (m : Module Inst) (hd : Header) (hm : m.header = some hd) (hc : Canon L m)
    (hmagic : hd.magic = G.magic) (hgen : hd.generator = 0x000f0000) (hres : hd.reserved = 0)
    (hver : hd.version = (hd.version / 65536 % 256) * 65536 + (hd.version / 256 % 256) * 256)
    (hg : GrammarStream G [] (Rspirv.Props.C15.allInstIter m))
    (hw : WordsOk (Rspirv.Props.C15.assemble assembleInst m))
    (hsmall : 4 * (Rspirv.Props.C15.assemble assembleInst m).length < 2 ^ 63) :
    loadBytes G L ((Rspirv.Props.C15.assemble assembleInst m).flatMap Spec.wordBytes) = .ok m := by
  have hasm : Rspirv.Props.C15.assemble assembleInst m =
      [hd.magic, hd.version, hd.generator, hd.bound, hd.reserved] ++
        (Rspirv.Props.C15.allInstIter m).flatMap assembleInst := by
    rw [Rspirv.Props.C15.C15_assemble, hm]
    have : Header.asm Rspirv.Generated.Traversals.asmHeader hd =
        [hd.magic, hd.version, hd.generator, hd.bound, hd.reserved] := by
      have : Rspirv.Generated.Traversals.asmHeader = [0, 1, 2, 3, 4] := by decide
      rw [this]; rfl
    simp [this]
  rw [hasm] at hw hsmall ⊢
  generalize hbytes : ([hd.magic, hd.version, hd.generator, hd.bound, hd.reserved] ++
    (Rspirv.Props.C15.allInstIter m).flatMap assembleInst).flatMap Spec.wordBytes = bytes
  have hlenb : bytes.length = 4 * (5 + ((Rspirv.Props.C15.allInstIter m).flatMap assembleInst).length) := by
    rw [← hbytes, flatMap_wordBytes_length]; simp only [List.length_append, List.length_cons, List.length_nil]
  have hb : ∀ b ∈ bytes, b < 256 := by rw [← hbytes]; exact flatMap_wordBytes_lt _
  have hs : bytes.length < 2 ^ 63 := by
    rw [hlenb]; simp only [List.length_append, List.length_cons, List.length_nil] at hsmall; omega
  have h20 : 20 ≤ bytes.length := by rw [hlenb]; omega
  have hword : ∀ k (hk : k < 5), le32 bytes (4 * k) = [hd.magic, hd.version, hd.generator, hd.bound, hd.reserved][k] := by
    intro k hk
    rw [← hbytes, le32_flatMap _ hw k (by simp; omega)]
    rw [List.getElem_append_left (by simpa using hk)]
  have w0 : le32 bytes 0 = hd.magic := hword 0 (by omega)
  have w1 : le32 bytes 4 = hd.version := hword 1 (by omega)
  have w3 : le32 bytes 12 = hd.bound := hword 3 (by omega)
  have hstream : Spec.streamWords bytes = (Rspirv.Props.C15.allInstIter m).flatMap assembleInst := by
    rw [← hbytes]; exact streamWords_bytes _ _ rfl hw
  have hlenI : (Rspirv.Props.C15.allInstIter m).length ≤ bytes.length + 1 := by
    have : ∀ l : List Inst, l.length ≤ (l.flatMap assembleInst).length := by
      intro l
      induction l with
      | nil => simp
      | cons i t ih => simp only [List.flatMap_cons, List.length_append, List.length_cons, assembleInst]; omega
    have := this (Rspirv.Props.C15.allInstIter m)
    omega
  have hins := insts_asm G good _ [] (bytes.length + 1) hg hlenI
  obtain ⟨a1, a2⟩ := C03_accept_header G hT bytes hb hs h20 (by rw [w0, hmagic])
  rw [hstream, hins] at a1 a2
  simp only [if_true] at a2
  rw [w1, w3, ← hver] at a2
  have hhd : (⟨G.magic, hd.version, 0x000f0000, hd.bound, 0⟩ : Header) = hd := by
    obtain ⟨x0, x1, x2, x3, x4⟩ := hd
    simp only at hmagic hgen hres
    subst hmagic hgen hres
    rfl
  rw [hhd] at a2
  refine loadBytes_of_trace G L bytes hd _ m (a1.2 rfl) a2 ?_
  rw [load_canon L hd m hc]
  congr 1
  obtain ⟨b0, b1, b2, b3, b4, b5, b6, b7, b8, b9, b10, b11, b12⟩ := m
  simp only at hm
  subst hm
  rfl

/-! ### the header the parser hands over -/

theorem parseLoop_prefix (G : Tables) (script : Nat → Action) : ∀ (fuel : Nat) (τ : Tracker) (k idx : Nat) (d : DState)
    (tr : List Ev), ∃ suf, (parseLoop G script fuel τ k idx d tr).trace = tr.reverse ++ suf
  | 0, _, _, _, _, tr => ⟨[], by simp [parseLoop]⟩
  | fuel + 1, τ, k, idx, d, tr => by
    unfold parseLoop
    cases hp : parseInst G τ (idx + 1) d with
    | mk res d1 =>
      cases res with
      | panic s => exact ⟨[], by simp⟩
      | ok i =>
        simp only
        cases ht : τ.track G.tt i with
        | none => exact ⟨[], by simp⟩
        | some τ1 =>
          simp only
          cases hcs : consume (script k) k with
          | some e => exact ⟨[.inst i], by simp⟩
          | none =>
            obtain ⟨suf, hs⟩ := parseLoop_prefix G script fuel τ1 (k + 1) (idx + 1) d1 (Ev.inst i :: tr)
            exact ⟨.inst i :: suf, by simp only [hs]; simp⟩
      | err e =>
        cases e with
        | complete =>
          simp only
          cases hcs : consume (script k) k with
          | some e => exact ⟨[.fin], by simp⟩
          | none => exact ⟨[.fin], by simp⟩
        | _ => exact ⟨[], by simp⟩

theorem parse_header_form (G : Tables) (script : Nat → Action) (bytes : List Nat) (hd : Header) (rest : List Ev)
    (h : (parse G script bytes).trace = .init :: .header hd :: rest) :
    hd.magic = G.magic ∧ hd.generator = 0x000f0000 ∧ hd.reserved = 0 ∧
      hd.version = (hd.version / 65536 % 256) * 65536 + (hd.version / 256 % 256) * 256 := by
  have form : ∀ (d d1 : DState) (x : Header), parseHeader G d = (.ok x, d1) →
      x.magic = G.magic ∧ x.generator = 0x000f0000 ∧ x.reserved = 0 ∧
        x.version = (x.version / 65536 % 256) * 65536 + (x.version / 256 % 256) * 256 := by
    intro d d1 x hx
    unfold parseHeader at hx
    split at hx
    · simp only at hx
      split at hx
      · split at hx <;> cases hx
      · simp only [Prod.mk.injEq, PRes.ok.injEq] at hx
        obtain ⟨hx, _⟩ := hx
        subst hx
        refine ⟨rfl, rfl, rfl, ?_⟩
        simp only
        omega
    · cases hx
    · cases hx
  unfold parse at h
  split at h
  · simp at h
  · split at h
    · rename_i x d1 hph
      split at h
      · simp only [List.cons.injEq, Ev.header.injEq, true_and] at h
        obtain ⟨rfl, _⟩ := h
        exact form _ _ _ hph
      · obtain ⟨suf, hs⟩ := parseLoop_prefix G script (bytes.length + 1) [] 2 0 d1 [.header x, .init]
        rw [hs] at h
        simp only [List.reverse_cons, List.reverse_nil, List.nil_append, List.cons_append, List.cons.injEq,
          Ev.header.injEq, true_and] at h
        obtain ⟨rfl, _⟩ := h
        exact form _ _ _ hph
    · simp at h
    · simp at h

/-- **C01 (reload, byte level).** A binary that `load_bytes` accepts as `m`: if the traversal of `m` — the input's
instructions regrouped in layout order — is still a stream of instructions of the grammar (it always is unless the
regrouping moves a numeric type declaration in front of an instruction whose literal width it then changes; recorded
finding `C01:reload-literal-width-late-type`), then `load_bytes` of the bytes of `m.assemble()` is `Ok(m)` again. -/
theorem C01_reload_bytes (G : Tables) (L : LTables) (hT : tablesSafe G = true) (good : GoodTables G)
    (bytes : List Nat) (m : Module Inst) (h : loadBytes G L bytes = .ok m)
    (hg : GrammarStream G [] (Rspirv.Props.C15.allInstIter m))
    (hw : WordsOk (Rspirv.Props.C15.assemble assembleInst m))
    (hsmall : 4 * (Rspirv.Props.C15.assemble assembleInst m).length < 2 ^ 63) :
    loadBytes G L ((Rspirv.Props.C15.assemble assembleInst m).flatMap Spec.wordBytes) = .ok m := by
  obtain ⟨hd, is, htr, hl⟩ := C01_loadBytes G L bytes m h
  obtain ⟨f1, f2, f3, f4⟩ := parse_header_form G _ bytes hd _ htr
  exact assemble_load G L hT good m hd (load_header L hd is m hl) (canon_of_load L hd is m hl) f1 f2 f3 f4 hg hw hsmall

end Rspirv.Props.RoundTrip
